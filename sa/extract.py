"""Build the compilation database for /repo's current tree and run nngfacts.

Nothing is compiled or linked: cmake only configures into a scratch
directory outside /repo and /verif, `ninja -t compdb` prints the commands of
the real build, and nngfacts parses every unit of the `nng` library target
with those flags.  The merged facts are cached under /verif/.cache keyed by a
content hash of the sources, so the twenty checks of one batch share one
extraction; any edit to /repo changes the key.
"""
import hashlib
import json
import os
import shutil
import subprocess
import sys
import tempfile
import time
from concurrent.futures import ThreadPoolExecutor

VERIF = os.path.dirname(os.path.dirname(os.path.abspath(__file__)))
REPO = os.environ.get("NNG_REPO", "/repo")
TOOL = os.path.join(VERIF, "bin", "nngfacts")
CACHE = os.path.join(VERIF, ".cache")

CMAKE_OPTS = [
    "-G", "Ninja", "-DCMAKE_BUILD_TYPE=RelWithDebInfo", "-DCMAKE_C_FLAGS=-Wno-error",
    "-DNNG_TESTS=OFF", "-DNNG_TOOLS=OFF", "-DNNG_ENABLE_NNGCAT=OFF",
    "-DBUILD_SHARED_LIBS=ON",
]

CONFIGS = {
    # name -> (extra cmake options, extra compile flags)
    "default": ([], []),
    "debug": ([], ["-UNDEBUG"]),
    "nostats": (["-DNNG_ENABLE_STATS=OFF"], []),
    "poll": (["-DNNG_POLLQ_POLLER=poll"], []),
}


try:
    from .core import AnalysisBroken
except ImportError:  # run as a script
    sys.path.insert(0, os.path.dirname(os.path.dirname(os.path.abspath(__file__))))
    from sa.core import AnalysisBroken


def tree_hash(repo, config):
    h = hashlib.sha256()
    h.update(config.encode())
    for base in ("src", "include", "cmake"):
        for dp, dn, fn in sorted(os.walk(os.path.join(repo, base))):
            dn.sort()
            for f in sorted(fn):
                if not f.endswith((".c", ".h", ".cmake", ".txt", ".in")):
                    continue
                p = os.path.join(dp, f)
                h.update(p.encode())
                try:
                    with open(p, "rb") as fh:
                        h.update(fh.read())
                except OSError:
                    pass
    for f in ("CMakeLists.txt",):
        with open(os.path.join(repo, f), "rb") as fh:
            h.update(fh.read())
    with open(TOOL, "rb") as fh:
        h.update(fh.read())
    return h.hexdigest()[:24]


def compdb(repo, scratch, config):
    extra_cmake, extra_flags = CONFIGS[config]
    bdir = os.path.join(scratch, "b")
    r = subprocess.run(["cmake", "-S", repo, "-B", bdir] + CMAKE_OPTS + extra_cmake,
                       capture_output=True, text=True)
    if r.returncode != 0:
        raise AnalysisBroken("cmake configure failed:\n" + r.stdout[-2000:] + r.stderr[-2000:])
    r = subprocess.run(["ninja", "-C", bdir, "-t", "compdb"], capture_output=True, text=True)
    if r.returncode != 0:
        raise AnalysisBroken("ninja -t compdb failed: " + r.stderr[-2000:])
    db = json.loads(r.stdout)
    seen = {}
    for e in db:
        out = e.get("output", "")
        if "CMakeFiles/nng.dir" not in out:
            continue
        f = os.path.realpath(e["file"])
        if not f.endswith(".c"):
            continue
        if f in seen:
            continue
        cmd = e["command"]
        # keep the real flags, state the language standard explicitly,
        # use clang as the front end
        parts = cmd.split()
        parts[0] = "clang"
        if not any(p.startswith("-std=") for p in parts):
            parts.insert(1, "-std=gnu99")
        parts += ["-Wno-everything"] + extra_flags
        seen[f] = {"directory": e["directory"], "file": f, "command": " ".join(parts)}
    entries = list(seen.values())
    if len(entries) < 60:
        raise AnalysisBroken("compilation database has only %d library units" % len(entries))
    with open(os.path.join(scratch, "compile_commands.json"), "w") as fh:
        json.dump(entries, fh)
    return entries


def run_tool(scratch, files, idx, repo):
    out = os.path.join(scratch, "facts.%d.json" % idx)
    r = subprocess.run([TOOL, "-p", scratch, "--root", os.path.realpath(repo), "-o", out] + files,
                       capture_output=True, text=True)
    return out, r.returncode, r.stderr


def extract(repo=REPO, config="default", use_cache=True, verbose=False):
    """Return the merged facts dict for repo's current working tree."""
    if not os.path.exists(TOOL):
        raise AnalysisBroken("bin/nngfacts missing: run ./setup.sh")
    key = tree_hash(repo, config)
    os.makedirs(CACHE, exist_ok=True)
    cpath = os.path.join(CACHE, "facts-%s-%s.json" % (config, key))
    if use_cache and os.path.exists(cpath):
        try:
            with open(cpath) as fh:
                facts = json.load(fh)
            facts["_cache"] = "hit"
            return facts
        except (OSError, ValueError):
            pass      # pruned or half-written by a concurrent run: extract again
    t0 = time.time()
    scratch = tempfile.mkdtemp(prefix="nngverif.")
    try:
        entries = compdb(repo, scratch, config)
        files = sorted(e["file"] for e in entries)
        nproc = min(16, os.cpu_count() or 4)
        batches = [files[i::nproc] for i in range(nproc)]
        batches = [b for b in batches if b]
        with ThreadPoolExecutor(len(batches)) as ex:
            results = list(ex.map(lambda t: run_tool(scratch, t[1], t[0], repo), enumerate(batches)))
        merged = {"units": [], "functions": [], "records": {}, "enums": {}, "globals": []}
        seenfn = set()
        seeng = set()
        for out, rc, err in results:
            if not os.path.exists(out):
                raise AnalysisBroken("nngfacts produced no output: " + err[-2000:])
            with open(out) as fh:
                d = json.load(fh)
            for u in d["units"]:
                if u.get("errors", 0):
                    raise AnalysisBroken("unit failed to parse: %s\n%s" % (u["file"], err[-3000:]))
            if rc != 0:
                raise AnalysisBroken("nngfacts failed (rc=%d): %s" % (rc, err[-3000:]))
            merged["units"] += d["units"]
            for f in d["functions"]:
                k = (f["file"], f["line"], f["name"])
                if k in seenfn:
                    continue
                seenfn.add(k)
                merged["functions"].append(f)
            for k, v in d["records"].items():
                merged["records"].setdefault(k, v)
            for k, v in d["enums"].items():
                merged["enums"].setdefault(k, v)
            for g in d["globals"]:
                k = (g["file"], g["line"], g["name"])
                if k in seeng:
                    continue
                seeng.add(k)
                merged["globals"].append(g)
        merged["config"] = config
        merged["key"] = key
        merged["n_units"] = len(files)
        merged["unit_files"] = [os.path.relpath(f, os.path.realpath(repo)) for f in files]
        merged["extract_s"] = round(time.time() - t0, 2)
        tmp = cpath + ".%d.tmp" % os.getpid()
        with open(tmp, "w") as fh:
            json.dump(merged, fh)
        os.replace(tmp, cpath)
        # keep the cache small
        def mtime(f):
            try:
                return os.path.getmtime(os.path.join(CACHE, f))
            except OSError:      # pruned by a concurrent run between listdir and stat
                return 0
        olds = sorted((mtime(f), f) for f in os.listdir(CACHE) if f.startswith("facts-") and f.endswith(".json"))
        for _, f in olds[:-16]:
            try:
                os.remove(os.path.join(CACHE, f))
            except OSError:
                pass
        merged["_cache"] = "miss"
        return merged
    finally:
        shutil.rmtree(scratch, ignore_errors=True)


if __name__ == "__main__":
    cfg = sys.argv[1] if len(sys.argv) > 1 else "default"
    t = time.time()
    f = extract(config=cfg, use_cache="--nocache" not in sys.argv)
    print("units", f["n_units"], "functions", len(f["functions"]), "records", len(f["records"]),
          "globals", len(f["globals"]), "cache", f["_cache"], "wall %.1fs" % (time.time() - t))
