"""Hop-loop facts shared by C04 / C07 / C11 / C13: the four functions that move
the routing backtrace from the body to the header (rep, xrep, respondent,
xrespondent receive callbacks) must agree on the same guards."""
from .core import walk, show, const_of, last_field, truth_of, apath, AnalysisBroken
from . import guards as G

HOP_FUNCS = [
    ("rep0_pipe_recv_cb", "reqrep0/rep.c", False),
    ("xrep0_pipe_recv_cb", "reqrep0/xrep.c", True),
    ("resp0_pipe_recv_cb", "survey0/respond.c", False),
    ("xresp0_recv_cb", "survey0/xrespond.c", True),
]


def is_var(n, name):
    return n is not None and n.get("k") == "var" and n["n"] == name


def check_hop_loop(ctx, r, fn, raw):
    """Returns number of facts checked; reports violations on rule r."""
    appends = [s for s in fn.calls("nni_msg_header_append")]
    trims = [s for s in fn.calls("nni_msg_trim") if len(s.node["args"]) > 1 and const_of(fn.expand(s.node["args"][1])) == 4]
    # the same move written with the fixed-width helpers: the trim is equivalent, but nni_msg_header_append_u32 has no
    # failure return -- it panics when the header is full, and how full it gets here is decided by the peer
    trims += [s for s in fn.calls("nni_msg_trim_u32")]
    hard = [s for s in fn.calls("nni_msg_header_append_u32")]
    # ... which matters only for words that come off the wire (the trim result), not for the pipe id the function adds itself
    wire = []
    for s in hard:
        a = fn.expand(s.node["args"][1]) if len(s.node["args"]) > 1 else None
        v = G.resolve(fn, a, (s.b, s.i)) if a is not None else None
        if v is not None and v.get("k") == "call" and v.get("fn") in ("nni_msg_trim_u32", "nni_msg_header_trim_u32"):
            wire.append(s)
    for s in wire:
        ctx.fail(r, fn, "backtrace word appended with the panicking helper", s.line,
                 "nni_msg_header_append_u32 at line %s moves a word the peer supplied: with NNG_OPT_MAXTTL at its maximum the "
                 "header can become exactly full and the helper calls nni_panic -- a remote peer aborts the process; the "
                 "sibling loops use nni_msg_header_append and drop the message when it does not fit" % s.line)
    if wire and not appends:
        return
    # the word moved to the header keeps its place in the sequence: appended, not inserted in front
    fronts = [s for s in fn.calls(("nni_msg_header_insert", "nni_msg_header_insert_u32"))]
    for s in fronts:
        ctx.fail(r, fn, "backtrace word inserted at the front of the header", s.line,
                 "%s at line %s puts the backtrace word in front of the words moved before it: a backtrace of two or more hops "
                 "(a request that came through a device) is saved and replayed in reverse order, and the reply cannot be routed "
                 "back" % (s.node["fn"], s.line))
    if fronts and not appends:
        return
    if not appends or not trims:
        raise AnalysisBroken("%s: hop loop anchors (nni_msg_header_append / nni_msg_trim(msg, 4)) vanished" % fn.name)
    # edges
    ttl_ok = G.cmp_edges(fn, lambda l: is_var(l, "hops"), {">": 1, "<=": 0, ">=": 1, "<": 0})
    # a `hops >= ttl` / `hops < ttl` form would change the bound: only > and <= are the documented check
    ttl_forms = set()
    for b in fn.blocks.values():
        c = fn.cond(b.id) if b.term else None
        if c is not None and c.get("k") == "bin" and is_var(c["lhs"], "hops"):
            ttl_forms.add(c["op"])
    len_ok = G.cmp_edges(fn, lambda l: l.get("k") == "call" and l.get("fn") == "nni_msg_len",
                         {"<": 1, ">=": 0}, rhs_match=lambda x: const_of(x) == 4)
    if not ttl_ok:
        ctx.fail(r, fn, "no hops > ttl test", fn.line, "the hop loop has no hops > ttl test any more")
        return
    # the limit is the socket's current NNG_OPT_MAXTTL, read when the message is handled (not a copy made earlier)
    from . import guards as G2
    for b in ttl_ok:
        c = fn.cond(b)
        lim = c["rhs"] if c is not None and c.get("k") == "bin" else None
        if lim is None:
            continue
        v = G2.resolve(fn, lim, (b, len(fn.blocks[b].elems)))
        src = None
        if v is not None and v.get("k") == "call" and v.get("fn", "").startswith("nni_atomic_get") and v["args"]:
            a0 = fn.expand(v["args"][0])
            src = last_field(a0)
        elif v is not None and v.get("k") == "mem":
            src = last_field(v)
        if src and src.split(".")[0].endswith("_sock"):
            r.ob(fn, "hop limit read from %s when the message is handled" % src)
        else:
            ctx.fail(r, fn, "hop limit not read from the socket", fn.line_of(b, 0),
                     "the limit compared with hops is %s, not the socket's ttl: a change of NNG_OPT_MAXTTL does not take effect for "
                     "this pipe (messages beyond the new limit are still forwarded)" % (src or show(v)))
    if not len_ok:
        ctx.fail(r, fn, "no len < 4 test", fn.line, "the hop loop has no nni_msg_len(msg) < 4 test any more")
        return
    if ttl_forms - {">", "<="}:
        ctx.fail(r, fn, "ttl comparison %s" % ",".join(sorted(ttl_forms)), fn.line,
                 "the hop limit is compared with %s; the sibling loops use hops > ttl (accept exactly ttl hops)"
                 % ",".join(sorted(ttl_forms)))
    for s in appends + trims:
        what = s.node["fn"]
        if not G.dominated(fn, (s.b, s.i), ttl_ok):
            ctx.fail(r, fn, "%s not guarded by hops <= ttl" % what, s.line,
                     "%s at line %s is reachable without passing the hops <= ttl edge: a message can travel more hops than "
                     "NNG_OPT_MAXTTL allows" % (what, s.line), G.path_lines(fn, (fn.entry, 0), (s.b, s.i), ttl_ok))
        else:
            r.ob(fn, "%s line %s dominated by hops <= ttl" % (what, s.line))
        if not G.dominated(fn, (s.b, s.i), len_ok):
            ctx.fail(r, fn, "%s not guarded by len >= 4" % what, s.line,
                     "%s at line %s is reachable without passing the nni_msg_len(msg) >= 4 edge" % (what, s.line),
                     G.path_lines(fn, (fn.entry, 0), (s.b, s.i), len_ok))
        else:
            r.ob(fn, "%s line %s dominated by len >= 4" % (what, s.line))
    # counter incremented on every loop iteration
    incs = set()
    for s in fn.sites():
        n = s.node
        if n.get("k") == "un" and n.get("op") == "++" and is_var(n["e"], "hops"):
            incs.add((s.b, s.i))
        if n.get("k") == "asg" and is_var(n["lhs"], "hops") and n.get("op") in ("+=",):
            incs.add((s.b, s.i))
    for s in appends:
        again = G.reaches(fn, (s.b, s.i + 1), [(s.b, s.i)], blocked=incs)
        if again:
            ctx.fail(r, fn, "hops not incremented per iteration", s.line,
                     "the loop can come back to nni_msg_header_append without incrementing hops: the ttl check never trips")
        else:
            r.ob(fn, "hops++ on every iteration")
    # the length is tested again for every word: the loop cannot come back to the append without passing the len >= 4 edge
    # (a test made once in front of the loop says nothing about the second word of a backtrace whose body has 5 bytes)
    for s in appends:
        seen = fn.reach((s.b, s.i + 1), edge_ok=lambda b, k: not (b in len_ok and len_ok[b] == k))
        if (s.b, s.i) in seen:
            ctx.fail(r, fn, "length not tested for every backtrace word", s.line,
                     "the hop loop can come back to nni_msg_header_append (line %s) without passing the nni_msg_len(msg) >= 4 test "
                     "again: a body that ends inside a backtrace word is read past its end (bytes from beyond the message go into "
                     "the header) and the malformed message is delivered instead of the peer being dropped" % s.line)
        else:
            r.ob(fn, "len >= 4 tested on every iteration")
    # append result checked, failure does not continue the loop
    for s in appends:
        ve = fn.value_edges(s)
        if not ve:
            ctx.fail(r, fn, "nni_msg_header_append result unchecked", s.line,
                     "the result of nni_msg_header_append is not tested: a full header is silently ignored")
            continue
        bad = False
        for b, (nz, z) in ve.items():
            tgt = fn.blocks[b].succs[nz]
            if tgt is not None and G.reaches(fn, (tgt, 0), G.positions(trims)):
                bad = True
        if bad:
            ctx.fail(r, fn, "append failure continues", s.line,
                     "after a failed nni_msg_header_append the function still trims the body and goes on")
        else:
            r.ob(fn, "append failure leaves the loop")
    # over-ttl path: free, no disconnect
    closes = G.positions(fn.calls("nni_pipe_close"))
    frees = G.positions(fn.calls("nni_msg_free"))
    for b, ok_idx in ttl_ok.items():
        over = fn.blocks[b].succs[1 - ok_idx]
        if over is None:
            continue
        if G.reaches(fn, (over, 0), closes):
            ctx.fail(r, fn, "over-ttl path closes the pipe", fn.line_of(b, 0),
                     "a message that exceeded the hop limit leads to nni_pipe_close: devices legitimately forward such "
                     "messages, they must be dropped without disconnecting the peer")
        elif G.must_pass(fn, (over, 0), frees):
            ctx.fail(r, fn, "over-ttl path does not free", fn.line_of(b, 0),
                     "the over-ttl path can reach the exit without nni_msg_free")
        else:
            r.ob(fn, "over-ttl: dropped, freed, pipe kept")
    # short message: free and close only this pipe
    for b, ok_idx in len_ok.items():
        short = fn.blocks[b].succs[1 - ok_idx]
        if short is None:
            continue
        if G.must_pass(fn, (short, 0), closes) or G.must_pass(fn, (short, 0), frees):
            ctx.fail(r, fn, "short-message path keeps the peer", fn.line_of(b, 0),
                     "a message too short to carry a backtrace word does not lead to nni_msg_free + nni_pipe_close")
        else:
            r.ob(fn, "short message: freed and peer disconnected")
    # termination on the request-id bit
    has_end = False
    for s in fn.sites():
        n = s.node
        if n.get("k") == "bin" and n.get("op") == "&" and const_of(n["rhs"]) in (0x80, 0x80000000):
            has_end = True
    if has_end:
        r.ob(fn, "loop ends on the word with bit 31 set")
    else:
        ctx.fail(r, fn, "no end-of-backtrace test", fn.line, "no test of the 0x80 bit of the first body octet: the loop no longer "
                 "stops at the request id")
    if raw:
        push = [s for s in fn.calls("nni_msg_header_append_u32")
                if len(s.node["args"]) > 1 and ("nni_pipe_id" in show(fn.expand(s.node["args"][1])) or
                                                G.field_is(fn.expand(s.node["args"][1]), "id"))]
        if not push:
            ctx.fail(r, fn, "pipe id not pushed", fn.line, "raw receive no longer prepends nni_pipe_id(p->pipe) to the header")
        else:
            okp = all(not G.reaches(fn, (fn.entry, 0), [(a.b, a.i)], blocked=G.positions(push)) for a in appends)
            if okp:
                r.ob(fn, "pipe id pushed before the backtrace")
            else:
                ctx.fail(r, fn, "pipe id pushed after backtrace words", push[0].line,
                         "a backtrace word can be appended before the receiving pipe's id")
