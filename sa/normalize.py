"""Behaviour-preserving normal form of the extracted program.

A rule that is anchored in function F sees F as the programmer wrote it.  Two
refactorings that do not change behaviour change that picture: moving a few
statements of F into a static helper, and naming an intermediate value with a
temporary.  `normalize(facts)` builds an equivalent program in which

  * calls to file-local static helpers (never address-taken, not recursive,
    small) are replaced by the helper's CFG with parameters bound to the
    arguments (depth-bounded), and
  * a local that is assigned exactly once from a side-effect free expression
    (constants, other stable locals, field reads, reader calls) is replaced by
    that expression at every use that no intervening store or non-reader call
    can separate from the definition.

The engine runs a module on the program as written; only when that run reports
something does it run the module again on the normal form, and it reports only
what both views agree on.  Both views are the same program, so a genuine
violation of a semantic rule is visible in both; a report that disappears in
the normal form was produced by the shape of the code, not by its behaviour."""
import copy
import json

CHILD_KEYS = ("ind", "b", "e", "lhs", "rhs", "c", "a", "i", "init")

READERS = {
    "nni_list_empty", "nni_list_first", "nni_list_last", "nni_list_next", "nni_list_prev", "nni_list_active",
    "nni_list_node_active", "nni_aio_list_active", "nni_aio_result", "nni_aio_count", "nni_aio_get_msg",
    "nni_aio_get_input", "nni_aio_get_output", "nni_aio_get_prov_data", "nni_msg_len", "nni_msg_header_len",
    "nni_msg_body", "nni_msg_header", "nni_lmq_full", "nni_lmq_empty", "nni_lmq_len", "nni_lmq_cap",
    "nni_pipe_id", "nni_sock_id", "nni_id_get", "nni_aio_iov_count", "nni_atomic_get_bool", "nni_atomic_get",
    "nni_atomic_get64", "strlen", "nni_msg_get_pipe", "nni_pipe_is_closed", "nni_aio_get_timeout", "nni_msg_shared",
    "nni_pipe_sock", "nni_sock_proto_data", "nni_pipe_get_proto_data", "nni_msg_capacity", "nng_msg_len",
    "nng_msg_header_len", "nng_msg_body", "nng_msg_header", "nni_msg_header_peek_u32", "nni_msg_peek_u32",
    "nni_sock_proto_pipe_ops", "nni_sock_proto_id", "nni_sock_peer_id", "nni_pipe_peer", "nng_stream_peer_addr",
    "nni_aio_begin", "nni_posix_pfd_fd", "nni_chunk_room",
}
# calls that change nothing a reader could observe (logging, statistics, locking)
HARMLESS = {"nng_log_debug", "nng_log_info", "nng_log_warn", "nng_log_err", "nng_log_notice", "nni_stat_inc", "nni_stat_dec",
            "nni_stat_set_value", "nni_mtx_lock", "nni_mtx_unlock", "nni_pipe_bump_rx", "nni_pipe_bump_tx", "nni_pipe_bump_error",
            "nni_sock_bump_rx", "nni_sock_bump_tx", "nni_stat_set_id", "nni_stat_set_string"}


def children(n):
    out = []
    for k in CHILD_KEYS:
        v = n.get(k)
        if isinstance(v, dict):
            out.append(v)
    for a in n.get("args", []) or []:
        if isinstance(a, dict):
            out.append(a)
    if n.get("k") == "decls":
        for d in n["d"]:
            if isinstance(d.get("init"), dict):
                out.append(d["init"])
    if n.get("k") == "initarr":
        out += [a for a in n["elems"] if isinstance(a, dict)]
    if n.get("k") == "init":
        out += [v for v in n["fields"].values() if isinstance(v, dict)]
    if n.get("k") == "other":
        out += [c for c in n.get("ch", []) if isinstance(c, dict)]
    return out


def walk(n):
    yield n
    for c in children(n):
        yield from walk(c)


def rewrite(n, fn):
    """bottom-up in-place rewrite: fn(node) returns a replacement or None"""
    if not isinstance(n, dict):
        return n
    for k in CHILD_KEYS:
        v = n.get(k)
        if isinstance(v, dict):
            n[k] = rewrite(v, fn)
    if "args" in n and n["args"]:
        n["args"] = [rewrite(a, fn) if isinstance(a, dict) else a for a in n["args"]]
    if n.get("k") == "decls":
        for d in n["d"]:
            if isinstance(d.get("init"), dict):
                d["init"] = rewrite(d["init"], fn)
    if n.get("k") == "initarr":
        n["elems"] = [rewrite(a, fn) if isinstance(a, dict) else a for a in n["elems"]]
    if n.get("k") == "init":
        n["fields"] = {k: rewrite(v, fn) if isinstance(v, dict) else v for k, v in n["fields"].items()}
    if n.get("k") == "other" and n.get("ch"):
        n["ch"] = [rewrite(c, fn) if isinstance(c, dict) else c for c in n["ch"]]
    r = fn(n)
    return n if r is None else r


# ---------------------------------------------------------------------------
# inlining


def address_taken(facts):
    names = set()
    for f in facts["functions"]:
        for b in f.get("blocks", []):
            for e in b["elems"]:
                if e is None:
                    continue
                for n in walk(e):
                    if n.get("k") == "fnref":
                        names.add(n["n"])
    blob = json.dumps(facts.get("globals", []))
    import re
    for m in re.finditer(r'"k": "fnref", "n": "([^"]+)"|"n": "([^"]+)", "k": "fnref"', blob):
        names.add(m.group(1) or m.group(2))
    # any fnref object in globals regardless of key order
    for m in re.finditer(r'\{[^{}]*"fnref"[^{}]*\}', blob):
        mm = re.search(r'"n": "([^"]+)"', m.group(0))
        if mm:
            names.add(mm.group(1))
    return names


def eligible(g, caller, taken, stack):
    if g is None or g.get("cfg_failed") or g["file"] != caller["file"] or g["name"] in taken or g["name"] in stack or \
            g["name"] == caller["name"] or g.get("entry") is None:
        return False
    nb = len(g.get("blocks", []))
    # file-local helpers up to 60 blocks; tiny accessors of any linkage defined in the same file (nni_lmq_full ...)
    return 0 < nb <= (60 if g.get("static") else 8)


def inline_once(f, byname, taken, counter, stack=()):
    """inline every eligible direct call that is in f now (one level: calls inside the inlined bodies are left for the
    next level).  Returns True if something changed."""
    targets = []
    for blk in f["blocks"]:
        for e in blk["elems"]:
            if isinstance(e, dict) and e.get("k") == "call" and e.get("fn") and not e.get("_inlined"):
                g = byname.get((f["file"], e["fn"]))
                if eligible(g, f, taken, stack) and len(e["args"]) == len(g.get("params", [])):
                    targets.append(e)
    if len(targets) > 40:
        targets = targets[:40]
    changed = False
    for e in targets:
        loc = None
        for blk in f["blocks"]:
            for i, x in enumerate(blk["elems"]):
                if x is e:
                    loc = (blk, i)
                    break
            if loc:
                break
        if loc is None:
            continue
        blk, i = loc
        g = byname[(f["file"], e["fn"])]
        maxid = max(b["id"] for b in f["blocks"])
        counter[0] += 1
        tag = "@%s#%d" % (g["name"], counter[0])
        off = maxid + 1
        gb = copy.deepcopy(g["blocks"])
        void = g.get("ret", "void") == "void"
        retvar = {"k": "var", "n": "ret" + tag, "vk": "local", "t": g.get("ret", "int")}

        def ren(n, tag=tag, off=off, void=void, retvar=retvar):
            k = n.get("k")
            if k == "var" and n.get("vk") in ("local", "param"):
                n["n"] = n["n"] + tag
                n["vk"] = "local"
            elif k == "ref":
                n["b"] += off
            elif k == "decls":
                for d in n["d"]:
                    d["n"] = d["n"] + tag
            elif k == "ret":
                if n.get("e") is not None and not void:
                    return {"k": "asg", "op": "=", "lhs": dict(retvar), "rhs": n["e"], "l": n.get("l")}
                return {"k": "int", "cv": 0, "l": n.get("l"), "_ret": True}
            return None
        for b2 in gb:
            b2["id"] += off
            b2["succs"] = [None if s is None else s + off for s in b2["succs"]]
            b2["elems"] = [rewrite(x, ren) if isinstance(x, dict) else x for x in b2["elems"]]
            if b2.get("term") and isinstance(b2["term"].get("cond"), dict):
                b2["term"]["cond"] = rewrite(b2["term"]["cond"], ren)
        gentry, gexit = g["entry"] + off, g["exit"] + off
        newid = off + max(b["id"] for b in g["blocks"]) + 1
        tail = {"id": newid, "elems": [], "succs": blk["succs"], "inlined_from": blk["id"]}
        if "term" in blk:
            tail["term"] = blk.pop("term")
        if blk.get("noreturn"):
            tail["noreturn"] = blk.pop("noreturn")
        rest = blk["elems"][i:]
        rest[0] = dict(retvar, l=e.get("l")) if not void else {"k": "int", "cv": 0, "l": e.get("l"), "_inlined": g["name"]}
        tail["elems"] = rest
        binds = []
        for prm, a in zip(g["params"], e["args"]):
            binds.append({"k": "asg", "op": "=", "l": e.get("l"), "_bind": True,
                          "lhs": {"k": "var", "n": prm["n"] + tag, "vk": "local", "t": prm.get("t", "")}, "rhs": a})
        f.setdefault("_binds", []).extend(x["lhs"]["n"] for x in binds)
        marker = dict(e)
        marker["_inlined"] = True          # the call is still visible by name; its body follows
        blk["elems"] = blk["elems"][:i] + binds + [marker]
        blk["succs"] = [gentry]
        for b2 in gb:
            if b2["id"] == gexit:
                b2["succs"] = [newid]
        bid = blk["id"]

        def fix(n, bid=bid, i=i, newid=newid):
            if n.get("k") == "ref" and n["b"] == bid and n["i"] >= i:
                n["b"] = newid
                n["i"] = n["i"] - i
            return None
        for b3 in f["blocks"] + [tail]:
            b3["elems"] = [rewrite(x, fix) if isinstance(x, dict) else x for x in b3["elems"]]
            if b3.get("term") and isinstance(b3["term"].get("cond"), dict):
                b3["term"]["cond"] = rewrite(b3["term"]["cond"], fix)
        f["blocks"] += gb + [tail]
        f.setdefault("inlined", []).append(g["name"])
        changed = True
    return changed


# ---------------------------------------------------------------------------
# copy propagation


def _expand(f_blocks, n, depth=0):
    if n is None or depth > 30:
        return n
    if n.get("k") == "ref":
        return _expand(f_blocks, f_blocks[n["b"]]["elems"][n["i"]], depth + 1)
    return n


def _peephole(n):
    """*(&x) -> x  and  &(*x) -> x, which inlining an out-parameter produces"""
    if n.get("k") == "un" and n.get("op") in ("*", "&") and isinstance(n.get("e"), dict):
        e = n["e"]
        while e.get("k") == "cast":
            e = e["e"]
        if e.get("k") == "un" and e.get("op") in ("*", "&") and e["op"] != n["op"] and isinstance(e.get("e"), dict):
            return e["e"]
    return None


IMMUTABLE = {"nni_pipe_id", "nni_sock_id", "nni_pipe_sock", "nni_sock_proto_data", "nni_pipe_get_proto_data",
             "nni_sock_proto_pipe_ops", "nni_sock_proto_id", "nni_sock_peer_id", "nni_pipe_peer", "nni_posix_pfd_fd"}


def _expand_all(blocks, n, depth=0):
    """tree with refs replaced (copy only where needed)"""
    if not isinstance(n, dict) or depth > 25:
        return n
    if n.get("k") == "ref":
        return _expand_all(blocks, blocks[n["b"]]["elems"][n["i"]], depth + 1)
    out = None
    for k in CHILD_KEYS:
        v = n.get(k)
        if isinstance(v, dict):
            nv = _expand_all(blocks, v, depth + 1)
            if nv is not v:
                out = out or dict(n)
                out[k] = nv
    if n.get("args"):
        na = [_expand_all(blocks, a, depth + 1) if isinstance(a, dict) else a for a in n["args"]]
        if any(x is not y for x, y in zip(na, n["args"])):
            out = out or dict(n)
            out["args"] = na
    return out or n


def copyprop(f, only=None):
    blocks = {b["id"]: b for b in f["blocks"]}
    defs = {}       # var -> [(b, i, rhs node, asg node)]
    bad = set()     # address taken / ++ / compound
    params = {p["n"] for p in f.get("params", [])}
    for b in f["blocks"]:
        for i, e in enumerate(b["elems"]):
            if not isinstance(e, dict):
                continue
            for n in walk(e):
                k = n.get("k")
                if k == "asg" and n["lhs"].get("k") == "var":
                    if n.get("op") == "=":
                        defs.setdefault(n["lhs"]["n"], []).append((b["id"], i, n["rhs"], n))
                    else:
                        bad.add(n["lhs"]["n"])
                elif k == "un" and n.get("op") in ("++", "--", "&") and isinstance(n.get("e"), dict) and n["e"].get("k") == "var":
                    bad.add(n["e"]["n"])
                elif k == "decls":
                    for d in n["d"]:
                        if isinstance(d.get("init"), dict):
                            defs.setdefault(d["n"], []).append((b["id"], i, d["init"], None))
                        if d.get("t", "").endswith("]") or "[" in d.get("t", ""):
                            bad.add(d["n"])
    single = {v: ds[0] for v, ds in defs.items() if len(ds) == 1 and v not in bad and v not in params and
              (only is None or v in only)}
    stable = set(params) - set(defs) - bad   # parameters never reassigned
    if not single:
        return False

    def classify(n, depth=0):
        """None if not propagatable; else set of dependencies: {'mem:<field>', 'call'}"""
        n = _expand(blocks, n)
        if n is None or depth > 12:
            return None
        k = n.get("k")
        if k in ("int", "enum", "str", "sizeof", "fnref"):
            return set()
        if k == "var":
            if n.get("vk") == "global":
                return {"mem:@" + n["n"]}
            if n["n"] in stable:
                return set()
            if n["n"] in bad:
                return None
            if n["n"] in single:
                return set()      # assigned once: the name denotes the same value at every use after its definition
            if n["n"] in defs or n["n"] in params:
                return {"var:" + n["n"]}      # reassigned local: every assignment to it separates def and use
            return None
        if k == "cast":
            return classify(n["e"], depth + 1)
        if k == "mem":
            d = classify(n["b"], depth + 1)
            return None if d is None else d | {"mem:" + n["f"]}
        if k == "idx":
            a, b2 = classify(n["b"], depth + 1), classify(n["i"], depth + 1)
            return None if a is None or b2 is None else a | b2 | {"mem:[]"}
        if k == "un":
            if n.get("op") in ("++", "--"):
                return None
            if n.get("op") == "&":
                inner = _expand(blocks, n["e"])
                # address of a field: depends only on the base pointer
                if inner.get("k") == "mem":
                    return classify(inner["b"], depth + 1)
                if inner.get("k") == "var":
                    return set()
                return classify(inner, depth + 1)
            d = classify(n["e"], depth + 1)
            if d is None:
                return None
            return d | ({"mem:*"} if n.get("op") == "*" else set())
        if k == "bin":
            if n["op"] in (",",):
                return None
            a, b2 = classify(n["lhs"], depth + 1), classify(n["rhs"], depth + 1)
            return None if a is None or b2 is None else a | b2
        if k == "cond":
            parts = [classify(n[x], depth + 1) for x in ("c", "a", "b")]
            return None if any(p is None for p in parts) else set().union(*parts)
        if k == "call" and n.get("fn") in READERS:
            out = set() if n["fn"] in IMMUTABLE else {"call"}
            for a in n["args"]:
                d = classify(a, depth + 1)
                if d is None:
                    return None
                out |= d
            return out
        return None

    # kill positions
    stores = {}     # field -> set of positions
    calls = set()
    call_roots, call_fields, call_vals, opaque = {}, {}, {}, set()
    for b in f["blocks"]:
        for i, e in enumerate(b["elems"]):
            if not isinstance(e, dict):
                continue
            for n in walk(e):
                k = n.get("k")
                if k == "asg" or (k == "un" and n.get("op") in ("++", "--")):
                    t = n["lhs"] if k == "asg" else n["e"]
                    t = _expand(blocks, t)
                    while t is not None and t.get("k") in ("idx", "cast"):
                        if t.get("k") == "idx":
                            stores.setdefault("[]", set()).add((b["id"], i))
                        t = _expand(blocks, t["b"] if t.get("k") == "idx" else t["e"])
                    if t is not None and t.get("k") == "mem":
                        stores.setdefault(t["f"], set()).add((b["id"], i))
                    elif t is not None and t.get("k") == "un" and t.get("op") == "*":
                        stores.setdefault("*", set()).add((b["id"], i))
                    elif t is not None and t.get("k") == "var" and t.get("vk") == "global":
                        stores.setdefault("@" + t["n"], set()).add((b["id"], i))
                elif k == "call" and n.get("fn") not in READERS and n.get("fn") not in HARMLESS:
                    calls.add((b["id"], i))
                    # objects the callee can reach: arguments that are a bare pointer variable (x) -- &x->f hands over one field
                    for a in n["args"]:
                        a = _expand(blocks, a) if isinstance(a, dict) else None
                        while a is not None and a.get("k") == "cast":
                            a = _expand(blocks, a["e"])
                        if a is not None and a.get("k") == "var":
                            call_roots.setdefault(a["n"], set()).add((b["id"], i))
                        elif a is not None and a.get("k") == "un" and a.get("op") == "&":
                            t = _expand(blocks, a["e"])
                            if t is not None and t.get("k") == "mem":
                                call_fields.setdefault(t["f"], set()).add((b["id"], i))
                            elif t is not None and t.get("k") == "var":
                                call_roots.setdefault(t["n"], set()).add((b["id"], i))
                        elif a is not None and a.get("k") == "mem":
                            # x->f passed by value: the callee can reach what f points to, not x's fields
                            call_vals.setdefault(a["f"], set()).add((b["id"], i))
                    if n.get("ind") is not None or not n.get("fn"):
                        opaque.add((b["id"], i))

    def reach(start, blocked):
        seen = set()
        work = list(start) if isinstance(start, list) else [start]
        while work:
            b, i = work.pop()
            blk = blocks[b]
            while True:
                if (b, i) in seen:
                    break
                if i < len(blk["elems"]):
                    if (b, i) in blocked:
                        seen.add((b, i))   # the killing element itself is still evaluated with the old value
                        break
                    seen.add((b, i))
                    i += 1
                    continue
                seen.add((b, i))
                for s in blk["succs"]:
                    if s is not None:
                        work.append((s, 0))
                break
        return seen

    plans = {}
    for v, (db, di, rhs, asg) in single.items():
        dep = classify(rhs)
        if dep is None:
            continue
        kills = set()
        roots = {x["n"] for x in walk(_expand_all(blocks, rhs)) if x.get("k") == "var" and x.get("vk") != "global"}
        for d in dep:
            if d.startswith("var:"):
                kills |= {(x[0], x[1]) for x in defs.get(d[4:], [])}
            elif d == "call":
                # a reader of mutable state (message length, queue emptiness ...): any call that is handed one of the
                # objects the reader looks at may change the answer
                for rt in roots:
                    kills |= call_roots.get(rt, set())
                kills |= opaque
                for x in walk(_expand_all(blocks, rhs)):
                    if x.get("k") == "mem":
                        kills |= call_fields.get(x["f"], set()) | call_vals.get(x["f"], set())
            elif d.startswith("mem:"):
                fld = d[4:]
                kills |= stores.get(fld, set())
                kills |= call_fields.get(fld, set())     # &x->fld handed to a callee
                for rt in roots:
                    kills |= call_roots.get(rt, set())   # the whole object handed to a callee
                kills |= opaque
                if fld not in ("[]", "*"):
                    kills |= stores.get("*", set())
                if fld.startswith("@"):
                    kills |= calls
        kills.discard((db, di))
        safe = reach((db, di + 1), kills)
        # a kill position itself evaluates its operands before the store/call takes effect only for the call's arguments;
        # be conservative: uses inside a killing element are not rewritten
        safe -= kills
        # positions reachable after a kill are unsafe even if also reachable without it
        allr = reach((db, di + 1), set())
        starts = [(kp[0], kp[1] + 1) for kp in kills if kp in allr]
        unsafe = reach(starts, set()) if starts else set()
        plans[v] = (rhs, safe - unsafe, (db, di))
    if not plans:
        return False
    changed = [False]
    for b in f["blocks"]:
        for i, e in enumerate(b["elems"]):
            if not isinstance(e, dict):
                continue
            pos = (b["id"], i)

            def sub(n, pos=pos):
                if n.get("k") == "var" and n["n"] in plans:
                    rhs, safe, dpos = plans[n["n"]]
                    if pos in safe and pos != dpos:
                        changed[0] = True
                        r = copy.deepcopy(rhs)
                        if isinstance(r, dict) and "l" not in r and n.get("l"):
                            r["l"] = n["l"]
                        r["_from"] = n["n"]
                        return r
                return None
            # do not rewrite the left-hand side of the defining assignment
            def guard(n, pos=pos):
                return sub(n)
            new = rewrite(e, guard)
            new = rewrite(new, _peephole)
            b["elems"][i] = new
        if b.get("term") and isinstance(b["term"].get("cond"), dict) and b["term"]["cond"].get("k") != "ref":
            pos = (b["id"], len(b["elems"]))

            def sub2(n, pos=pos):
                if n.get("k") == "var" and n["n"] in plans:
                    rhs, safe, dpos = plans[n["n"]]
                    if pos in safe:
                        changed[0] = True
                        return copy.deepcopy(rhs)
                return None
            b["term"]["cond"] = rewrite(b["term"]["cond"], sub2)
    # assignments / ++ whose target became a non-lvalue must be restored: lhs of asg is never a plan var (single def excluded
    # above); `&v` and `v++` made v ineligible.  Nothing to do.
    return changed[0]


def normalize(facts, depth=1, do_inline=True, do_copyprop=True):
    """return a new facts dict (deep copy of the functions) in normal form"""
    out = {k: v for k, v in facts.items() if k != "functions"}
    funcs = json.loads(json.dumps(facts["functions"]))
    # strip analysis annotations a previous Program may have added
    def strip(n):
        n.pop("_id", None)
        return None
    for f in funcs:
        for b in f.get("blocks", []):
            b["elems"] = [rewrite(e, strip) if isinstance(e, dict) else e for e in b["elems"]]
    pristine = {(f["file"], f["name"]): json.loads(json.dumps(f)) for f in funcs}
    taken = address_taken(facts)
    counter = [0]
    n_inl = n_cp = 0
    for f in funcs:
        if f.get("cfg_failed") or not f.get("blocks"):
            continue
        if do_inline:
            for d in range(depth):
                # helpers are taken from the pristine copies so that inlining is by levels
                if not inline_once(f, pristine, taken, counter, stack=(f["name"],)):
                    break
                n_inl += 1
        try:
            if do_copyprop:
                if copyprop(f):
                    f["copyprop"] = True
                    n_cp += 1
            elif f.get("_binds"):
                # inlining proper: parameters of the inlined helpers stand for the arguments they were bound to
                copyprop(f, only=set(f["_binds"]))
        except (KeyError, IndexError, RecursionError):
            pass
    out["functions"] = funcs
    out["normalized"] = {"inlined_functions": n_inl, "copyprop_functions": n_cp, "depth": depth}
    return out
