"""T5 -- ownership typestate for nni_msg* values (DESIGN.md 2.4).

Per function path we track message *values* and *cells* (aio message slots,
nni_msg* struct fields).  A value is

    (n, cells, dead, kind)
       n      reference tokens held by the function's locals
       cells  frozenset of cells that hold a token of it
       dead   None, or how the last token was released ('freed', 'handed off',
              'queued', 'returned')
       kind   'L' ordinary | 'P' parameter (no leak obligation) | 'N' known
              NULL | 'E' escaped into an unknown callee (no longer tracked)

Violations: release with no token left (double free / double hand-off),
tokens left at an exit (leak), use after the last release, failing the
user's send aio after its message was consumed, a completion callback that
returns with the message its aio carried still sitting in that (non-owning)
aio, an owning field left pointing at a released message.
"""
from collections import defaultdict

from .core import walk, apath, show, const_of, is_null, last_field
from .pathsim import Sim, Client

MSG_TYPES = ("nni_msg *", "nng_msg *", "struct nng_msg *")

# callees that only look at / modify the content of a message
BORROW = {
    "nni_msg_len", "nni_msg_body", "nni_msg_header", "nni_msg_header_len", "nni_msg_get_pipe", "nni_msg_set_pipe",
    "nni_msg_trim", "nni_msg_chop", "nni_msg_trim_u32", "nni_msg_chop_u32", "nni_msg_header_trim",
    "nni_msg_header_chop", "nni_msg_header_trim_u32", "nni_msg_header_chop_u32", "nni_msg_header_append",
    "nni_msg_header_append_u32", "nni_msg_header_insert", "nni_msg_header_clear", "nni_msg_append", "nni_msg_insert",
    "nni_msg_clear", "nni_msg_capacity", "nni_msg_reserve", "nni_msg_realloc", "nni_msg_shared", "nni_msg_address",
    "nni_msg_set_address", "nni_msg_header_peek_u32", "nni_msg_header_poke_u32", "nni_msg_peek_u32",
    "nng_msg_len", "nng_msg_body", "nng_msg_header", "nng_msg_header_len", "nng_msg_get_pipe", "nng_msg_set_pipe",
    "nng_msg_header_clear", "nng_msg_header_append_u32", "nng_msg_trim_u32", "nng_msg_header_trim_u32",
    "memcpy", "memcmp", "sub0_matches", "nni_msg_dup", "nng_msg_dup", "nni_sock_bump_rx", "nni_sock_bump_tx",
    "nni_pipe_bump_rx", "nni_pipe_bump_tx", "nni_pipe_bump_error", "nni_stat_inc", "nni_msg_header_append_u16",
    "nni_aio_set_iov", "nni_msg_chop_u16", "nni_msg_trim_u16", "nni_msg_append_u32", "nni_msg_append_u16",
    "nni_msg_size_valid",
}
SEND_SUBMIT = {"nni_pipe_send": 1, "nni_msgq_aio_put": 1, "nni_sock_send": 1, "nni_ctx_send": 1}
RECV_SUBMIT = {"nni_pipe_recv": 1, "nni_msgq_aio_get": 1, "nni_sock_recv": 1, "nni_ctx_recv": 1}
# function -> (index of aio argument, index of result argument)
FINISH = {"nni_aio_finish": (0, 1), "nni_aio_finish_sync": (0, 1), "nni_aio_completions_add": (1, 2)}
PRODUCERS = ("nni_lmq_put", "nni_lmq_get", "nni_msgq_tryput", "nni_msg_alloc", "nng_msg_alloc", "nni_msg_dup",
             "nng_msg_dup")


class St:
    __slots__ = ("vals", "vars", "cells", "res", "taken")

    def __init__(self, vals=None, vars_=None, cells=None, res=None, taken=None):
        self.vals = vals or {}
        self.vars = vars_ or {}
        self.cells = cells or {}   # cell -> vid | 'EMPTY' | 'UNKNOWN' | ('CB', kind) | ('DANGLING', vid)
        self.res = res or {}       # call _id -> 'Z'|'NZ' assumed outcome; ('ret', id) -> vid; ('cb', cell) -> vid
        self.taken = taken or {}   # cell -> vid that was taken out of it by clearing

    def copy(self):
        return St(dict(self.vals), dict(self.vars), dict(self.cells), dict(self.res), dict(self.taken))

    def key(self):
        return (frozenset(self.vals.items()), frozenset(self.vars.items()), frozenset(self.cells.items()),
                frozenset(self.res.items()), frozenset(self.taken.items()))


class Report:
    def __init__(self):
        self.items = []
        self.seen = set()

    def add(self, kind, sim, msg, construct):
        k = (kind, construct)
        if k in self.seen:
            return
        self.seen.add(k)
        self.items.append((kind, sim.here(), msg, construct, sim.lines()))


def path_aliases(fn):
    """single-definition locals bound to a path (including &path)."""
    defs = defaultdict(list)
    for s in fn.sites():
        n = s.node
        if n.get("k") == "decls":
            for d in n["d"]:
                if d.get("init") is not None:
                    defs[d["n"]].append(fn.expand(d["init"]))
                else:
                    defs[d["n"]]
        elif n.get("k") == "asg" and n["lhs"].get("k") == "var":
            defs[n["lhs"]["n"]].append(fn.expand(n["rhs"]) if n.get("op") == "=" else None)
        elif n.get("k") == "un" and n.get("op") == "&" and n["e"].get("k") == "var":
            defs[n["e"]["n"]].append(None)
    params = {p["n"] for p in fn.params}
    out = {}
    for v, ds in defs.items():
        if v in params or len(ds) != 1 or ds[0] is None:
            continue
        e = ds[0]
        if e.get("k") == "un" and e.get("op") == "&" and e["e"].get("k") == "var":
            continue
        if e.get("k") not in ("var", "mem", "un"):
            continue
        if e.get("t") in MSG_TYPES:
            continue   # message values are tracked, not aliased
        p = apath(e)
        if p is not None and "[]" not in p:
            out[v] = p
    return out


class MsgClient(Client):
    def __init__(self, fn, prog, report, tested, summaries=None, entry_cells=None, user_aios=(), is_send_op=False,
                 owning_fields=(), is_fini=False, owning_uncond=()):
        self.fn = fn
        self.prog = prog
        self.rep = report
        self.tested = tested
        self.summ = summaries or {}
        self.entry_cells = entry_cells or {}   # cell -> (kind, text, field)
        self.user_aios = set(user_aios)
        self.is_send_op = is_send_op
        self.owning = set(owning_fields)       # 'rec.field' of cells that a fini/close releases
        self.owning_uncond = set(owning_uncond)  # ... on every path through that teardown function
        self.is_fini = is_fini
        self.origin = {}
        self.alias = path_aliases(fn)
        self.site_ids = {}
        self.cell_field = {}                   # cell -> 'rec.field'

    # -- naming ---------------------------------------------------------------
    def npath(self, e):
        p = apath(e)
        if p is None:
            return None
        for _ in range(4):
            if p[0] in self.alias:
                p = self.alias[p[0]] + p[1:]
            else:
                break
        return p

    def cell_of_aio(self, e):
        p = self.npath(e)
        if p is None:
            return None
        c = ("aio",) + p
        lf = last_field(e)
        if lf:
            self.cell_field[c] = lf
        return c

    def cell_of_field(self, e):
        if e is None or e.get("k") not in ("mem", "idx"):
            return None
        if e.get("t") not in MSG_TYPES:
            return None
        p = self.npath(e)
        if p is None or any(x.startswith("[") for x in p):
            return None     # ring slots are not cells (C18 owns the ring discipline)
        c = ("fld",) + p
        lf = last_field(e)
        if lf:
            self.cell_field[c] = lf
        return c

    # -- state helpers ----------------------------------------------------------
    def init(self, sim):
        st = St()
        for cell, ent in self.entry_cells.items():
            st.cells[cell] = ("CB", ent[0])
            self.cell_field[cell] = ent[2]
        for i, p in enumerate(self.fn.params):
            if p["t"] in MSG_TYPES:
                vid = i + 1
                st.vals[vid] = (1, frozenset(), None, "P")
                st.vars[p["n"]] = vid
                self.origin[vid] = "parameter %s" % p["n"]
        return st

    def key(self, st):
        return st.key()

    def new_val(self, st, status, what, sim, site=None):
        """Value ids are a function of the creating site, so loops converge;
        re-creating a value whose previous instance is still owned by locals
        is a leak of that instance."""
        key = (site if site is not None else sim.cur, what.split(" (")[0])
        vid = self.site_ids.get(key)
        if vid is None:
            vid = len(self.site_ids) + 100
            self.site_ids[key] = vid
        old = st.vals.get(vid)
        if old is not None and old[0] >= 1 and old[2] is None and old[3] == "L" and status[0] >= 1:
            self.rep.add("leak", sim, "message from an earlier iteration is still owned when a new one is obtained: %s"
                         % self.origin.get(vid, "?"), "leak of %s (loop)" % what.split(" (")[0])
        st.vals[vid] = status
        self.origin[vid] = "%s (line %s)" % (what, sim.here())
        return vid

    def val_of(self, st, e, sim):
        fn = self.fn
        e = fn.expand(e)
        if e is None:
            return None
        k = e.get("k")
        if k == "var":
            return st.vars.get(e["n"])
        if k == "call" and e.get("fn") in ("nni_aio_get_msg", "nng_aio_get_msg") and e["args"]:
            a = fn.expand(e["args"][0])
            return self.read_cell(st, self.cell_of_aio(a), sim, "message of " + show(a))
        if k == "call" and e.get("fn") in ("nni_msg_unique", "nni_msg_pull_up"):
            return st.res.get(("ret", e.get("_id")))
        if k in ("mem", "idx"):
            cell = self.cell_of_field(e)
            if cell is not None:
                return self.read_cell(st, cell, sim, "field " + show(e))
        if k == "asg" and e.get("op") == "=":
            return self.val_of(st, e["rhs"], sim)
        return None

    def read_cell(self, st, cell, sim, what):
        if cell is None:
            return None
        cur = st.cells.get(cell)
        if cur == "EMPTY":
            return None
        if isinstance(cur, int):
            return cur
        if isinstance(cur, tuple) and cur[0] in ("DANGLING", "STALE"):
            return cur[1]
        vid = self.new_val(st, (0, frozenset([cell]), None, "L"), what, sim, site=("cell", cell))
        st.cells[cell] = vid
        return vid

    def consume(self, st, vid, sim, how, site_desc):
        s = st.vals.get(vid)
        if s is None or s[3] in ("N", "E"):
            return
        n, cells, dead, kind = s
        if dead is not None:
            self.rep.add("double-release", sim,
                         "%s of a message that was already %s (origin: %s)" % (site_desc, dead, self.origin.get(vid, "?")),
                         "%s after %s" % (how, dead))
            return
        if n > 0:
            n -= 1
            st.vals[vid] = (n, cells, how if (n == 0 and not cells) else None, kind)
            return
        for c in cells:
            if st.cells.get(c) == vid:
                st.cells[c] = ("DANGLING", vid)
        st.vals[vid] = (0, frozenset(), how, kind)

    def use(self, st, vid, sim, desc):
        s = st.vals.get(vid)
        if s is not None and s[2] is not None and s[3] not in ("N", "E"):
            self.rep.add("use-after-release", sim,
                         "%s uses a message that was already %s (origin: %s)" % (desc, s[2], self.origin.get(vid, "?")),
                         "%s after %s" % (desc.split("(")[0], s[2]))

    def store_cell(self, st, cell, vid, sim, what):
        old = st.cells.get(cell)
        if vid is None:
            if isinstance(old, int):
                s = st.vals.get(old)
                if s is not None and s[2] is None and cell in s[1]:
                    n, cells, dead, kind = s
                    cells = cells - {cell}
                    if not cells and n == 0 and kind not in ("N", "E"):
                        n = 1
                    st.vals[old] = (n, cells, None, kind)
                st.taken[cell] = old
            elif isinstance(old, tuple) and old[0] in ("STALE", "DANGLING"):
                st.taken[cell] = old[1]
            st.cells[cell] = "EMPTY"
            return
        if isinstance(old, int) and old != vid:
            so = st.vals.get(old)
            if so is not None and so[2] is None and cell in so[1]:
                n, cells, dead, kind = so
                cells = cells - {cell}
                if not cells and n == 0 and kind not in ("N", "E"):
                    n = 1     # overwritten while nothing else owns it
                st.vals[old] = (n, cells, None, kind)
        s = st.vals.get(vid)
        if s is None or s[3] in ("N", "E"):
            st.cells[cell] = "UNKNOWN"
            return
        n, cells, dead, kind = s
        if dead is not None:
            self.rep.add("use-after-release", sim,
                         "%s stores a message that was already %s (origin: %s)" % (what, dead, self.origin.get(vid, "?")),
                         "store after %s" % dead)
            return
        if cell not in cells:
            if n > 0:
                n -= 1
            else:
                # no local token: the reference moves out of the cell(s) that held it;
                # they keep a stale pointer until they are cleared
                for c in cells:
                    if st.cells.get(c) == vid:
                        st.cells[c] = ("STALE", vid)
                cells = frozenset()
            st.vals[vid] = (n, cells | {cell}, None, kind)
        st.cells[cell] = vid

    def transfer_cell(self, st, cell, sim, how):
        cur = st.cells.get(cell)
        if isinstance(cur, int):
            s = st.vals.get(cur)
            if s is not None and s[3] not in ("N", "E"):
                n, cells, dead, kind = s
                if dead is not None:
                    self.rep.add("double-release", sim, "%s hands off a message that was already %s (origin: %s)"
                                 % (how, dead, self.origin.get(cur, "?")), "hand-off after %s" % dead)
                else:
                    cells = cells - {cell}
                    st.vals[cur] = (n, cells, "handed off" if (n == 0 and not cells) else None, kind)
        elif isinstance(cur, tuple) and cur[0] == "DANGLING" and not self.user_send_cell(cell):
            self.rep.add("double-release", sim, "%s hands off an aio whose message was already released" % how,
                         "hand-off of released message")
        st.cells[cell] = "EMPTY"

    def user_send_cell(self, cell):
        return self.is_send_op and cell is not None and len(cell) == 2 and cell[0] == "aio" and cell[1] in self.user_aios

    def drop_rooted(self, st, name):
        dead = [c for c in st.cells if len(c) > 1 and c[1] == name]
        if not dead:
            return st
        st = st.copy()
        for c in dead:
            cur = st.cells.pop(c)
            st.taken.pop(c, None)
            if isinstance(cur, int):
                s = st.vals.get(cur)
                if s is not None and c in s[1]:
                    st.vals[cur] = (s[0], s[1] - {c}, s[2], s[3])
        return st

    # -- transfer functions -------------------------------------------------------
    def bind(self, st, name, rhs, sim):
        if is_null(rhs):
            st.vars.pop(name, None)
            return
        vid = self.val_of(st, rhs, sim)
        if vid is None:
            st.vars.pop(name, None)
        else:
            st.vars[name] = vid

    def node(self, st, n, sim):
        k = n.get("k")
        fn = self.fn
        if k == "call":
            return self.call(st, n, sim)
        if k == "asg" and n.get("op") == "=":
            lhs = n["lhs"]
            rhs = fn.expand(n["rhs"])
            if lhs.get("k") == "var":
                if lhs.get("t") in MSG_TYPES:
                    st = st.copy()
                    self.bind(st, lhs["n"], rhs, sim)
                    return st
                return self.drop_rooted(st, lhs["n"])
            cell = self.cell_of_field(lhs)
            if cell is not None:
                st = st.copy()
                if is_null(rhs):
                    self.store_cell(st, cell, None, sim, "")
                else:
                    vid = self.val_of(st, rhs, sim)
                    if vid is not None:
                        self.store_cell(st, cell, vid, sim, "store to " + show(lhs))
                    else:
                        st.cells[cell] = "UNKNOWN"
                return st
            if rhs is not None and rhs.get("k") == "var" and rhs["n"] in st.vars:
                # *out = m / array slot = m: ownership leaves through memory we do not model
                st = st.copy()
                how = "returned" if (lhs.get("k") == "un" and lhs.get("op") == "*") else "queued"
                self.consume(st, st.vars[rhs["n"]], sim, how, "store to " + show(lhs))
                return st
            return st
        if k == "decls":
            out = st
            for d in n["d"]:
                if d["t"] in MSG_TYPES and d.get("init") is not None:
                    if out is st:
                        out = st.copy()
                    self.bind(out, d["n"], fn.expand(d["init"]), sim)
            return out
        if k == "ret" and n.get("e") is not None:
            e = fn.expand(n["e"])
            if e is not None and e.get("k") == "var" and e["n"] in st.vars:
                st = st.copy()
                self.consume(st, st.vars[e["n"]], sim, "returned", "return")
                return st
        return st

    def fork(self, n, ok, bad):
        if n.get("_id") in self.tested:
            ok.res[n["_id"]] = "Z"
            bad.res[n["_id"]] = "NZ"
            return [ok, bad]
        if n.get("fn") == "nni_msgq_tryput" and self._discarded(n):
            # a non-blocking put into a queue that may be full or closed, with the answer thrown away: both outcomes
            # are possible, and on the refused one the message is still the caller's
            return [ok, bad]
        return ok

    def _discarded(self, n):
        """the value of call n is not used by anything (a statement of its own, or under a (void) cast)"""
        fn = self.fn
        pos = None
        for b in fn.blocks.values():
            for i, e in enumerate(b.elems):
                if e is n or (e is not None and e.get("_id") == n.get("_id")):
                    pos = (b.id, i)
        if pos is None:
            return False
        for b in fn.blocks.values():
            for e in b.elems:
                if e is None:
                    continue
                for m in walk(e):
                    if m.get("k") == "ref" and (m["b"], m["i"]) == pos:
                        if e.get("k") == "un" and e.get("op") == "(void)":
                            continue
                        return False
            t = b.term
            if t and isinstance(t.get("cond"), dict):
                for m in walk(t["cond"]):
                    if m.get("k") == "ref" and (m["b"], m["i"]) == pos:
                        return False
        return True

    def call(self, st, n, sim):
        fn = self.fn
        f = n.get("fn")
        args = [fn.expand(a) if a is not None else None for a in n["args"]]

        if f in ("nni_msg_free", "nng_msg_free") and args:
            st = st.copy()
            vid = self.val_of(st, args[0], sim)
            if vid is not None:
                self.consume(st, vid, sim, "freed", "nni_msg_free")
            return st
        if f == "nni_msg_clone" and args:
            vid = self.val_of(st, args[0], sim)
            if vid is not None:
                st = st.copy()
                s = st.vals.get(vid)
                if s is not None and s[3] not in ("N", "E"):
                    if s[2] is not None:
                        self.use(st, vid, sim, "nni_msg_clone")
                    else:
                        # token counts saturate (a loop that clones without consuming converges
                        # and is reported as a leak at the exit)
                        st.vals[vid] = (min(s[0] + 1, 4), s[1], None, s[3])
            return st
        if f in ("nni_aio_set_msg", "nng_aio_set_msg") and len(args) >= 2:
            st = st.copy()
            cell = self.cell_of_aio(args[0])
            if cell is None:
                return st
            if is_null(args[1]):
                self.store_cell(st, cell, None, sim, "")
            else:
                vid = self.val_of(st, args[1], sim)
                if vid is not None:
                    self.store_cell(st, cell, vid, sim, "nni_aio_set_msg(%s)" % show(args[0]))
                else:
                    st.cells[cell] = "UNKNOWN"
            return st
        if f in ("nni_aio_get_msg", "nng_aio_get_msg"):
            return st
        if f == "nni_aio_finish_msg" and len(args) >= 2:
            st = st.copy()
            vid = self.val_of(st, args[1], sim)
            if vid is not None:
                self.consume(st, vid, sim, "handed off", "nni_aio_finish_msg")
            return st
        if f in FINISH and len(args) > FINISH[f][1]:
            ai, ri = FINISH[f]
            rv = const_of(args[ri])
            cell = self.cell_of_aio(args[ai])
            st = st.copy()
            if rv == 0:
                cur = st.cells.get(cell) if cell is not None else None
                if self.user_send_cell(cell):
                    # a successful send: the provider keeps the message and must dispose of it
                    if isinstance(cur, int):
                        sv = st.vals.get(cur)
                        if sv is not None and sv[2] is None and cell in sv[1] and sv[3] not in ("N", "E"):
                            cells = sv[1] - {cell}
                            st.vals[cur] = (sv[0] + (0 if cells else 1) if sv[0] == 0 else sv[0], cells, None, sv[3])
                    if cur is not None:
                        st.cells[cell] = "EMPTY"
                elif cell is not None and isinstance(cur, (int, tuple)):
                    self.transfer_cell(st, cell, sim, f)
            else:
                self.failed_user_aio(st, args[ai], cell, sim, f)
            return st
        if f == "nni_aio_finish_error" and args:
            st = st.copy()
            self.failed_user_aio(st, args[0], self.cell_of_aio(args[0]), sim, f)
            return st
        if f in SEND_SUBMIT and len(args) >= 2:
            st = st.copy()
            cell = self.cell_of_aio(args[1])
            if cell is not None:
                self.transfer_cell(st, cell, sim, f)
            return st
        if f in ("nni_lmq_put", "nni_msgq_tryput") and len(args) >= 2:
            vid = self.val_of(st, args[1], sim)
            if vid is None:
                return st
            ok = st.copy()
            self.consume(ok, vid, sim, "queued", f)
            return self.fork(n, ok, st.copy())
        if f == "nni_lmq_get" and len(args) >= 2:
            tgt = args[1]
            if tgt is not None and tgt.get("k") == "un" and tgt.get("op") == "&" and tgt["e"].get("k") == "var":
                name = tgt["e"]["n"]
                ok = st.copy()
                ok.vars[name] = self.new_val(ok, (1, frozenset(), None, "L"), "message from %s" % show(args[0]), sim)
                bad = st.copy()
                bad.vars.pop(name, None)
                return self.fork(n, ok, bad)
            return st
        if f in ("nni_msg_alloc", "nng_msg_alloc", "nni_msg_dup", "nng_msg_dup") and args:
            tgt = args[0]
            if tgt is not None and tgt.get("k") == "un" and tgt.get("op") == "&" and tgt["e"].get("k") == "var":
                name = tgt["e"]["n"]
                ok = st.copy()
                ok.vars[name] = self.new_val(ok, (1, frozenset(), None, "L"), f, sim)
                bad = st.copy()
                bad.vars.pop(name, None)
                return self.fork(n, ok, bad)
            if tgt is not None and tgt.get("k") == "un" and tgt.get("op") == "&":
                cell = self.cell_of_field(tgt["e"])
                if cell is not None:
                    ok = st.copy()
                    vid = self.new_val(ok, (1, frozenset(), None, "L"), f, sim)
                    self.store_cell(ok, cell, vid, sim, f)
                    return self.fork(n, ok, st.copy())
            return st
        if f in ("nni_msg_unique", "nni_msg_pull_up") and args:
            vid = self.val_of(st, args[0], sim)
            if vid is None:
                return st
            ok = st.copy()
            self.consume(ok, vid, sim, "handed off", f)
            ok.res[("ret", n["_id"])] = self.new_val(ok, (1, frozenset(), None, "L"), f, sim)
            bad = st.copy()
            if f == "nni_msg_unique":
                self.consume(bad, vid, sim, "freed", f)   # the original is released on failure
            bad.res[("ret", n["_id"])] = self.new_val(bad, (0, frozenset(), None, "N"), f + " failed", sim)
            return [ok, bad]
        # generic call
        out = st
        for i, a in enumerate(args):
            if a is None:
                continue
            vid = None
            if a.get("k") == "var" and a.get("t") in MSG_TYPES:
                vid = st.vars.get(a["n"])
            elif a.get("k") == "mem" and a.get("t") in MSG_TYPES:
                if out is st:
                    out = st.copy()
                vid = self.val_of(out, a, sim)
            if vid is None:
                continue
            if out is st:
                out = st.copy()
            self.use(out, vid, sim, "%s(...)" % (f or "indirect call"))
            if f in BORROW:
                continue
            eff = self.summ.get((f, i))
            if eff == "consume":
                self.consume(out, vid, sim, "handed off", f)
            elif eff == "borrow":
                continue
            else:
                s = out.vals.get(vid)
                if s is not None and s[2] is None:
                    out.vals[vid] = (0, s[1], None, "E")
        return out

    def failed_user_aio(self, st, aioexpr, cell, sim, f):
        if cell is not None and not f.startswith("a refused"):
            cur0 = st.cells.get(cell)
            if isinstance(cur0, tuple) and cur0[0] == "DANGLING":
                # any aio, not only the user's send aio: whoever is told that the operation failed finds the message still
                # on the aio and disposes of it (the failure prologue of every completion callback does)
                self.rep.add("fail-with-released-message", sim,
                             "%s completes %s with an error while the aio still carries a message this function has released: "
                             "the owner of the aio releases the message of a failed operation again" % (f, show(aioexpr)),
                             "failed with a released message")
                return
        if not self.is_send_op or cell is None:
            return
        p = apath(aioexpr)
        if not p or p[0] not in self.user_aios or len(p) != 1:
            return
        tid = st.taken.get(cell)
        cur = st.cells.get(cell)
        if cur == "EMPTY" and tid is not None:
            s = st.vals.get(tid)
            if s is not None and s[2] is not None and s[3] not in ("N", "E"):
                self.rep.add("fail-after-consume", sim,
                             "%s fails the user's send aio after its message was taken off the aio and %s: the caller "
                             "still believes it owns that message" % (f, s[2]), "fail after %s" % s[2])
        elif isinstance(cur, tuple) and cur[0] in ("DANGLING", "STALE"):
            self.rep.add("fail-after-consume", sim,
                         "%s fails the user's send aio whose message was already %s" % (f, "released" if cur[0] == "DANGLING" else "moved to another owner"),
                         "fail after %s" % ("free" if cur[0] == "DANGLING" else "move"))

    def branch(self, st, subj, val, sim):
        k = subj.get("k")
        fn = self.fn
        if k == "call":
            cid = subj.get("_id")
            f = subj.get("fn")
            if cid in st.res:
                truth = None
                if val[0] == "Z" or (val[0] == "EQ" and val[1] == 0):
                    truth = "Z"
                elif val[0] == "NZ" or val[0] == "EQ" or (val[0] == "NE" and val[1] == 0):
                    truth = "NZ"
                if truth is not None:
                    if truth != st.res[cid]:
                        return None
                    st = st.copy()
                    del st.res[cid]
            if f == "nni_aio_start" and val[0] == "Z" and subj["args"]:
                a = fn.expand(subj["args"][0])
                self.failed_user_aio(st, a, self.cell_of_aio(a), sim, "a refused nni_aio_start")
            if f == "nni_aio_result" and subj["args"] and val[0] in ("Z", "NZ"):
                cell = self.cell_of_aio(fn.expand(subj["args"][0]))
                cur = st.cells.get(cell)
                ok = val[0] == "Z"
                if cell in self.entry_cells:
                    kind = self.entry_cells[cell][0]
                    has = (kind == "send" and not ok) or (kind == "recv" and ok)
                    if isinstance(cur, tuple) and cur[0] == "CB":
                        st = st.copy()
                        if has:
                            vid = self.new_val(st, (0, frozenset([cell]), None, "L"),
                                               "message carried by %s (%s path)" % (show(fn.expand(subj["args"][0])),
                                                                                   "error" if kind == "send" else "success"),
                                               sim, site=("cell", cell))
                            st.cells[cell] = vid
                            st.res[("cb", cell)] = vid
                        else:
                            st.cells[cell] = "EMPTY"
                        return st
                    if isinstance(cur, int):
                        st = st.copy()
                        if has:
                            st.res[("cb", cell)] = cur
                        else:
                            st.vals[cur] = (0, frozenset(), None, "N")
                            st.cells[cell] = "EMPTY"
                        return st
            if f in ("nni_msg_unique", "nni_msg_pull_up"):
                r = st.res.get(("ret", cid))
                if r is not None:
                    isnull = st.vals.get(r, (0, 0, 0, "?"))[3] == "N"
                    if val[0] == "Z" and not isnull:
                        return None
                    if val[0] == "NZ" and isnull:
                        return None
            return st
        if k == "var" and (subj.get("t") in MSG_TYPES or subj["n"] in st.vars):
            vid = st.vars.get(subj["n"])
            if vid is not None:
                s = st.vals.get(vid)
                if s is not None:
                    if s[3] == "N" and val[0] == "NZ":
                        return None
                    if val[0] == "Z" and s[3] != "N":
                        if s[0] >= 1 and s[3] == "L":
                            return None     # a message we own is not NULL
                        st = st.copy()
                        for c in s[1]:
                            if st.cells.get(c) == vid:
                                st.cells[c] = "EMPTY"
                        st.vals[vid] = (0, frozenset(), None, "N")
                        return st
            return st
        if k in ("mem", "idx") and subj.get("t") in MSG_TYPES:
            cell = self.cell_of_field(subj)
            if cell is None:
                return st
            cur = st.cells.get(cell)
            if val[0] == "Z":
                if isinstance(cur, int):
                    s = st.vals.get(cur)
                    if s is not None and s[0] == 0:
                        st = st.copy()
                        st.vals[cur] = (0, frozenset(), None, "N")
                        st.cells[cell] = "EMPTY"
                        return st
                    return None
                if cur is None or cur == "UNKNOWN":
                    st = st.copy()
                    st.cells[cell] = "EMPTY"
                    return st
            elif val[0] == "NZ" and cur == "EMPTY":
                return None
            return st
        return st

    def equal(self, st, lhs, rhs, sim):
        l, r = self.fn.expand(lhs), self.fn.expand(rhs)
        if l is None or r is None or l.get("k") != "var" or r.get("k") != "var":
            return None
        if l.get("t") not in MSG_TYPES or r.get("t") not in MSG_TYPES:
            return None
        a, b = st.vars.get(l["n"]), st.vars.get(r["n"])
        if a is None and b is None:
            return None
        if a is None or b is None:
            # an untracked local cannot alias a tracked message: every assignment
            # between message variables binds both names
            return False
        return a == b

    def at_exit(self, st, sim, via):
        for vid, s in st.vals.items():
            n, cells, dead, kind = s
            if kind == "L" and dead is None and n >= 1:
                self.rep.add("leak", sim, "message still owned at the function's exit: %s (%d reference%s neither released, "
                             "handed off nor stored)" % (self.origin.get(vid, "?"), n, "" if n == 1 else "s"),
                             "leak of %s" % self.origin.get(vid, "?").split(" (line")[0])
        for key, vid in st.res.items():
            if isinstance(key, tuple) and key[0] == "cb":
                cell = key[1]
                s = st.vals.get(vid)
                if s is None or s[2] is not None or s[3] in ("N", "E"):
                    continue
                if cell in s[1] and st.cells.get(cell) == vid and self.cell_field.get(cell) not in self.owning:
                    self.rep.add("undisposed", sim, "completion callback returns with the %s still attached to that aio; "
                                 "no fini/close path releases a message left there" % self.origin.get(vid, "?"),
                                 "undisposed %s" % self.origin.get(vid, "?").split(" (line")[0])
        if self.is_fini:
            return
        for cell, cur in st.cells.items():
            if isinstance(cur, tuple) and cur[0] == "DANGLING" and self.cell_field.get(cell) in self.owning_uncond:
                self.rep.add("dangling", sim, "%s still points at a message that was released on this path, and a "
                             "fini/close path releases it again" % "->".join(cell[1:]), "dangling %s" % cell[-1])


def tested_calls(fn):
    out = set()
    for s in fn.calls(PRODUCERS):
        if fn.value_edges(s):
            out.add(s.node["_id"])
    return out


TOUCH = ("nni_msg_free", "nni_aio_set_msg", "nni_aio_get_msg", "nni_lmq_put", "nni_lmq_get", "nni_msg_alloc",
         "nni_msg_clone", "nni_msg_dup", "nni_aio_finish_msg", "nni_msgq_tryput", "nni_msg_unique", "nni_msg_pull_up",
         "nng_msg_free", "nng_msg_alloc", "nng_aio_get_msg", "nng_aio_set_msg", "nng_msg_dup")


def touches_msgs(fn):
    for s in fn.sites():
        n = s.node
        if n.get("k") == "call" and n.get("fn") in TOUCH:
            return True
        if n.get("k") in ("var", "mem") and n.get("t") in MSG_TYPES:
            return True
    return False


def analyse(fn, prog, summaries=None, entry_cells=None, user_aios=(), is_send_op=False, once=None, owning=(),
            is_fini=False, owning_uncond=()):
    rep = Report()
    cl = MsgClient(fn, prog, rep, tested_calls(fn), summaries, entry_cells, user_aios, is_send_op, owning, is_fini,
                   owning_uncond)
    sim = Sim(fn, cl, max_states=40000, once=once)
    sim.run()
    return rep, sim


def param_summary(fn, prog, summaries):
    """For every nni_msg* parameter: 'consume' if every path releases or
    hands off the parameter, 'borrow' if none does, else nothing."""
    out = {}
    for i, p in enumerate(fn.params):
        if p["t"] not in MSG_TYPES:
            continue
        exits = set()

        class Probe(MsgClient):
            def at_exit(s2, st, sim, via):
                s = st.vals.get(i + 1)
                if s is None:
                    exits.add("?")
                elif s[3] == "N":
                    exits.add("null")
                elif s[3] == "E":
                    exits.add("?")
                elif s[2] is not None or (s[0] == 0 and s[1]):
                    exits.add("consumed")
                else:
                    exits.add("kept")

        cl = Probe(fn, prog, Report(), tested_calls(fn), summaries)
        Sim(fn, cl, max_states=20000).run()
        ex = exits - {"null"}
        if ex == {"consumed"}:
            out[(fn.name, i)] = "consume"
        elif ex == {"kept"}:
            out[(fn.name, i)] = "borrow"
    return out
