"""Small vocabulary for guard-dominance (T1), must-pass-through (T2) and
ordering (T3) rules over one function."""
from .core import walk, show, const_of, last_field, truth_of, apath, is_null, AnalysisBroken, same_expr


def calls(fn, name, arg0_contains=None, argn=None):
    out = []
    for s in fn.calls(name):
        if arg0_contains is not None:
            if not s.node["args"] or arg0_contains not in show(fn.expand(s.node["args"][0])):
                continue
        out.append(s)
    return out


def positions(sites):
    return {(s.b, s.i) for s in sites}


def stores(fn, field_suffix, value=None):
    """assignments whose lhs is a member with 'rec.field' ending in field_suffix
    (value: None = any, 'null' = 0/NULL/false, 'nonnull')."""
    out = []
    for s in fn.assigns():
        lhs = s.node["lhs"]
        if lhs.get("k") != "mem":
            continue
        lf = last_field(lhs) or ""
        if not (lf == field_suffix or lf.endswith("." + field_suffix)):
            continue
        rhs = fn.expand(s.node["rhs"])
        while rhs is not None and rhs.get("k") == "asg":
            rhs = fn.expand(rhs["rhs"])
        z = rhs is not None and const_of(rhs) == 0 and rhs.get("k") in ("int", "enum")
        if value == "null" and not z:
            continue
        if value == "nonnull" and z:
            continue
        out.append(s)
    return out


def cond_edges(fn, match, want_nonzero=True):
    """{block: succ index} for branch blocks whose condition tests a
    sub-expression selected by match(node): the edge on which that
    sub-expression is non-zero (want_nonzero) or zero."""
    out = {}
    for b in fn.blocks.values():
        if not b.term or len(b.succs) != 2:
            continue
        c = fn.cond(b.id)
        if c is None:
            continue
        t = truth_of(c, match)
        if t:
            nz = 0 if t > 0 else 1
            out[b.id] = nz if want_nonzero else 1 - nz
    return out


def cmp_edges(fn, lhs_match, ops_true, rhs_match=None):
    """{block: succ index} for conditions `L op R` where lhs_match(L) and op in
    ops_true: the true edge; for the negated operators the false edge.
    ops_true maps operator -> edge index on which the *desired relation* holds,
    e.g. {'<': 0, '>=': 1} for 'L < R holds'.  Operands may be swapped by the caller."""
    out = {}
    for b in fn.blocks.values():
        if not b.term or len(b.succs) != 2:
            continue
        c = fn.cond(b.id)
        neg = 0
        while c is not None and c.get("k") == "un" and c.get("op") == "!":
            c = c["e"]
            neg ^= 1
        if c is None or c.get("k") != "bin" or c.get("op") not in ops_true:
            continue
        if not lhs_match(c["lhs"]):
            continue
        if rhs_match is not None and not rhs_match(c["rhs"]):
            continue
        out[b.id] = ops_true[c["op"]] ^ neg
    return out


def dominated(fn, pos, cut):
    """pos unreachable from entry once the edges in cut ({block: idx}) are removed."""
    return fn.dominated_by(pos, edge_ok=lambda b, k: not (b in cut and k == cut[b]))


def must_pass(fn, start, via, cut=None, stop=None):
    """every path from start to the function exit (or a position in `stop`)
    passes a position in `via` (cut edges are not followed).  Returns the
    offending (b,i) reached, or None."""
    cut = cut or {}
    seen = fn.reach(start, blocked=lambda b, i, e: (b, i) in via,
                    edge_ok=lambda b, k: not (b in cut and k == cut[b]))
    if stop:
        for p in stop:
            if p in seen:
                return p
        return None
    if (fn.exit, 0) in seen:
        return (fn.exit, 0)
    return None


def reaches(fn, start, targets, blocked=None, cut=None):
    cut = cut or {}
    blocked = blocked or set()
    seen = fn.reach(start, blocked=lambda b, i, e: (b, i) in blocked,
                    edge_ok=lambda b, k: not (b in cut and k == cut[b]))
    for t in targets:
        if t in seen:
            return t
    return None


def path_lines(fn, start, goal, cut=None, blocked=None):
    cut = cut or {}
    blocked = blocked or set()
    p = fn.find_path(start, lambda b, i: (b, i) == goal, blocked=lambda b, i, e: (b, i) in blocked,
                     edge_ok=lambda b, k: not (b in cut and k == cut[b]))
    return fn.path_lines(p)


def mentions(n, text):
    return text in show(n)


def field_is(n, suffix):
    lf = last_field(n) if n is not None and n.get("k") in ("mem", "un", "idx") else None
    return bool(lf) and (lf == suffix or lf.endswith("." + suffix))


def need_sites(sites, what, fn):
    if not sites:
        raise AnalysisBroken("anchor vanished: %s in %s" % (what, fn.name))
    return sites


def var_defs(fn, name):
    """assignment / initialiser sites of local `name`: [(site-pos, rhs-expanded)]"""
    out = []
    for s in fn.sites():
        n = s.node
        if n.get("k") == "asg" and n.get("op") == "=" and n["lhs"].get("k") == "var" and n["lhs"]["n"] == name:
            out.append(((s.b, s.i), fn.expand(n["rhs"])))
        elif n.get("k") == "decls":
            for d in n["d"]:
                if d["n"] == name and d.get("init") is not None:
                    out.append(((s.b, s.i), fn.expand(d["init"])))
        elif n.get("k") == "un" and n.get("op") in ("++", "--") and n["e"].get("k") == "var" and n["e"]["n"] == name:
            out.append(((s.b, s.i), None))        # a definition whose value is not an expression of the program
        elif n.get("k") == "asg" and n.get("op") != "=" and n["lhs"].get("k") == "var" and n["lhs"]["n"] == name:
            out.append(((s.b, s.i), None))        # compound assignment
    # assignments nested in conditions ((aio = f()) == NULL) are their own sub-nodes of a site
    for b in fn.blocks.values():
        for i, e in enumerate(b.elems):
            for n in walk(fn.expand(e)):
                if n.get("k") == "asg" and n.get("op") == "=" and n["lhs"].get("k") == "var" and n["lhs"]["n"] == name:
                    if not any(p == (b.id, i) for p, _ in out):
                        out.append(((b.id, i), fn.expand(n["rhs"])))
    return out


def reaching_defs(fn, name, pos):
    """definitions of local `name` that can reach position pos without an intervening definition"""
    defs = var_defs(fn, name)
    dpos = {p for p, _ in defs}
    out = []
    for p, rhs in defs:
        seen = fn.reach((p[0], p[1] + 1), blocked=lambda b, i, e: (b, i) in dpos and (b, i) != pos)
        if pos in seen:
            out.append((p, rhs))
    return out


def resolve(fn, e, pos, depth=0):
    """value of e at pos with locals replaced by their unique reaching definition (casts dropped)"""
    e = fn.expand(e)
    while e is not None and e.get("k") == "cast":
        e = fn.expand(e["e"])
    if e is None or depth > 4:
        return e
    k = e.get("k")
    if k == "var":
        rd = reaching_defs(fn, e["n"], pos)
        if len(rd) == 1 and rd[0][1] is not None and rd[0][0] != pos:
            return resolve(fn, rd[0][1], rd[0][0], depth + 1)
        return e
    if k == "bin":
        return dict(e, lhs=resolve(fn, e["lhs"], pos, depth + 1), rhs=resolve(fn, e["rhs"], pos, depth + 1))
    if k == "un" and e.get("op") == "!":
        return dict(e, e=resolve(fn, e["e"], pos, depth + 1))
    if k == "asg" and e.get("op") == "=":
        return resolve(fn, e["rhs"], pos, depth + 1)
    return e


def nz_edges(fn, match):
    """{block: succ index on which the matched sub-expression is non-zero}.  Knows X, !X, X != 0, X == 0, X > 0
    (unsigned), 0 < X, X >= 1."""
    out = {}
    for b in fn.blocks.values():
        if not b.term or len(b.succs) != 2:
            continue
        c = fn.cond(b.id)
        if c is None:
            continue
        t = truth_of(c, match)
        if t:
            out[b.id] = 0 if t > 0 else 1
            continue
        c = resolve(fn, c, (b.id, len(b.elems)))
        t = truth_of(c, match)
        if t:
            out[b.id] = 0 if t > 0 else 1
            continue
        neg = 0
        while c is not None and c.get("k") == "un" and c.get("op") == "!":
            c = c["e"]
            neg ^= 1
        if c is None or c.get("k") != "bin":
            continue
        op, l, r = c["op"], c["lhs"], c["rhs"]
        if match(l) and ((op == ">" and const_of(r) == 0) or (op == ">=" and const_of(r) == 1)):
            out[b.id] = 0 ^ neg
        elif match(r) and ((op == "<" and const_of(l) == 0) or (op == "<=" and const_of(l) == 1)):
            out[b.id] = 0 ^ neg
        elif match(l) and ((op == "<=" and const_of(r) == 0) or (op == "<" and const_of(r) == 1)):
            out[b.id] = 1 ^ neg
    return out


_FLIP = {">": "<", "<": ">", ">=": "<=", "<=": ">=", "==": "==", "!=": "!="}
_NEG = {">": "<=", "<=": ">", "<": ">=", ">=": "<", "==": "!=", "!=": "=="}


def rel_edges(fn, lm, rm, rel):
    """{block: succ index on which `L rel R` holds} for branch conditions that compare an expression selected by lm with one
    selected by rm, in any equivalent spelling: operands swapped, condition negated, operands held in single-assignment
    temporaries"""
    out = {}
    for b in fn.blocks.values():
        if not b.term or len(b.succs) != 2:
            continue
        c = fn.cond(b.id)
        if c is None:
            continue
        c = resolve(fn, c, (b.id, len(b.elems)))
        neg = 0
        while c is not None and c.get("k") == "un" and c.get("op") == "!":
            c = c["e"]
            neg ^= 1
        if c is None or c.get("k") != "bin" or c.get("op") not in _FLIP:
            continue
        op = c["op"]
        if lm(c["lhs"]) and rm(c["rhs"]):
            pass
        elif lm(c["rhs"]) and rm(c["lhs"]):
            op = _FLIP[op]
        else:
            continue
        if op == rel:
            out[b.id] = 0 ^ neg
        elif op == _NEG[rel]:
            out[b.id] = 1 ^ neg
    return out



def value_known_edges(fn, var, names=(), values=()):
    """edges (block, succ index) on which the local `var` is known to equal one of the given enumerators / integers:
    true edges of `var == K`, false edges of `var != K` (also with the assignment inside the condition), and the edges
    from a switch over `var` to its `case K:` blocks.  The same facts whether the code is a switch or an if-chain."""
    names, values = set(names), set(values)

    def is_k(n):
        if n is None:
            return False
        if n.get("k") == "enum" and (n.get("n") in names or n.get("cv") in values):
            return True
        return n.get("k") == "int" and const_of(n) in values

    def is_v(n):
        while n is not None and n.get("k") == "asg" and n.get("op") == "=":
            n = n["lhs"]
        return n is not None and n.get("k") == "var" and n["n"] == var
    out = set()
    for b in fn.blocks.values():
        if not b.term:
            continue
        c = fn.cond(b.id)
        if c is None:
            continue
        if len(b.succs) == 2 and b.term.get("kind") != "SwitchStmt":
            neg = 0
            while c.get("k") == "un" and c.get("op") == "!":
                c, neg = c["e"], neg ^ 1
            if c.get("k") == "bin" and c["op"] in ("==", "!="):
                l, r_ = c["lhs"], c["rhs"]
                if (is_v(l) and is_k(r_)) or (is_v(r_) and is_k(l)):
                    k = 0 if c["op"] == "==" else 1
                    out.add((b.id, k ^ neg))
            elif is_v(c) and 0 in values:
                out.add((b.id, 1 ^ neg))      # `if (rv)` : the false edge has rv == 0
        if is_v(c) or b.term.get("kind") == "SwitchStmt":
            if not is_v(c):
                continue
            for k, s in enumerate(b.succs):
                if s is None:
                    continue
                lb = fn.blocks[s].label
                if lb and lb.get("kind") == "case":
                    v = lb.get("v") or {}
                    if is_k(v) or (lb.get("cv") in values):
                        out.add((b.id, k))
    return out



def flag_vars(fn):
    """locals that only ever receive integer/boolean constants and whose address is never taken: their value along a
    path is known after the first assignment"""
    cand, bad = {}, set()
    for s in fn.sites():
        n = s.node
        if n.get("k") == "asg" and n["lhs"].get("k") == "var":
            v = n["lhs"]["n"]
            c = const_of(fn.expand(n["rhs"])) if n.get("op") == "=" else None
            if c is None:
                bad.add(v)
            else:
                cand.setdefault(v, set()).add(c)
        elif n.get("k") == "un" and n.get("op") in ("&", "++", "--") and n["e"].get("k") == "var":
            bad.add(n["e"]["n"])
        elif n.get("k") == "decls":
            for d in n["d"]:
                if d.get("init") is not None:
                    c = const_of(fn.expand(d["init"]))
                    if c is None:
                        bad.add(d["n"])
                    else:
                        cand.setdefault(d["n"], set()).add(c)
    params = {p["n"] for p in fn.params}
    return {v for v in cand if v not in bad and v not in params}


def reach_flags(fn, start, blocked=None, edge_ok=None):
    """forward reachability like Function.reach, but paths that contradict the value a constant-only local flag was
    given earlier on the same path are not followed (rearm = true; ... if (rearm) ...)"""
    from collections import deque
    flags = flag_vars(fn)
    if not flags:
        return fn.reach(start, blocked=blocked, edge_ok=edge_ok)
    seen = set()
    out = set()
    work = deque([(start[0], start[1], frozenset())])

    def upd(env, e):
        env = dict(env)
        for n in walk(fn.expand(e)):
            if n.get("k") == "asg" and n.get("op") == "=" and n["lhs"].get("k") == "var" and n["lhs"]["n"] in flags:
                env[n["lhs"]["n"]] = const_of(fn.expand(n["rhs"]))
            elif n.get("k") == "decls":
                for d in n["d"]:
                    if d["n"] in flags and d.get("init") is not None:
                        env[d["n"]] = const_of(fn.expand(d["init"]))
        return frozenset(env.items())

    def edge_consistent(b, k, env):
        c = fn.cond(b)
        if c is None or len(fn.blocks[b].succs) != 2:
            return True
        env = dict(env)
        neg = 0
        while c.get("k") == "un" and c.get("op") == "!":
            c, neg = c["e"], neg ^ 1
        val = None
        if c.get("k") == "var" and c["n"] in env:
            val = bool(env[c["n"]])
        elif c.get("k") == "bin" and c["op"] in ("==", "!=") and c["lhs"].get("k") == "var" and c["lhs"]["n"] in env and \
                const_of(c["rhs"]) is not None:
            val = (env[c["lhs"]["n"]] == const_of(c["rhs"])) == (c["op"] == "==")
        if val is None:
            return True
        if neg:
            val = not val
        return (k == 0) == val
    while work:
        b, i, env = work.popleft()
        blk = fn.blocks[b]
        while True:
            if (b, i, env) in seen:
                break
            seen.add((b, i, env))
            if i < len(blk.elems):
                if blocked and blocked(b, i, blk.elems[i]):
                    break
                out.add((b, i))
                if blk.elems[i] is not None:
                    env = upd(env, blk.elems[i])
                i += 1
                continue
            out.add((b, i))
            for k, s in enumerate(blk.succs):
                if s is None or (edge_ok and not edge_ok(b, k)) or not edge_consistent(b, k, env):
                    continue
                work.append((s, 0, env))
            break
    return out



def implied_atoms(c, truth=True, depth=0):
    """atomic sub-conditions whose truth value is fixed when the boolean formula c has the given truth value:
    [(atom, bool)].  !X flips, X && Y (true) and X || Y (false) distribute; anything else is an atom."""
    if c is None or depth > 40:
        return []
    k = c.get("k")
    if k == "un" and c.get("op") == "!":
        return implied_atoms(c["e"], not truth, depth + 1)
    if k == "bin" and ((c["op"] == "&&" and truth) or (c["op"] == "||" and not truth)):
        return implied_atoms(c["lhs"], truth, depth + 1) + implied_atoms(c["rhs"], truth, depth + 1)
    if k == "bin" and c["op"] in ("&&", "||"):
        return []
    if k == "asg" and c.get("op") == "=":
        return implied_atoms(c["rhs"], truth, depth + 1)
    if k == "cast":
        return implied_atoms(c["e"], truth, depth + 1)
    return [(c, truth)]


def edge_facts(fn):
    """[(block, succ index, atom, bool)] for every two-way branch: what each edge establishes"""
    out = []
    for b in fn.blocks.values():
        if not b.term or len(b.succs) != 2:
            continue
        c = fn.cond(b.id)
        if c is None:
            continue
        # a loop / if whose condition is `a && b` (or `a || b`) ends in a block that is also reached from the short-circuit
        # edge of `a`; the CFG gives that block only the last operand as its condition.  The whole expression is the
        # block's last element: its truth value is what the two edges mean.
        if b.elems:
            full = fn.expand(b.elems[-1])
            if full is not None and full.get("k") == "bin" and full.get("op") in ("&&", "||") and (
                    full["rhs"] is c or show(fn.expand(full["rhs"])) == show(c)):
                c = full
        c = resolve(fn, c, (b.id, len(b.elems)))
        for k in (0, 1):
            for atom, val in implied_atoms(c, k == 0):
                out.append((b.id, k, atom, val))
    return out



def predicate_calls(fn, prog):
    """branches of fn on the result of a boolean helper defined in the same file:
    [(block, edge index on which the helper returned true, helper Function, call node)]"""
    out = []
    for b in fn.blocks.values():
        if not b.term or len(b.succs) != 2:
            continue
        c = fn.cond(b.id)
        if c is None:
            continue
        c = resolve(fn, c, (b.id, len(b.elems)))
        neg = 0
        while c is not None and c.get("k") == "un" and c.get("op") == "!":
            c, neg = c["e"], neg ^ 1
        if c is None or c.get("k") != "call" or not c.get("fn"):
            continue
        h = prog.resolve(fn, c["fn"])
        if h is None or h.cfg_failed or h.file != fn.file or h.ret not in ("bool", "_Bool", "int"):
            continue
        out.append((b.id, 0 ^ neg, h, c))
    return out


def returned_atoms(h):
    """what holds when the boolean helper h returns true: [(atom, bool)] collected from `return <formula>` sites (a
    `return true` contributes nothing, a comparison contributes itself)"""
    out = []
    for s in h.sites():
        if s.node.get("k") == "ret" and s.node.get("e") is not None:
            e = resolve(h, s.node["e"], (s.b, s.i))
            if const_of(e) is not None:
                continue
            out += implied_atoms(e, True)
    return out
