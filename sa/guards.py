"""Small vocabulary for guard-dominance (T1), must-pass-through (T2) and
ordering (T3) rules over one function."""
from .core import walk, show, const_of, last_field, truth_of, apath, is_null, AnalysisBroken


def calls(fn, name, arg0_contains=None, argn=None):
    out = []
    for s in fn.calls(name):
        if arg0_contains is not None:
            if not s.node["args"] or arg0_contains not in show(fn.expand(s.node["args"][0])):
                continue
        out.append(s)
    return out


def positions(sites):
    return {(s.b, s.i) for s in sites}


def stores(fn, field_suffix, value=None):
    """assignments whose lhs is a member with 'rec.field' ending in field_suffix
    (value: None = any, 'null' = 0/NULL/false, 'nonnull')."""
    out = []
    for s in fn.assigns():
        lhs = s.node["lhs"]
        if lhs.get("k") != "mem":
            continue
        lf = last_field(lhs) or ""
        if not (lf == field_suffix or lf.endswith("." + field_suffix)):
            continue
        rhs = fn.expand(s.node["rhs"])
        while rhs is not None and rhs.get("k") == "asg":
            rhs = fn.expand(rhs["rhs"])
        z = rhs is not None and const_of(rhs) == 0 and rhs.get("k") in ("int", "enum")
        if value == "null" and not z:
            continue
        if value == "nonnull" and z:
            continue
        out.append(s)
    return out


def cond_edges(fn, match, want_nonzero=True):
    """{block: succ index} for branch blocks whose condition tests a
    sub-expression selected by match(node): the edge on which that
    sub-expression is non-zero (want_nonzero) or zero."""
    out = {}
    for b in fn.blocks.values():
        if not b.term or len(b.succs) != 2:
            continue
        c = fn.cond(b.id)
        if c is None:
            continue
        t = truth_of(c, match)
        if t:
            nz = 0 if t > 0 else 1
            out[b.id] = nz if want_nonzero else 1 - nz
    return out


def cmp_edges(fn, lhs_match, ops_true, rhs_match=None):
    """{block: succ index} for conditions `L op R` where lhs_match(L) and op in
    ops_true: the true edge; for the negated operators the false edge.
    ops_true maps operator -> edge index on which the *desired relation* holds,
    e.g. {'<': 0, '>=': 1} for 'L < R holds'.  Operands may be swapped by the caller."""
    out = {}
    for b in fn.blocks.values():
        if not b.term or len(b.succs) != 2:
            continue
        c = fn.cond(b.id)
        neg = 0
        while c is not None and c.get("k") == "un" and c.get("op") == "!":
            c = c["e"]
            neg ^= 1
        if c is None or c.get("k") != "bin" or c.get("op") not in ops_true:
            continue
        if not lhs_match(c["lhs"]):
            continue
        if rhs_match is not None and not rhs_match(c["rhs"]):
            continue
        out[b.id] = ops_true[c["op"]] ^ neg
    return out


def dominated(fn, pos, cut):
    """pos unreachable from entry once the edges in cut ({block: idx}) are removed."""
    return fn.dominated_by(pos, edge_ok=lambda b, k: not (b in cut and k == cut[b]))


def must_pass(fn, start, via, cut=None, stop=None):
    """every path from start to the function exit (or a position in `stop`)
    passes a position in `via` (cut edges are not followed).  Returns the
    offending (b,i) reached, or None."""
    cut = cut or {}
    seen = fn.reach(start, blocked=lambda b, i, e: (b, i) in via,
                    edge_ok=lambda b, k: not (b in cut and k == cut[b]))
    if stop:
        for p in stop:
            if p in seen:
                return p
        return None
    if (fn.exit, 0) in seen:
        return (fn.exit, 0)
    return None


def reaches(fn, start, targets, blocked=None, cut=None):
    cut = cut or {}
    blocked = blocked or set()
    seen = fn.reach(start, blocked=lambda b, i, e: (b, i) in blocked,
                    edge_ok=lambda b, k: not (b in cut and k == cut[b]))
    for t in targets:
        if t in seen:
            return t
    return None


def path_lines(fn, start, goal, cut=None, blocked=None):
    cut = cut or {}
    blocked = blocked or set()
    p = fn.find_path(start, lambda b, i: (b, i) == goal, blocked=lambda b, i, e: (b, i) in blocked,
                     edge_ok=lambda b, k: not (b in cut and k == cut[b]))
    return fn.path_lines(p)


def mentions(n, text):
    return text in show(n)


def field_is(n, suffix):
    lf = last_field(n) if n is not None and n.get("k") in ("mem", "un", "idx") else None
    return bool(lf) and (lf == suffix or lf.endswith("." + suffix))


def need_sites(sites, what, fn):
    if not sites:
        raise AnalysisBroken("anchor vanished: %s in %s" % (what, fn.name))
    return sites
