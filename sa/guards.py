"""Small vocabulary for guard-dominance (T1), must-pass-through (T2) and
ordering (T3) rules over one function."""
from .core import walk, show, const_of, last_field, truth_of, apath, is_null, AnalysisBroken, same_expr


def calls(fn, name, arg0_contains=None, argn=None):
    out = []
    for s in fn.calls(name):
        if arg0_contains is not None:
            if not s.node["args"] or arg0_contains not in show(fn.expand(s.node["args"][0])):
                continue
        out.append(s)
    return out


def positions(sites):
    return {(s.b, s.i) for s in sites}


def stores(fn, field_suffix, value=None):
    """assignments whose lhs is a member with 'rec.field' ending in field_suffix
    (value: None = any, 'null' = 0/NULL/false, 'nonnull')."""
    out = []
    for s in fn.assigns():
        lhs = s.node["lhs"]
        if lhs.get("k") != "mem":
            continue
        lf = last_field(lhs) or ""
        if not (lf == field_suffix or lf.endswith("." + field_suffix)):
            continue
        rhs = fn.expand(s.node["rhs"])
        while rhs is not None and rhs.get("k") == "asg":
            rhs = fn.expand(rhs["rhs"])
        z = rhs is not None and const_of(rhs) == 0 and rhs.get("k") in ("int", "enum")
        if value == "null" and not z:
            continue
        if value == "nonnull" and z:
            continue
        out.append(s)
    return out


def cond_edges(fn, match, want_nonzero=True):
    """{block: succ index} for branch blocks whose condition tests a
    sub-expression selected by match(node): the edge on which that
    sub-expression is non-zero (want_nonzero) or zero."""
    out = {}
    for b in fn.blocks.values():
        if not b.term or len(b.succs) != 2:
            continue
        c = fn.cond(b.id)
        if c is None:
            continue
        t = truth_of(c, match)
        if t:
            nz = 0 if t > 0 else 1
            out[b.id] = nz if want_nonzero else 1 - nz
    return out


def cmp_edges(fn, lhs_match, ops_true, rhs_match=None):
    """{block: succ index} for conditions `L op R` where lhs_match(L) and op in
    ops_true: the true edge; for the negated operators the false edge.
    ops_true maps operator -> edge index on which the *desired relation* holds,
    e.g. {'<': 0, '>=': 1} for 'L < R holds'.  Operands may be swapped by the caller."""
    out = {}
    for b in fn.blocks.values():
        if not b.term or len(b.succs) != 2:
            continue
        c = fn.cond(b.id)
        neg = 0
        while c is not None and c.get("k") == "un" and c.get("op") == "!":
            c = c["e"]
            neg ^= 1
        if c is None or c.get("k") != "bin" or c.get("op") not in ops_true:
            continue
        if not lhs_match(c["lhs"]):
            continue
        if rhs_match is not None and not rhs_match(c["rhs"]):
            continue
        out[b.id] = ops_true[c["op"]] ^ neg
    return out


def dominated(fn, pos, cut):
    """pos unreachable from entry once the edges in cut ({block: idx}) are removed."""
    return fn.dominated_by(pos, edge_ok=lambda b, k: not (b in cut and k == cut[b]))


def must_pass(fn, start, via, cut=None, stop=None):
    """every path from start to the function exit (or a position in `stop`)
    passes a position in `via` (cut edges are not followed).  Returns the
    offending (b,i) reached, or None."""
    cut = cut or {}
    seen = fn.reach(start, blocked=lambda b, i, e: (b, i) in via,
                    edge_ok=lambda b, k: not (b in cut and k == cut[b]))
    if stop:
        for p in stop:
            if p in seen:
                return p
        return None
    if (fn.exit, 0) in seen:
        return (fn.exit, 0)
    return None


def reaches(fn, start, targets, blocked=None, cut=None):
    cut = cut or {}
    blocked = blocked or set()
    seen = fn.reach(start, blocked=lambda b, i, e: (b, i) in blocked,
                    edge_ok=lambda b, k: not (b in cut and k == cut[b]))
    for t in targets:
        if t in seen:
            return t
    return None


def path_lines(fn, start, goal, cut=None, blocked=None):
    cut = cut or {}
    blocked = blocked or set()
    p = fn.find_path(start, lambda b, i: (b, i) == goal, blocked=lambda b, i, e: (b, i) in blocked,
                     edge_ok=lambda b, k: not (b in cut and k == cut[b]))
    return fn.path_lines(p)


def mentions(n, text):
    return text in show(n)


def field_is(n, suffix):
    lf = last_field(n) if n is not None and n.get("k") in ("mem", "un", "idx") else None
    return bool(lf) and (lf == suffix or lf.endswith("." + suffix))


def need_sites(sites, what, fn):
    if not sites:
        raise AnalysisBroken("anchor vanished: %s in %s" % (what, fn.name))
    return sites


def var_defs(fn, name):
    """assignment / initialiser sites of local `name`: [(site-pos, rhs-expanded)]"""
    out = []
    for s in fn.sites():
        n = s.node
        if n.get("k") == "asg" and n.get("op") == "=" and n["lhs"].get("k") == "var" and n["lhs"]["n"] == name:
            out.append(((s.b, s.i), fn.expand(n["rhs"])))
        elif n.get("k") == "decls":
            for d in n["d"]:
                if d["n"] == name and d.get("init") is not None:
                    out.append(((s.b, s.i), fn.expand(d["init"])))
    # assignments nested in conditions ((aio = f()) == NULL) are their own sub-nodes of a site
    for b in fn.blocks.values():
        for i, e in enumerate(b.elems):
            for n in walk(fn.expand(e)):
                if n.get("k") == "asg" and n.get("op") == "=" and n["lhs"].get("k") == "var" and n["lhs"]["n"] == name:
                    if not any(p == (b.id, i) for p, _ in out):
                        out.append(((b.id, i), fn.expand(n["rhs"])))
    return out


def reaching_defs(fn, name, pos):
    """definitions of local `name` that can reach position pos without an intervening definition"""
    defs = var_defs(fn, name)
    dpos = {p for p, _ in defs}
    out = []
    for p, rhs in defs:
        seen = fn.reach((p[0], p[1] + 1), blocked=lambda b, i, e: (b, i) in dpos and (b, i) != pos)
        if pos in seen:
            out.append((p, rhs))
    return out


def resolve(fn, e, pos, depth=0):
    """value of e at pos with locals replaced by their unique reaching definition (casts dropped)"""
    e = fn.expand(e)
    while e is not None and e.get("k") == "cast":
        e = fn.expand(e["e"])
    if e is None or depth > 4:
        return e
    k = e.get("k")
    if k == "var":
        rd = reaching_defs(fn, e["n"], pos)
        if len(rd) == 1 and rd[0][1] is not None and rd[0][0] != pos:
            return resolve(fn, rd[0][1], rd[0][0], depth + 1)
        return e
    if k == "bin":
        return dict(e, lhs=resolve(fn, e["lhs"], pos, depth + 1), rhs=resolve(fn, e["rhs"], pos, depth + 1))
    if k == "un" and e.get("op") == "!":
        return dict(e, e=resolve(fn, e["e"], pos, depth + 1))
    if k == "asg" and e.get("op") == "=":
        return resolve(fn, e["rhs"], pos, depth + 1)
    return e
