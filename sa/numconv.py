"""Complete numeric conversion: the value strtol/strtoul/strtoull returned is used only when the conversion consumed the
whole field.  Path-sensitive: the function is simulated in the world where the end pointer stopped at a non-terminator
(`*end != 0`, `end != NULL`); in that world the converted value must not be read, and a field it was stored in must not
keep it when the function returns."""
from .core import show, walk, AnalysisBroken
from .pathsim import Sim, Client

STRTO = ("strtol", "strtoul", "strtoull", "strtoll")


def _strip(e):
    while e is not None and e.get("k") == "cast":
        e = e["e"]
    return e


class _JunkClient(Client):
    def __init__(self, fn, call_id, endvar):
        self.fn = fn
        self.call_id = call_id
        self.endvar = endvar
        self.bad = []
        # a store is not a read: the left-hand sides of plain assignments
        self.lhs_ids = {t.node["lhs"].get("_id") for t in fn.assigns() if t.node.get("op") == "="}

    def init(self, sim):
        return ("pre", None, False)

    def _is_call(self, e):
        e = _strip(self.fn.expand(e)) if e is not None else None
        return e is not None and e.get("k") == "call" and e.get("_id") == self.call_id

    def node(self, st, n, sim):
        mode, holder, live = st
        k = n.get("k")
        if k == "asg" and n.get("op") == "=" and self._is_call(n["rhs"]):
            return ("junk", show(n["lhs"]), True)
        if k == "decls":
            for d in n["d"]:
                if d.get("init") is not None and self._is_call(d["init"]):
                    return ("junk", d["n"], True)
            return st
        if mode != "junk" or not live:
            return st
        if k == "asg" and n.get("op") == "=" and show(n["lhs"]) == holder:
            return ("junk", holder, False)
        if k in ("var", "mem") and show(n) == holder and n.get("_id") not in self.lhs_ids:
            self.bad.append((sim.here(), "read", sim.lines()))
            return ("junk", holder, False)
        return st

    def branch(self, st, subj, val, sim):
        if st[0] != "junk":
            return st
        z = val[0] == "Z" or (val[0] == "EQ" and val[1] == 0)
        s = _strip(subj)
        if s is not None and s.get("k") == "un" and s.get("op") == "*":
            b = _strip(self.fn.expand(s["e"]))
            if b is not None and b.get("k") == "var" and b["n"] == self.endvar and z:
                return None          # in this world the conversion stopped before the terminator
        if s is not None and s.get("k") == "var" and s["n"] == self.endvar and z:
            return None              # strto* always stores an end pointer
        return st

    def at_exit(self, st, sim, via):
        mode, holder, live = st
        if mode == "junk" and live and holder and ("->" in holder or "." in holder):
            self.bad.append((sim.here(), "kept", sim.lines()))


def check(ctx, r, fns, floor):
    """every strto* call (with an end pointer) in fns"""
    n = 0
    for f in fns:
        if f.cfg_failed:
            continue
        for c in f.calls(STRTO):
            a = c.node["args"]
            e = _strip(f.expand(a[1])) if len(a) > 1 and a[1] is not None else None
            if e is None or e.get("k") != "un" or e.get("op") != "&" or e["e"].get("k") != "var":
                continue       # no end pointer: nothing can be concluded from the call itself
            n += 1
            cl = _JunkClient(f, c.node.get("_id"), e["e"]["n"])
            sim = Sim(f, cl, max_states=20000)
            sim.run()
            if sim.truncated:
                raise AnalysisBroken("conversion simulation truncated in %s" % f.name)
            # the lhs of an assignment is visited as a node too: a store is not a read
            bad = [b for b in cl.bad]
            if bad:
                line, what, lines = bad[0]
                ctx.fail(r, f, "%s result %s after an incomplete conversion" % (c.node["fn"], "used" if what == "read" else "kept"), c.line,
                         "%s at line %s: when the text has trailing characters (*%s != 0) the converted prefix is still %s (line %s) "
                         "-- the field is accepted as a number although it is not one"
                         % (c.node["fn"], c.line, e["e"]["n"], "read" if what == "read" else "left in place when the function returns", line), lines)
            else:
                r.ob(f, "%s line %s: the value is used only when *%s == 0" % (c.node["fn"], c.line, e["e"]["n"]))
    if n < floor:
        raise AnalysisBroken("only %d numeric conversions with an end pointer found" % n)
