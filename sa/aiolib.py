"""Shared vocabulary of the aio provider protocol (slots filled from nng)."""
from .core import same_expr, walk, strip_addr, apath

AIO_TYPES = ("nni_aio *", "nng_aio *", "struct nng_aio *")
FINISH = ("nni_aio_finish", "nni_aio_finish_sync", "nni_aio_finish_error", "nni_aio_finish_msg")
FINISH_OR_COMPLETE = FINISH + ("nni_aio_completions_add",)
LIST_PARK = ("nni_aio_list_append", "nni_list_append", "nni_list_prepend", "nni_aio_list_prepend")
START = "nni_aio_start"


def is_aio_ptr(n):
    return n is not None and n.get("t") in AIO_TYPES


def aio_params(fn):
    return [p["n"] for p in fn.params if p["t"] in AIO_TYPES]


def arg(fn, call, i):
    a = call["args"]
    if i >= len(a):
        return None
    return fn.expand(a[i])


def mentions(fn, elem, expr):
    """Nodes of elem (calls / assignments) that pass or store `expr`."""
    out = []
    for n in walk(elem):
        if n.get("k") == "call":
            for a in n["args"]:
                if a is not None and same_expr(fn.expand(a), expr):
                    out.append(n)
                    break
        elif n.get("k") == "asg" and n.get("op") == "=":
            if same_expr(fn.expand(n["rhs"]), expr):
                out.append(n)
    return out
