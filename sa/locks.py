"""Lockset analysis (T7): held locks per call site, interprocedural summaries
of acquired locks and of selected effects, lock pairing on all exits."""
from collections import defaultdict

from .core import walk, apath, last_field, show, strip_addr, AnalysisBroken
from .pathsim import Sim, Client

LOCK = "nni_mtx_lock"
UNLOCK = "nni_mtx_unlock"


def aliases(fn):
    """local -> access path (tuple) for single-definition locals initialised
    from a path expression (e.g. `req0_sock *s = ctx->sock;`, `T *p = arg;`)."""
    defs = defaultdict(list)
    for s in fn.sites():
        n = s.node
        if n.get("k") == "decls":
            for d in n["d"]:
                if d.get("init") is not None:
                    defs[d["n"]].append(fn.expand(d["init"]))
                else:
                    defs[d["n"]]
        elif n.get("k") == "asg" and n["lhs"].get("k") == "var":
            defs[n["lhs"]["n"]].append(fn.expand(n["rhs"]) if n.get("op") == "=" else None)
        elif n.get("k") == "un" and n.get("op") == "&" and n["e"].get("k") == "var":
            defs[n["e"]["n"]].append(None)  # address taken: may be written elsewhere
    params = {p["n"] for p in fn.params}
    out = {}
    for v, ds in defs.items():
        if v in params or len(ds) != 1 or ds[0] is None:
            continue
        e = ds[0]
        if e.get("k") == "un" and e.get("op") == "&":
            continue
        p = apath(e)
        if p is not None:
            out[v] = p
    # resolve chains
    for _ in range(4):
        ch = False
        for v, p in list(out.items()):
            if p[0] in out and p[0] != v:
                out[v] = out[p[0]] + p[1:]
                ch = True
        if not ch:
            break
    return out


class LockInfo:
    """Per-function results."""

    def __init__(self, fn):
        self.fn = fn
        self.alias = aliases(fn)
        self.calls = []      # (pos, node, held frozenset of (path, cls))
        self.acquires = []   # (pos, (path, cls), held)
        self.exit_held = set()   # lock paths possibly held at exit
        self.entry_unlocks = set()  # unlock of a lock not acquired here (callee releases caller's lock)
        self.truncated = False
        self.handles = []
        self.held_pos = {}   # position -> locks possibly held there
        self.visits = {}     # position -> list of held sets (one per path state)
        self.writes = []     # (pos, lhs node, held)  -- field stores
        self.reads = []

    def norm(self, e):
        p = apath(e)
        if p is None:
            return None
        if p[0] in self.alias:
            p = self.alias[p[0]] + p[1:]
        return p


class _LockClient(Client):
    def __init__(self, info, record_access=False):
        self.info = info
        self.record_access = record_access

    def init(self, sim):
        return frozenset()

    def node(self, st, n, sim):
        info = self.info
        k = n.get("k")
        hp = info.held_pos.get(sim.cur)
        if hp is None:
            info.held_pos[sim.cur] = set(st)
        else:
            hp.update(st)
        info.visits.setdefault(sim.cur, []).append(st)
        if k == "call":
            f = n.get("fn")
            if f in (LOCK, UNLOCK) and n["args"]:
                a = sim.fn.expand(n["args"][0])
                if not (a.get("k") == "un" and a.get("op") == "&"):
                    # a lock *handle* (nni_mtx * value chosen at run time, e.g. the
                    # stats cursor lock): identity is dynamic, not tracked
                    info.handles.append((sim.cur, n))
                    return st
                p = info.norm(a)
                cls = last_field(a) or (p[-1] if p else "?")
                if p is None:
                    p = ("<?%s>" % show(a),)
                if f == LOCK:
                    info.acquires.append((sim.cur, (p, cls), st, n))
                    return st | {(p, cls)}
                if (p, cls) not in st:
                    info.entry_unlocks.add((p, cls))
                return st - {(p, cls)}
            info.calls.append((sim.cur, n, st))
        elif self.record_access and k == "asg":
            info.writes.append((sim.cur, n["lhs"], st))
        return st

    def at_exit(self, st, sim, via):
        for l in st:
            self.info.exit_held.add((l, via))


_cache = {}


def lockinfo(fn, record_access=False):
    key = (id(fn), record_access)
    if key not in _cache:
        info = LockInfo(fn)
        has = any(True for _ in fn.calls((LOCK, UNLOCK)))
        if has or record_access:
            sim = Sim(fn, _LockClient(info, record_access), max_states=20000)
            sim.run()
            info.truncated = sim.truncated
        else:
            # no lock operations: every call happens with the caller's locks only
            for s in fn.calls():
                info.calls.append(((s.b, s.i), s.node, frozenset()))
        _cache[key] = info
    return _cache[key]


# Call edges where slot resolution is known to be narrower than "every
# function stored in the slot"; one line of reason each.
CUT_EDGES = {
    ("http_server_init", "nng_stream_listener_alloc_url"):
        "an HTTP server listens on http/https URLs, i.e. a tcp/tls stream listener; websocket listeners are layered "
        "on top of the HTTP server and are never created beneath it",
    ("nni_http_client_init", "nng_stream_dialer_alloc_url"):
        "an HTTP client dials http/https URLs (tcp/tls stream dialer), never a websocket dialer",
}
OPT_DISPATCH = {"nni_setopt": "o_set", "nni_getopt": "o_get"}


def option_fns(prog, fn, node):
    """Functions reachable through nni_setopt/nni_getopt(table, ...): only
    the entries of the table actually passed."""
    which = OPT_DISPATCH[node["fn"]]
    a = fn.expand(node["args"][0]) if node["args"] else None
    return option_table_fns(prog, fn, a, which)


def option_table_fns(prog, fn, a, which):
    tables = []
    if a is None:
        return []
    if a.get("k") == "var":
        tables.append((a["n"], fn.file))
    else:
        lf = last_field(a)
        if lf:
            rec, fld = lf.split(".", 1)
            for g, fields in prog.tables(rec):
                v = fields.get(fld)
                v = strip_addr(v) if v else None
                if v is not None and v.get("k") == "var":
                    tables.append((v["n"], g["file"]))
    out = []
    for name, file in tables:
        for g in prog.globals:
            if g["name"] != name or g["file"] != file:
                continue
            init = g.get("init")
            if not init or init.get("k") != "initarr":
                continue
            for e in init["elems"]:
                if e and e.get("k") == "init":
                    v = strip_addr(e["fields"].get(which))
                    if v is not None and v.get("k") == "fnref":
                        f2 = prog.fn(v["n"], g["file"]) or prog.fn(v["n"])
                        if f2 is not None and f2 not in out:
                            out.append(f2)
    return out


def callees(prog, fn, node):
    """Possible callee Functions of a call node (direct, or through an ops
    slot / function-pointer field resolved from global initialisers)."""
    if node.get("fn"):
        if (fn.name, node["fn"]) in CUT_EDGES:
            return []
        if node["fn"] in OPT_DISPATCH:
            return option_fns(prog, fn, node)
        g = prog.resolve(fn, node["fn"])
        return [g] if g is not None else []
    if fn.name in OPT_DISPATCH:
        return []  # resolved at the callers of nni_setopt / nni_getopt
    ind = fn.expand(node.get("ind"))
    lf = last_field(ind)
    if lf in ("nni_option.o_get", "nni_option.o_set", "nni_option_s.o_get", "nni_option_s.o_set"):
        # inline walk over an option table: `for (o = TABLE; ...) o->o_get(...)`
        p = apath(ind)
        if p and len(p) == 2:
            srcs = [fn.expand(t.node["rhs"]) for t in fn.assigns()
                    if t.node.get("op") == "=" and t.node["lhs"].get("k") == "var" and t.node["lhs"]["n"] == p[0]]
            if srcs:
                out = []
                for e in srcs:
                    for g in option_table_fns(prog, fn, e, lf.split(".")[1]):
                        if g not in out:
                            out.append(g)
                return out
    if lf:
        return prog.slot_fns(lf)
    return []


# effects do not propagate out of these (their inline behaviour depends on a
# flag argument / task queue presence that the named wrappers fix)
BARRIER = {
    "nni_aio_finish_impl", "nni_task_dispatch",
    # failure path of an init function tearing down its own, never published
    # object (its aios were never started, so the stop/wait cannot block)
    "http_init", "http_server_init",
}


class Summaries:
    """Transitive acquired-lock and effect summaries over the call graph."""

    def __init__(self, prog, effects):
        self.prog = prog
        self.effects = set(effects)
        self.acq = {}   # fn -> {(cls, relpath or None): chain tuple}
        self.eff = {}   # fn -> {effect: chain tuple}
        self._build()

    def _map_path(self, callee, path, caller_info, node):
        """Translate a callee-relative lock path through the call's
        arguments into the caller's namespace (None if not param-rooted)."""
        if path is None:
            return None
        names = [p["n"] for p in callee.params]
        if path[0] not in names:
            return None
        i = names.index(path[0])
        if i >= len(node["args"]):
            return None
        a = caller_info.fn.expand(node["args"][i])
        ap = caller_info.norm(a)
        if ap is None:
            return None
        return ap + path[1:]

    def _build(self):
        prog = self.prog
        fns = [f for f in prog.functions if not f.cfg_failed]
        infos = {f: lockinfo(f) for f in fns}
        self.infos = infos
        acq = {f: {} for f in fns}
        eff = {f: {} for f in fns}
        for f in fns:
            for pos, (p, cls), held, n in infos[f].acquires:
                acq[f].setdefault((cls, p), (f.name,))
            for pos, n, held in infos[f].calls:
                if n.get("fn") in self.effects:
                    eff[f].setdefault(n["fn"], (f.name, n["fn"]))
        changed = True
        rounds = 0
        while changed and rounds < 30:
            changed = False
            rounds += 1
            for f in fns:
                info = infos[f]
                for pos, n, held in info.calls:
                    for g in callees(prog, f, n):
                        if g is f or g not in acq:
                            continue
                        for (cls, p), chain in list(acq[g].items()):
                            mp = self._map_path(g, p, info, n) if n.get("fn") else None
                            key = (cls, mp)
                            if key not in acq[f] and len(chain) < 8:
                                acq[f][key] = (f.name,) + chain
                                changed = True
                        if g.name in BARRIER:
                            continue
                        for e, chain in list(eff[g].items()):
                            if e not in eff[f] and len(chain) < 10:
                                eff[f][e] = (f.name,) + chain
                                changed = True
        self.acq = acq
        self.eff = eff
