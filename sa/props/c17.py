"""C17 -- nng_msg as two byte strings (narrow)."""
from ..core import walk, show, const_of, last_field, truth_of, apath, is_null, AnalysisBroken, same_expr
from .. import guards as G
from . import c13

EXPLANATION = ("C17 (narrow): header writes are dominated by the capacity test in its overflow-free form; trim/chop return the "
               "error before any field is written; the in-store tests of the body chunk accept a data pointer at offset 0 and "
               "agree between grow and insert; a grow that replaces the buffer copies the data, after clamping the new size to "
               "the current length; the split branch of insert moves the old data behind the room for the inserted bytes; the "
               "u16/u32/u64 wrappers encode/decode with the macro of their own width, test the length first and remove "
               "sizeof(v) bytes; a duplicate owns fresh storage. The chunk arithmetic as such (headroom preservation, slack "
               "split) is value-level and not decided."
               " Also: header insert/append move and place bytes using the header length as it was before the call (R5).")
EXPLANATION += ' Round 3: only the nni_chunk_* primitives write chunk fields (R6).'
EXPLANATION += ' Round 5: a sum of two sizes is used only behind an overflow guard that is still valid (R8).'


def rule_r1(ctx):
    c13.rule_r4(ctx)
    for rr in ctx.rules:
        if rr.id == "C13.R4":
            rr.id = "C17.R1"
    r = ctx.rule("C17.R1b", "T1", "overflow-free bounds: a capacity test of the header functions compares the caller's length with the "
                 "room that is left (sizeof(buf) - m_header_len), or uses a sum / a subtraction of the length only behind a test "
                 "len <= sizeof(buf): (len + m_header_len) > sizeof(buf) on its own wraps for a length near SIZE_MAX", floor=2)
    prog = ctx.prog
    for name in ("nni_msg_header_append", "nni_msg_header_insert"):
        f = prog.need(name, "core/message.c")
        ok = False
        seen_atoms = set()
        for bid, _k, c, _val in G.edge_facts(f):
            if c.get("k") != "bin" or "m_header_len" not in show(c) or (bid, show(c)) in seen_atoms:
                continue
            seen_atoms.add((bid, show(c)))
            b = f.blocks[bid]
            subs = [n for n in walk(c) if n.get("k") == "bin" and n["op"] == "-"]
            sums = [n for n in walk(c) if n.get("k") == "bin" and n["op"] == "+" and "m_header_len" in show(n) and "len" in show(n)]
            if sums and not subs:
                # len + m_header_len wraps for a length near SIZE_MAX: the sum form is sound only behind len <= sizeof(buf)
                lim = {}
                for b2id, k2, c2, v2 in G.edge_facts(f):
                    if c2.get("k") == "bin" and c2["op"] in (">", "<=") and c2["lhs"].get("k") == "var" and \
                            c2["rhs"].get("k") in ("sizeof", "int") and ((c2["op"] == "<=") == v2):
                        lim[b2id] = k2
                ok = True
                if lim and G.dominated(f, (b.id, 0), lim):
                    r.ob(f, "capacity test in sum form behind a limit on the length: %s" % show(c)[:70])
                else:
                    ctx.fail(r, f, "capacity test adds a caller-supplied length", f.line_of(b.id, 0),
                             "%s tests %s: the sum is computed in size_t and wraps for a length near SIZE_MAX, so the oversized "
                             "write is accepted (nng_msg_header_append(m, p, SIZE_MAX - 3) on a 4-byte header returns 0 and "
                             "copies); compare the length with the room that is left instead" % (name, show(c)[:70]))
            for s_ in subs:
                if s_["rhs"].get("k") == "mem" and s_["rhs"]["f"] == "m_header_len" and s_["lhs"].get("k") in ("sizeof", "int"):
                    ok = True       # sizeof(buf) - m_header_len: the header length never exceeds the buffer (R1)
                    r.ob(f, "capacity test compares the length with the room left: %s" % show(c)[:70])
                    continue
                # need a dominating guard: subtrahend <= minuend
                guard = {}
                for b2id, k2, c2, v2 in G.edge_facts(f):
                    if c2.get("k") == "bin" and c2["op"] in (">", "<=") and same_expr(c2["lhs"], s_["rhs"]) \
                            and same_expr(c2["rhs"], s_["lhs"]) and ((c2["op"] == "<=") == v2):
                        guard[b2id] = k2
                if guard and G.dominated(f, (b.id, 0), guard):
                    ok = True
                    r.ob(f, "subtraction form guarded by %s <= %s" % (show(s_["rhs"]), show(s_["lhs"])))
                else:
                    ctx.fail(r, f, "unguarded size subtraction", f.line_of(b.id, 0),
                             "the capacity test computes %s in unsigned arithmetic without first establishing %s <= %s: for a "
                             "larger length the difference wraps and the oversized write is accepted"
                             % (show(s_), show(s_["rhs"]), show(s_["lhs"])))
                    ok = True
        if not ok:
            ctx.fail(r, f, "capacity test not recognised", f.line, "%s has no capacity test in a recognised form" % name)


def rule_r2(ctx):
    r = ctx.rule("C17.R2", "T3", "no change on failure: in nni_chunk_trim / nni_chunk_chop every field write is dominated by the "
                 "edge ch_len >= len (the NNG_EINVAL return comes first)", floor=3)
    prog = ctx.prog
    for name in ("nni_chunk_trim", "nni_chunk_chop"):
        f = prog.need(name, "core/message.c")
        # ch_len >= len in any spelling (operands swapped, negated, through a temporary)
        okedge = G.rel_edges(f, lambda m: m is not None and G.field_is(m, "ch_len"),
                             lambda m: m is not None and m.get("k") == "var", ">=")
        st = [s for s in f.assigns() if s.node["lhs"].get("k") == "mem"]
        if not okedge:
            ctx.fail(r, f, "length test missing", f.line, "%s no longer tests ch_len < len" % name)
            continue
        for s in st:
            if G.dominated(f, (s.b, s.i), okedge):
                r.ob(f, "%s written only after the length test" % show(s.node["lhs"]))
            else:
                ctx.fail(r, f, "field written before the length test", s.line, "%s modifies %s on a path that may still fail with NNG_EINVAL"
                         % (name, show(s.node["lhs"])))


def rule_r4(ctx):
    r = ctx.rule("C17.R4", "T9", "chunk store tests and copies: the in-store tests compare ch_ptr >= ch_buf and ch_ptr < ch_buf + ch_cap "
                 "in both nni_chunk_grow and nni_chunk_insert; in nni_chunk_grow the clamp newsz >= ch_len precedes the copy and "
                 "the branch that replaces the buffer without copying is reachable only when the data pointer is not in the store; "
                 "in the split branch of nni_chunk_insert the old data is moved to new ch_ptr + len; a duplicate gets fresh "
                 "storage of the source capacity and copies ch_len bytes", floor=8)
    prog = ctx.prog
    forms = {}
    for name in ("nni_chunk_grow", "nni_chunk_insert"):
        f = prog.need(name, "core/message.c")
        def is_ptr(n):
            return G.field_is(n, "ch_ptr")

        def is_buf(n):
            return G.field_is(n, "ch_buf") and n.get("k") == "mem"

        def is_end(n):
            return n is not None and n.get("k") == "bin" and n["op"] == "+" and \
                {True} == {G.field_is(n["lhs"], "ch_buf") or G.field_is(n["lhs"], "ch_cap")} and \
                {True} == {G.field_is(n["rhs"], "ch_buf") or G.field_is(n["rhs"], "ch_cap")} and \
                G.field_is(n["lhs"], "ch_buf") != G.field_is(n["rhs"], "ch_buf")
        # the two halves of "ch_ptr lies in [ch_buf, ch_buf + ch_cap)" in any spelling
        ge, gt = G.rel_edges(f, is_ptr, is_buf, ">="), G.rel_edges(f, is_ptr, is_buf, ">")
        lt, le = G.rel_edges(f, is_ptr, is_end, "<"), G.rel_edges(f, is_ptr, is_end, "<=")
        forms[name] = (ge, lt)
        if not (ge or gt) or not (lt or le):
            ctx.fail(r, f, "in-store test missing", f.line, "%s no longer tests whether ch_ptr lies in [ch_buf, ch_buf + ch_cap)" % name)
            continue
        if ge:
            r.ob(f, "ch_ptr >= ch_buf")
        else:
            ctx.fail(r, f, "in-store test excludes offset 0", f.line_of(sorted(gt)[0], 0),
                     "%s tests ch_ptr > ch_buf: data that starts at the beginning of the buffer (no headroom) is treated as "
                     "not stored, and the next growth drops it" % name)
        if lt:
            r.ob(f, "ch_ptr < ch_buf + ch_cap")
        else:
            ctx.fail(r, f, "in-store upper test <=", f.line_of(sorted(le)[0], 0), "%s compares ch_ptr <= ch_buf + ch_cap" % name)
    g = prog.need("nni_chunk_grow", "core/message.c")
    copies = [s for s in g.calls("memcpy")]
    clamp = [t for t in g.assigns() if t.node["lhs"].get("k") == "var" and t.node["lhs"]["n"] == "newsz" and
             G.field_is(g.expand(t.node["rhs"]), "ch_len")]
    if copies and clamp:
        c = copies[0]
        n = g.expand(c.node["args"][2])
        if G.field_is(n, "ch_len"):
            r.ob(g, "grow copies ch_len bytes")
        else:
            ctx.fail(r, g, "grow copies %s" % show(n), c.line, "nni_chunk_grow copies %s bytes instead of ch_len" % show(n))
        small = G.cmp_edges(g, lambda l: l.get("k") == "var" and l["n"] == "newsz", {"<": 0}, rhs_match=lambda x: G.field_is(x, "ch_len"))
        if small and not G.reaches(g, (g.entry, 0), [(c.b, c.i)], blocked={(b, max(len(g.blocks[b].elems) - 1, 0)) for b in small}):
            r.ob(g, "the clamp newsz >= ch_len precedes the copy")
        else:
            ctx.fail(r, g, "copy without clamp", c.line, "the copy into the new buffer is reachable without the newsz >= ch_len clamp")
    else:
        ctx.fail(r, g, "grow does not copy", g.line, "nni_chunk_grow no longer copies the data / clamps the new size")
    ins = prog.need("nni_chunk_insert", "core/message.c")
    mv = [s for s in ins.calls("memmove")]
    if not mv:
        ctx.fail(r, ins, "split branch missing", ins.line, "nni_chunk_insert no longer has the slack-splitting branch")
    for s in mv:
        dst = ins.expand(s.node["args"][0])
        # the ch_ptr assignment in the same block / branch
        newptr = None
        for t in ins.assigns():
            if t.b == s.b and G.field_is(t.node["lhs"], "ch_ptr"):
                newptr = ins.expand(t.node["rhs"])
        if newptr is None:
            ctx.fail(r, ins, "split branch does not set ch_ptr", s.line, "after moving the data ch_ptr is not updated in the same branch")
            continue
        want_ok = dst.get("k") == "bin" and dst["op"] == "+" and (
            (same_expr(dst["lhs"], newptr) and show(dst["rhs"]) == "len") or
            (dst["lhs"].get("k") == "bin" and same_expr(dst["lhs"], newptr) is False and show(dst["rhs"]) == "len" and
             same_expr(dst["lhs"], newptr)))
        if not want_ok and dst.get("k") == "bin" and dst["op"] == "+" and show(dst["rhs"]) == "len" and show(dst["lhs"]) == show(newptr):
            want_ok = True
        if want_ok:
            r.ob(ins, "old data moved to (new ch_ptr) + len")
        else:
            ctx.fail(r, ins, "split branch overwrites the body", s.line,
                     "the existing data is moved to %s while ch_ptr becomes %s: the %s inserted bytes are then written over the "
                     "data instead of in front of it" % (show(dst), show(newptr), "len"))
    d = prog.need("nni_chunk_dup", "core/message.c")
    al = [t for t in d.assigns() if (d.expand(t.node["rhs"]) or {}).get("fn") in ("nni_alloc", "nni_zalloc")]
    if al and G.field_is(d.expand(d.expand(al[0].node["rhs"])["args"][0]), "ch_cap") and "src" in show(d.expand(d.expand(al[0].node["rhs"])["args"][0])):
        r.ob(d, "duplicate allocates src->ch_cap")
    else:
        ctx.fail(r, d, "duplicate storage", d.line, "nni_chunk_dup does not allocate fresh storage of the source capacity")
    for t in d.assigns():
        if t.node["lhs"].get("k") == "mem" and t.node["lhs"]["f"] in ("ch_buf", "ch_ptr"):
            rhs = d.expand(t.node["rhs"])
            roots = {x["n"] for x in walk(rhs) if x.get("k") == "var"}
            if rhs.get("k") == "asg" or "dst" in roots or (rhs.get("k") == "call"):
                r.ob(d, "%s points into the copy" % t.node["lhs"]["f"])
            elif roots == {"src"}:
                ctx.fail(r, d, "duplicate shares storage", t.line, "the duplicate's %s is taken from the source" % t.node["lhs"]["f"])


def rule_r3(ctx):
    r = ctx.rule("C17.R3", "T11", "integer forms: nng_msg_{append,insert,trim,chop}_u{16,32,64} and the header forms use the "
                 "NNI_PUT/NNI_GET macro of their own width, pass sizeof(v) of that width, and the removing forms test the length "
                 "against sizeof(v) before reading", floor=20)
    prog = ctx.prog
    n = 0
    for f in prog.fns_in("src/nng.c"):
        import re
        m = re.match(r"nng_msg_(header_)?(append|insert|trim|chop)_u(16|32|64)$", f.name)
        if not m:
            continue
        n += 1
        hdr, op, w = m.group(1), m.group(2), int(m.group(3))
        macs = set()
        for s in f.sites():
            for x in (s.node.get("m") or []):
                if x.startswith(("NNI_PUT", "NNI_GET")):
                    macs.add(x)
        want = ("NNI_PUT%d" if op in ("append", "insert") else "NNI_GET%d") % w
        if macs == {want}:
            r.ob(f, "%s" % want)
        else:
            ctx.fail(r, f, "codec macro %s" % ",".join(sorted(macs)), f.line, "%s uses %s, expected %s" % (f.name, sorted(macs), want))
        sizes = {const_of(x) for s in f.sites() for x in [s.node] if x.get("k") == "sizeof" and const_of(x) is not None}
        if sizes <= {w // 8} and sizes:
            r.ob(f, "sizeof(v) == %d" % (w // 8))
        else:
            ctx.fail(r, f, "operand size %s" % sorted(sizes), f.line, "%s works with sizes %s, expected %d" % (f.name, sorted(sizes), w // 8))
        inner = "nni_msg_%s%s" % (hdr or "", op)
        calls = [s for s in f.calls(inner)]
        if not calls:
            ctx.fail(r, f, "does not call %s" % inner, f.line, "%s no longer calls %s" % (f.name, inner))
        if op in ("trim", "chop"):
            lenfn = "nni_msg_header_len" if hdr else "nni_msg_len"
            okedge = G.cmp_edges(f, lambda l: l.get("k") == "call" and l.get("fn") in (lenfn, lenfn.replace("nni_", "nng_")), {"<": 1, ">=": 0})
            reads = [s for s in f.sites() if any(x.startswith("NNI_GET") for x in (s.node.get("m") or []))]
            if okedge and reads and all(G.dominated(f, (s.b, s.i), okedge) for s in reads):
                r.ob(f, "length tested before decoding")
            else:
                ctx.fail(r, f, "decode without length test", f.line, "%s reads the integer before testing that %d bytes are present" % (f.name, w // 8))
    if n < 20:
        raise AnalysisBroken("only %d integer wrappers found" % n)



def rule_r5(ctx):
    r = ctx.rule("C17.R5", "T3", "header insert/append move the old header with its old length: in nni_msg_header_insert the memmove "
                 "that makes room is sized by m_header_len as it was before this call (the length is increased afterwards), and "
                 "in nni_msg_header_append the copy lands at the old length", floor=2)
    prog = ctx.prog
    for name in ("nni_msg_header_insert", "nni_msg_header_append"):
        f = prog.need(name, "core/message.c")
        grows = [t for t in f.assigns() if G.field_is(t.node["lhs"], "m_header_len")]
        uses = [c for c in f.calls(("memmove", "memcpy")) if any("m_header_len" in show(f.expand(a)) for a in c.node["args"])]
        if not grows or not uses:
            raise AnalysisBroken("%s: header length update / copy not found" % name)
        for c in uses:
            if any((c.b, c.i) in f.reach((t.b, t.i + 1)) for t in grows):
                ctx.fail(r, f, "header moved with the new length", c.line,
                         "%s at line %s uses m_header_len after it was increased: it moves / offsets by old + len bytes and writes "
                         "past the 64-byte header buffer" % (c.node["fn"], c.line))
            else:
                r.ob(f, "%s line %s uses the old header length" % (c.node["fn"], c.line))


def rule_r6(ctx):
    r = ctx.rule("C17.R6", "T8", "layering: the fields of a chunk (ch_buf, ch_ptr, ch_len, ch_cap) are written only by the nni_chunk_* "
                 "primitives, whose branch structure, capacity tests and copies R2/R4 check -- a store from the message layer "
                 "(e.g. setting ch_len after making room by hand) bypasses the one place where length <= capacity is kept", floor=20)
    n = 0
    for f in ctx.prog.functions:
        if f.cfg_failed:
            continue
        for t in f.sites():
            nd = t.node
            tgt = None
            if nd.get("k") == "asg":
                tgt = nd["lhs"]
            elif nd.get("k") == "un" and nd.get("op") in ("++", "--"):
                tgt = nd["e"]
            if tgt is None or tgt.get("k") != "mem" or not (last_field(tgt) or "").startswith("nni_chunk."):
                continue
            n += 1
            if f.name.startswith("nni_chunk_") and f.file.endswith("core/message.c"):
                r.ob(f, "%s line %s" % (show(nd)[:50], t.line))
            else:
                ctx.fail(r, f, "%s written outside the chunk primitives" % last_field(tgt), t.line,
                         "%s stores to %s at line %s: only the nni_chunk_* functions keep length, data pointer and capacity "
                         "consistent; after this store the length can exceed what was allocated" % (f.name, show(tgt), t.line))
    if n < 20:
        raise AnalysisBroken("only %d stores to chunk fields found" % n)


def rule_r7(ctx):
    r = ctx.rule("C17.R7", "T3", "dup copies what it records: in nni_msg_dup the number of header bytes copied into the new message is the "
                 "header length stored in it (or the whole header buffer) -- a copy sized by anything else leaves the duplicate "
                 "with the right length and the wrong bytes", floor=1)
    f = ctx.prog.need("nni_msg_dup", "core/message.c")
    cps = [c for c in f.calls("memcpy") if len(c.node["args"]) > 2 and any(
        m.get("k") == "mem" and m.get("f") == "m_header_buf" for m in walk(f.expand(c.node["args"][0])))]
    G.need_sites(cps, "copy of the header bytes", f)
    lens = [t for t in f.assigns() if t.node["lhs"].get("k") == "mem" and t.node["lhs"].get("f") == "m_header_len"]
    G.need_sites(lens, "store of the header length", f)
    for c in cps:
        n = f.expand(c.node["args"][2])
        full = n is not None and n.get("k") == "sizeof" and "m_header_buf" in show(n)
        if full or any(same_expr(n, f.expand(t.node["rhs"])) for t in lens):
            r.ob(f, "header copy line %s sized by the recorded length" % c.line)
        else:
            ctx.fail(r, f, "header copy sized by %s" % show(n), c.line,
                     "nni_msg_dup copies %s header bytes at line %s but records m_header_len = %s: headers longer than the copy "
                     "come out zero-filled (a raw-mode backtrace of two or more hops loses its request id)"
                     % (show(n), c.line, show(f.expand(lens[0].node["rhs"]))))


# ---------------------------------------------------------------------------
# R8: a sum of two sizes is compared / allocated only while its overflow guard still holds

SIZE_MAX = 18446744073709551615


def _size_operand(f, n):
    """text of n if it is a local or a field of an unsigned size type (not a pointer, not a constant)"""
    while n is not None and n.get("k") == "cast":
        n = n["e"]
    if n is None or const_of(n) is not None:
        return None
    t = None
    if n.get("k") == "var":
        t = (f.locals().get(n["n"]) or {}).get("t")
    elif n.get("k") == "mem":
        t = n.get("t")
    if t is None or "*" in t or not any(x in t for x in ("size_t", "unsigned long", "uint64_t")):
        return None
    return show(n)


def rule_r8(ctx):
    r = ctx.rule("C17.R8", "T1", "a sum of two sizes decides nothing while it can wrap: in the chunk functions of message.c every `a + b` of "
                 "two size values is reached only through the no-overflow edge of a guard `a > SIZE_MAX - b` (either "
                 "orientation) that lies after the last assignment of a and b -- a guard taken before an operand is raised says "
                 "nothing about the sum that is then compared with the capacity, and a request near SIZE_MAX is answered "
                 "'fits' with a length the storage cannot hold", floor=4)
    prog = ctx.prog
    n = 0
    for f in prog.fns_in("core/message.c"):
        if f.cfg_failed or not f.name.startswith("nni_chunk_"):
            continue
        sums = []
        for s_ in f.sites():
            nd = s_.node
            if nd.get("k") == "bin" and nd.get("op") == "+":
                a, b = _size_operand(f, nd["lhs"]), _size_operand(f, nd["rhs"])
                if a and b:
                    sums.append((s_, a, b))
        if not sums:
            continue
        # guards: raw branch conditions  X > (SIZE_MAX - Y)  and their mirrored / negated spellings
        guards = {}        # frozenset({X, Y}) -> {block: no-overflow succ index}
        for b in f.blocks.values():
            if not b.term or len(b.succs) != 2:
                continue
            c = f.cond(b.id)
            neg = 0
            while c is not None and c.get("k") == "un" and c.get("op") == "!":
                c, neg = c["e"], neg ^ 1
            if c is None or c.get("k") != "bin" or c.get("op") not in (">", ">=", "<", "<="):
                continue
            l, rr, op = c["lhs"], c["rhs"], c["op"]

            def diff(x):
                while x is not None and x.get("k") == "cast":
                    x = x["e"]
                if x is not None and x.get("k") == "bin" and x.get("op") == "-" and const_of(x["lhs"]) == SIZE_MAX:
                    return _size_operand(f, x["rhs"])
                return None
            if diff(rr) and _size_operand(f, l):
                x, y = _size_operand(f, l), diff(rr)          # x OP MAX - y
            elif diff(l) and _size_operand(f, rr):
                x, y = _size_operand(f, rr), diff(l)          # MAX - y OP x
                op = {">": "<", ">=": "<=", "<": ">", "<=": ">="}[op]
            else:
                continue
            overflow_edge = 0 if op in (">", ">=") else 1      # edge on which x > MAX - y
            guards.setdefault(frozenset((x, y)), {})[b.id] = (1 - overflow_edge) ^ neg
        for s_, a, b in sums:
            n += 1
            g = guards.get(frozenset((a, b)))
            if not g:
                ctx.fail(r, f, "%s + %s is never tested for overflow" % (a, b), s_.line,
                         "%s computes %s + %s (line %s) and no branch compares one of them with SIZE_MAX minus the other" % (f.name, a, b, s_.line))
                continue
            # starting points after which a guard is needed: function entry and every assignment of an operand
            kills = []
            for t in f.sites():
                nd = t.node
                tgt = None
                if nd.get("k") == "asg":
                    tgt = nd["lhs"]
                elif nd.get("k") == "un" and nd.get("op") in ("++", "--"):
                    tgt = nd["e"]
                if tgt is not None and show(tgt) in (a, b):
                    kills.append((t.b, t.i + 1, t.line))

            def ok_edge(bb, k):
                return not (bb in g and g[bb] == k)
            # the sum is only reached through the guard's no-overflow edge: without those edges it is unreachable from the
            # entry and from behind every assignment
            bad = None
            if (s_.b, s_.i) in f.reach((f.entry, 0), edge_ok=ok_edge):
                bad = "from the function entry"
            for kb, ki, kl in kills:
                if (s_.b, s_.i) in f.reach((kb, ki), edge_ok=ok_edge):
                    bad = "after %s was changed at line %s" % ("an operand", kl)
            if bad:
                ctx.fail(r, f, "%s + %s used with a stale overflow guard" % (a, b), s_.line,
                         "%s reaches the sum %s + %s at line %s %s without passing the no-overflow edge of a guard on that "
                         "pair: the sum can wrap, and what it is compared with (the capacity) or what is allocated from it is "
                         "then wrong -- a size near SIZE_MAX is accepted with storage it does not fit" % (f.name, a, b, s_.line, bad))
            else:
                r.ob(f, "%s + %s (line %s) only behind its overflow guard" % (a, b, s_.line))
    if n < 4:
        raise AnalysisBroken("only %d size sums found in the chunk functions" % n)


# ---------------------------------------------------------------------------
# R9: a pointer into a message does not outlive a call that may move the message's storage

BODYPTR = ("nni_msg_body", "nng_msg_body", "nni_msg_header", "nng_msg_header")
GROWS = ("nni_msg_append", "nng_msg_append", "nni_msg_insert", "nng_msg_insert", "nni_msg_realloc", "nng_msg_realloc", "nni_msg_reserve",
         "nng_msg_reserve", "nni_msg_pull_up", "nng_msg_append_u16", "nng_msg_append_u32", "nng_msg_append_u64", "nng_msg_insert_u16",
         "nng_msg_insert_u32", "nng_msg_insert_u64", "nni_msg_append_u32", "nni_msg_header_insert_u32")


def rule_r9(ctx):
    r = ctx.rule("C17.R9", "T2", "a pointer into a message's body or header, kept in a local, is not used after a call that may move that "
                 "message's storage (append / insert / realloc / reserve / pull_up on the same message) unless it was taken again "
                 "-- the storage is reallocated when it has to grow, and a write through the old pointer lands in freed memory "
                 "while the message keeps the zero bytes it was extended with", floor=12)
    prog = ctx.prog
    n = 0
    for f in prog.functions:
        if f.cfg_failed or f.file.endswith("_test.c"):
            continue
        ptrs = {}
        for v in f.locals():
            defs = G.var_defs(f, v)
            bd = [(p_, d) for p_, d in defs if d is not None and any(m.get("k") == "call" and m.get("fn") in BODYPTR for m in walk(d))]
            if bd:
                ptrs[v] = (defs, bd)
        if not ptrs:
            continue
        n += len(ptrs)
        grows = [c for c in f.calls(GROWS) if c.node["args"]]
        for v, (defs, bd) in sorted(ptrs.items()):
            dpos = {p_ for p_, _ in defs}
            bad = None
            for g in grows:
                gm = show(f.expand(g.node["args"][0]))
                for p_, d in bd:
                    ms = [show(f.expand(m["args"][0])) for m in walk(d) if m.get("k") == "call" and m.get("fn") in BODYPTR and m.get("args")]
                    if gm not in ms or p_ == (g.b, g.i):
                        continue
                    if (g.b, g.i) not in f.reach((p_[0], p_[1] + 1), blocked=lambda b, i, e: (b, i) in dpos):
                        continue
                    after = f.reach((g.b, g.i + 1), blocked=lambda b, i, e: (b, i) in dpos)
                    uses = [t for t in f.sites() if (t.b, t.i) in after and any(m.get("k") == "var" and m["n"] == v for m in walk(t.node)) and
                            not (t.node.get("k") == "asg" and t.node["lhs"].get("k") == "var" and t.node["lhs"]["n"] == v)]
                    if uses:
                        bad = (g, uses[0])
            if bad:
                ctx.fail(r, f, "%s used after the message may have moved" % v, bad[1].line,
                         "%s takes %s from the message's storage, calls %s on that message (line %s) and uses %s afterwards "
                         "(line %s): when the call has to grow the storage the old pointer is dangling"
                         % (f.name, v, bad[0].node["fn"], bad[0].line, v, bad[1].line))
            else:
                r.ob(f, "%s (pointer into a message) is not used across a growth of that message" % v)
    if n < 12:
        raise AnalysisBroken("only %d locals pointing into messages found" % n)


# ---------------------------------------------------------------------------
# R10: taking bytes off the front of the header moves all that remains


def rule_r10(ctx):
    r = ctx.rule("C17.R10", "T11", "taking bytes off the front of the header moves all that remains: in nni_msg_header_trim and "
                 "nni_msg_header_trim_u32 the memmove that closes the gap copies exactly the remaining header length in bytes "
                 "(m_header_len after the decrement, or m_header_len - len before it) -- an element count or a constant moves "
                 "too little once the header holds more entries: the backtrace of a request that came through four or more "
                 "devices leaves the next device damaged and the reply is dropped", floor=2)
    r.own_opinion = True
    prog = ctx.prog
    n = 0
    for name in ("nni_msg_header_trim", "nni_msg_header_trim_u32"):
        f = prog.need(name, "core/message.c")
        mv = [c for c in f.calls(("memmove", "__builtin_memmove", "__builtin___memmove_chk", "memcpy"))]
        if not mv:
            raise AnalysisBroken("%s: the move that closes the gap vanished" % name)
        decs = {(t.b, t.i) for t in f.assigns() if t.node["lhs"].get("k") == "mem" and t.node["lhs"]["f"] == "m_header_len"}
        for c in mv:
            n += 1
            sz = f.expand(c.node["args"][2]) if len(c.node["args"]) > 2 else None
            sz = G.resolve(f, sz, (c.b, c.i)) if sz is not None else None
            while sz is not None and sz.get("k") == "cast":
                sz = sz["e"]
            after_dec = bool(decs) and f.dominated_by((c.b, c.i), blocked=lambda b, i, e: (b, i) in decs)
            ok = False
            if sz is not None and sz.get("k") == "mem" and sz["f"] == "m_header_len" and after_dec:
                ok = True
            if sz is not None and sz.get("k") == "bin" and sz.get("op") == "-" and sz["lhs"].get("k") == "mem" and \
                    sz["lhs"]["f"] == "m_header_len" and not after_dec:
                ok = True
            if ok:
                r.ob(f, "moves %s bytes" % show(sz))
            else:
                ctx.fail(r, f, "gap closed with the wrong number of bytes", c.line,
                         "%s moves %s bytes (line %s), not the header length that remains: entries behind that are left where "
                         "they were, and the header read back is not the header that was there" % (name, show(sz) if sz else "?", c.line))
    if n < 2:
        raise AnalysisBroken("only %d header moves found" % n)


# ---------------------------------------------------------------------------
# R11: the byte-assembling macros shift in the width of the value they assemble


def rule_r11(ctx):
    r = ctx.rule("C17.R11", "T11", "a value is assembled from bytes in its own width: in every expansion of NNI_GET64 each shift is "
                 "evaluated in a 64-bit unsigned type, and in every expansion of NNI_GET32 in an unsigned type -- a "
                 "byte shifted as the int it was promoted to turns negative when its top bit is set (byte << 24) and "
                 "sign-extends into the upper half of the sum: every 64-bit word with bit 31 set decodes as v - 2^32", floor=12)
    r.own_opinion = True
    prog = ctx.prog
    n = 0
    for f in prog.functions:
        if f.cfg_failed or f.file.endswith("_test.c"):
            continue
        for t in f.sites():
            if f.blocks[t.b].elems[t.i] is not t.node:
                continue
            macros = set(t.node.get("m") or [])
            want = None
            if "NNI_GET64" in macros:
                want = 64
            elif "NNI_GET32" in macros:
                want = 32          # (NNI_GET16 shifts a byte by 8: the int it is promoted to is wide enough)
            if want is None:
                continue
            for m in walk(t.node):
                if m.get("k") == "bin" and m.get("op") == "<<":
                    n += 1
                    ty = m.get("t") or ""
                    good = ty.startswith("unsigned") and (want == 32 or "long" in ty)
                    if good:
                        r.ob(f, "shift in %s evaluated as %s" % (sorted(macros)[0], ty))
                    else:
                        ctx.fail(r, f, "shift evaluated as %s inside %s" % (ty or "?", sorted(macros)[0]), t.line,
                                 "%s (line %s): a byte of the %d-bit value is shifted in the type %s: with its top bit set the "
                                 "partial result is negative (or too narrow) and corrupts the higher-order bytes of the sum"
                                 % (f.name, t.line, want, ty or "?"))
    if n < 12:
        raise AnalysisBroken("only %d shifts inside NNI_GET* expansions found" % n)


def run(ctx):
    ctx.guard(rule_r1)
    ctx.guard(rule_r2)
    ctx.guard(rule_r3)
    ctx.guard(rule_r4)
    ctx.guard(rule_r5)
    ctx.guard(rule_r6)
    ctx.guard(rule_r7)
    ctx.guard(rule_r8)
    ctx.guard(rule_r9)
    ctx.guard(rule_r10)
    ctx.guard(rule_r11)
