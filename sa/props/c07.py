"""C07 -- SURVEY: only responses to the current survey, only before its deadline."""
from ..core import walk, show, const_of, last_field, truth_of, apath, is_null, AnalysisBroken, same_expr
from .. import guards as G
from ..hops import check_hop_loop, HOP_FUNCS
from . import c04

EXPLANATION = ("C07: responses are delivered only after a successful lookup of the survey id and when the context can take "
               "them; a new survey aborts the old one (all parked receives finished, buffered responses flushed, id retired) "
               "before a new id is allocated; every receive passes the deadline / no-survey test before it is served or "
               "parked and is clamped to the survey deadline; the respondent side records and clears its routing state like "
               "rep0 and obeys the shared hop-loop facts.")
EXPLANATION += ' Round 5: the deadline clamp covers the absolute-expiry mode of an aio (R7).'
EXPLANATION += " Round 6: the deadline is computed from the surveying context's own survey time, not from the socket's own context (R9 = C12.R4b); unmatched responses are discarded without closing the pipe and the respondent's routing state is written only on the receive path (SR9, SR10)."

is_call = c04.is_call
fld = c04.fld


def rule_r1(ctx):
    r = ctx.rule("C07.R1", "T1", "surv0_pipe_recv_cb: a response is delivered (completed on a parked receive or queued) only on "
                 "the edges nni_id_get(&sock->surveys, id) != NULL and !nni_lmq_full; other paths free it; short messages "
                 "are rejected before the id is read", floor=5)
    f = ctx.prog.need("surv0_pipe_recv_cb", "survey0/survey.c")
    deliver = [s for s in f.calls(("nni_aio_finish_msg", "nni_lmq_put"))]
    G.need_sites(deliver, "delivery", f)
    lookup = G.cond_edges(f, is_call("nni_id_get"), want_nonzero=True)
    notfull = G.cond_edges(f, is_call("nni_lmq_full"), want_nonzero=False)
    for name, cut in (("nni_id_get(&sock->surveys, id) != NULL", lookup), ("!nni_lmq_full(&ctx->recv_lmq)", notfull)):
        if not cut:
            ctx.fail(r, f, "guard %s missing" % name.split("(")[0], f.line, "surv0_pipe_recv_cb no longer tests %s" % name)
            continue
        for s in deliver:
            if G.dominated(f, (s.b, s.i), cut):
                r.ob(f, "delivery line %s dominated by %s" % (s.line, name))
            else:
                ctx.fail(r, f, "delivery not guarded by %s" % name.split("(")[0], s.line,
                         "a response is delivered without passing the edge %s" % name,
                         G.path_lines(f, (f.entry, 0), (s.b, s.i), cut))
    trims = G.need_sites([s for s in f.calls("nni_msg_trim_u32")], "nni_msg_trim_u32", f)
    lenok = G.cmp_edges(f, is_call("nni_msg_len"), {"<": 1, ">=": 0})
    for s in trims:
        if lenok and G.dominated(f, (s.b, s.i), lenok):
            r.ob(f, "id read dominated by len >= 4")
        else:
            ctx.fail(r, f, "id read without length test", s.line, "the survey id is trimmed from a message whose length was not tested")


def rule_r2(ctx):
    r = ctx.rule("C07.R2", "T3", "a new survey aborts the old one: surv0_ctx_abort dominates the id allocation in surv0_ctx_send; "
                 "surv0_ctx_abort finishes every parked receive, flushes the buffered responses and retires the old id on "
                 "every path", floor=4)
    prog = ctx.prog
    s_ = prog.need("surv0_ctx_send", "survey0/survey.c")
    ab = G.need_sites(G.calls(s_, "surv0_ctx_abort"), "surv0_ctx_abort call", s_)
    for a in G.need_sites(G.calls(s_, "nni_id_alloc32"), "nni_id_alloc32", s_):
        if G.reaches(s_, (s_.entry, 0), [(a.b, a.i)], blocked=G.positions(ab)):
            ctx.fail(r, s_, "new survey id without abort", a.line, "a new survey id is allocated without aborting the previous survey")
        else:
            r.ob(s_, "abort dominates id allocation")
    f = prog.need("surv0_ctx_abort", "survey0/survey.c")
    flush = G.calls(f, "nni_lmq_flush", "recv_lmq")
    if not flush or G.must_pass(f, (f.entry, 0), G.positions(flush)):
        ctx.fail(r, f, "buffered responses kept", f.line,
                 "surv0_ctx_abort can return without nni_lmq_flush(&ctx->recv_lmq): responses to the previous survey stay "
                 "queued and are delivered as answers to the next one",
                 G.path_lines(f, (f.entry, 0), (f.exit, 0), None, G.positions(flush)))
    else:
        r.ob(f, "recv_lmq flushed on every path")
    rem = G.calls(f, "nni_id_remove", "surveys")
    has_id = G.cond_edges(f, fld("survey_id"), want_nonzero=True)
    if not rem or not has_id or G.must_pass(f, (f.entry, 0), G.positions(rem), cut={b: 1 - k for b, k in has_id.items()}):
        ctx.fail(r, f, "old survey id kept", f.line, "surv0_ctx_abort can return with survey_id != 0 still registered")
    else:
        r.ob(f, "old id retired whenever survey_id != 0")
    # parked receives: loop over recv_queue finishing each
    fins = [x for x in f.calls("nni_aio_finish_error")]
    takes = [t for t in f.assigns() if "recv_queue" in show(f.expand(t.node["rhs"]))]
    if fins and takes and not G.must_pass(f, (f.entry, 0), {(t.b, t.i) for t in takes}):
        r.ob(f, "parked receives drained on every path")
    else:
        ctx.fail(r, f, "parked receives not drained", f.line, "surv0_ctx_abort no longer drains ctx->recv_queue on every path")


def rule_r3(ctx):
    r = ctx.rule("C07.R3", "T2", "deadline: in surv0_ctx_recv every receive passes the test (survey_id == 0 || now >= expire) "
                 "before it is served or parked, the aio's expiry is clamped to ctx->expire before nni_aio_start, and "
                 "ctx->expire is written only by surv0_ctx_send", floor=5)
    prog = ctx.prog
    f = prog.need("surv0_ctx_recv", "survey0/survey.c")
    live_id = G.cond_edges(f, fld("survey_id"), want_nonzero=True)
    # now >= ctx->expire : edge on which the deadline has NOT passed
    in_time = {}
    for b in f.blocks.values():
        c = f.cond(b.id) if b.term and len(b.succs) == 2 else None
        if c is not None and c.get("k") == "bin" and c.get("op") in (">=", "<", ">", "<=") and \
                c["lhs"].get("k") == "var" and G.field_is(c["rhs"], "expire"):
            in_time[b.id] = {">=": 1, ">": 1, "<": 0, "<=": 0}[c["op"]]
    acts = [s for s in f.calls(("nni_aio_start", "nni_lmq_get", "nni_aio_finish_msg", "nni_list_append"))]
    G.need_sites(acts, "serve/park sites", f)
    for name, cut in (("survey_id != 0", live_id), ("now < ctx->expire", in_time)):
        if not cut:
            ctx.fail(r, f, "test %s missing" % name, f.line, "surv0_ctx_recv no longer tests %s" % name)
            continue
        for s in acts:
            if G.dominated(f, (s.b, s.i), cut):
                r.ob(f, "%s line %s dominated by %s" % (s.node["fn"], s.line, name))
            else:
                ctx.fail(r, f, "%s without %s" % (s.node["fn"], name), s.line,
                         "%s at line %s is reachable without passing the edge %s: a response can be delivered (or a receive "
                         "parked) after the survey's deadline / with no survey outstanding" % (s.node["fn"], s.line, name),
                         G.path_lines(f, (f.entry, 0), (s.b, s.i), cut))
    # clamp
    clamps = G.calls(f, "nni_aio_set_expire")
    starts = G.calls(f, "nni_aio_start")
    if not clamps:
        ctx.fail(r, f, "no deadline clamp", f.line, "surv0_ctx_recv no longer calls nni_aio_set_expire(aio, ctx->expire)")
    else:
        # the decision block that guards the clamp dominates every start
        dec = set()
        for c in clamps:
            for b in f.blocks.values():
                if b.term and len(b.succs) == 2 and c.b in [x for x in b.succs if x is not None]:
                    cnd = f.cond(b.id)
                    if cnd is not None and "expire" in show(cnd) or (cnd is not None and "timeout" in show(cnd)):
                        dec.add((b.id, max(len(b.elems) - 1, 0)))
        for s in starts:
            if dec and not G.reaches(f, (f.entry, 0), [(s.b, s.i)], blocked=dec | G.positions(clamps)):
                r.ob(f, "nni_aio_start line %s preceded by the clamp decision" % s.line)
            else:
                ctx.fail(r, f, "start without deadline clamp", s.line,
                         "nni_aio_start is reachable without passing the decision that clamps the receive to the survey deadline")
        for c in clamps:
            a1 = f.expand(c.node["args"][1]) if len(c.node["args"]) > 1 else None
            if a1 is not None and G.field_is(a1, "expire"):
                r.ob(f, "clamp uses ctx->expire")
            else:
                ctx.fail(r, f, "clamp value", c.line, "the receive is clamped to %s, not to ctx->expire" % show(a1))
    for g in prog.fns_in("survey0/survey.c"):
        for s in G.stores(g, "expire"):
            if g.name not in ("surv0_ctx_send", "surv0_ctx_init"):
                ctx.fail(r, g, "expire written outside surv0_ctx_send", s.line, "%s writes the survey deadline" % g.name)
            else:
                r.ob(g, "ctx->expire written by %s" % g.name)


def rule_r5(ctx):
    r = ctx.rule("C07.H", "T9", "backtrace loops of respondent0 / xrespondent0: shared hop-loop facts", floor=16)
    for name, file, raw in HOP_FUNCS[2:]:
        check_hop_loop(ctx, r, ctx.prog.need(name, file), raw)


# ---------------------------------------------------------------------------
# R7: the survey deadline limits a receive however the aio carries its own time limit

def rule_r7(ctx):
    r = ctx.rule("C07.R7", "T3", "an aio carries its time limit either as a relative timeout or as an absolute expiry (nni_aio_start uses "
                 "the absolute one alone when a_use_expire is set): a function outside aio.c that reads the relative timeout "
                 "(nni_aio_get_timeout) to decide whether it must pull the operation's limit in to a deadline also looks at the "
                 "absolute mode -- otherwise an aio armed with nng_aio_set_expire escapes the deadline and a response that "
                 "arrives after the survey has expired is delivered", floor=1)
    prog = ctx.prog
    start = prog.need("nni_aio_start", "core/aio.c")
    if not any(m.get("k") == "mem" and m.get("f") == "a_use_expire" for t in start.sites() for m in walk(t.node)):
        raise AnalysisBroken("nni_aio_start no longer distinguishes the absolute expiry (a_use_expire)")
    n = 0
    for f in prog.functions:
        if f.cfg_failed or f.file.endswith(("core/aio.c", "_test.c")) or f.file.endswith("/nng.c"):
            continue
        gets = list(f.calls("nni_aio_get_timeout"))
        if not gets:
            continue
        n += 1
        clamps = list(f.calls("nni_aio_set_expire"))
        # the absolute mode is handled: some clamp is made on the edge on which a_use_expire is known to be set (or the
        # decision is delegated to an aio.c helper that knows both modes)
        reads_mode = any(c.node.get("fn") in ("nni_aio_get_expire", "nni_aio_limit_expire") for c in f.calls())
        for bid, k, atom, val in G.edge_facts(f):
            if val and atom.get("k") == "mem" and atom.get("f") == "a_use_expire" and any(
                    G.dominated(f, (c.b, c.i), {bid: k}) for c in clamps):
                reads_mode = True
        if clamps and not reads_mode:
            ctx.fail(r, f, "deadline clamp decided on the relative timeout alone", gets[0].line,
                     "%s decides from nni_aio_get_timeout (line %s) whether to pull the operation in to its deadline "
                     "(nni_aio_set_expire line %s) and never looks at the absolute mode: an aio armed with nng_aio_set_expire "
                     "keeps its later expiry and outlives the deadline" % (f.name, gets[0].line, clamps[0].line))
        else:
            r.ob(f, "%s reads the relative timeout and %s" % (f.name, "the absolute mode too" if reads_mode else "does not clamp"))
    if n < 1:
        raise AnalysisBroken("nobody reads an aio's timeout any more (nni_aio_get_timeout)")


# ---------------------------------------------------------------------------
# R8: nni_aio_start leaves an absolute expiry where the caller put it (or earlier)

def rule_r8(ctx):
    r = ctx.rule("C07.R8", "T1", "the deadline a protocol sets with nni_aio_set_expire is the latest moment the operation may end: in "
                 "nni_aio_start a store to a_expire that can be reached with a_use_expire set is made only on an edge that has "
                 "established the new value to be earlier than the old one -- replaced by `now + timeout` otherwise, a receive "
                 "with a long timeout outlives the survey's deadline and late responses are delivered", floor=1)
    f = ctx.prog.need("nni_aio_start", "core/aio.c")
    rel = {}
    facts = G.edge_facts(f)
    clear = {}
    for bid, k, atom, val in facts:
        if atom.get("k") == "mem" and atom.get("f") == "a_use_expire" and not val:
            clear[bid] = k
    n = 0
    for t in f.assigns():
        l = t.node["lhs"]
        if l.get("k") != "mem" or l.get("f") != "a_expire":
            continue
        n += 1
        if clear and G.dominated(f, (t.b, t.i), clear):
            r.ob(f, "a_expire computed at line %s only when no absolute expiry was given" % t.line)
            continue
        rhs = show(f.expand(t.node["rhs"]))
        earlier = G.rel_edges(f, lambda x: show(x) == rhs, lambda x: x.get("k") == "mem" and x.get("f") == "a_expire", "<")
        earlier.update(G.rel_edges(f, lambda x: show(x) == rhs, lambda x: x.get("k") == "mem" and x.get("f") == "a_expire", "<="))
        if earlier and G.dominated(f, (t.b, t.i), earlier):
            r.ob(f, "a_expire replaced at line %s only by an earlier time" % t.line)
        else:
            ctx.fail(r, f, "absolute expiry replaced", t.line,
                     "nni_aio_start stores %s into a_expire at line %s on a path on which a_use_expire can be set and which has not "
                     "established that the new time is earlier: the deadline the caller gave is pushed back" % (rhs, t.line))
    if n < 1:
        raise AnalysisBroken("nni_aio_start no longer computes a_expire")


def run(ctx):
    ctx.guard(rule_r1)
    ctx.guard(rule_r2)
    ctx.guard(rule_r3)
    c04.rule_r5.__wrapped__ = None
    # respondent routing state (same rule body as C04.R5 / R4, reported under C07)
    r4 = ctx.rule  # noqa
    ctx.guard(c04.rule_r2)
    ctx.guard(c04.rule_r4)
    ctx.guard(c04.rule_r5)
    ctx.guard(c04.rule_r9)
    ctx.guard(c04.rule_r10)
    for rr in ctx.rules:
        if rr.id.startswith("C04."):
            rr.id = rr.id.replace("C04.", "C07.S")
    ctx.guard(rule_r5)
    ctx.guard(rule_r7)
    ctx.guard(rule_r8)
    from . import c12
    ctx.guard(c12.rule_r4)           # the deadline is computed from the surveying context's own survey time
    for rr in ctx.rules:
        if rr.id == "C12.R4":
            rr.id = "C07.R9"
