"""C05 -- PUB/SUB: delivery iff a current subscription prefixes the body."""
from ..core import walk, show, const_of, last_field, truth_of, apath, is_null, AnalysisBroken, same_expr
from .. import guards as G
from . import c04

EXPLANATION = ("C05: in sub0_recv_cb every hand-off to a context is dominated by sub0_matches(ctx, body, len) on the body and "
               "length of the delivered message, and the per-context policy (prefer_new, lmq, recv_queue) is read from that "
               "context; subscribe and unsubscribe look topics up with the same exact (length and bytes) comparison; "
               "unsubscribe re-filters the whole queue keeping the matching messages in order; a full buffer costs exactly one "
               "message; pub0_sock_send never parks or starts the aio and completes it on every path. Whether sub0_matches is "
               "prefix matching is a statement about memcmp over runtime bytes and is not decided."
               " Also: the subscription scan looks at every topic until one matches (R5).")
EXPLANATION += ' Round 6: the delivery loop over the contexts visits every context (R8 = C12.R9).'


def rule_r1(ctx):
    r = ctx.rule("C05.R1", "T1", "match guards delivery: every hand-off of the received message to a context in sub0_recv_cb is "
                 "dominated by the true edge of sub0_matches(ctx, body, len) with body/len taken from that message; per-context "
                 "policy fields are read from the context", floor=6)
    f = ctx.prog.need("sub0_recv_cb", "pubsub0/sub.c")
    m = G.need_sites([s for s in f.calls("sub0_matches")], "sub0_matches", f)
    matched = {}
    for s in m:
        for b, (nz, z) in f.value_edges(s).items():
            matched[b] = nz
    hand = [s for s in f.calls(("nni_lmq_put",)) if "lmq" in show(f.expand(s.node["args"][0]))] + \
           [s for s in f.calls("nni_aio_set_msg") if "aio_recv" not in show(f.expand(s.node["args"][0])) and
            not is_null(f.expand(s.node["args"][1]))]
    G.need_sites(hand, "hand-off sites", f)
    for s in hand:
        if matched and G.dominated(f, (s.b, s.i), matched):
            r.ob(f, "%s line %s dominated by sub0_matches(...)" % (s.node["fn"], s.line))
        else:
            ctx.fail(r, f, "%s without a match" % s.node["fn"], s.line,
                     "the message is handed to a context without passing the true edge of sub0_matches: unsubscribed data "
                     "can be delivered", G.path_lines(f, (f.entry, 0), (s.b, s.i), matched))
    # arguments of the match: body and length of the message being delivered
    for s in m:
        a = [f.expand(x) for x in s.node["args"]]
        ok = len(a) == 3 and a[0].get("k") == "var"
        srcs = {}
        for t in f.assigns():
            if t.node["lhs"].get("k") == "var":
                srcs.setdefault(t.node["lhs"]["n"], []).append(show(f.expand(t.node["rhs"])))
        b_ok = ok and a[1].get("k") == "var" and any("nni_msg_body(msg)" in x for x in srcs.get(a[1]["n"], []))
        l_ok = ok and a[2].get("k") == "var" and any("nni_msg_len(msg)" in x for x in srcs.get(a[2]["n"], []))
        if b_ok and l_ok:
            r.ob(f, "sub0_matches(ctx, nni_msg_body(msg), nni_msg_len(msg))")
        else:
            ctx.fail(r, f, "match arguments", s.line, "sub0_matches is not applied to the body and length of the received message: %s" % show(s.node))
    # policy fields come from the context
    for s in f.sites():
        n = s.node
        if n.get("k") == "mem" and n["f"] in ("prefer_new", "lmq", "recv_queue", "topics"):
            if n.get("rec") == "sub0_ctx":
                r.ob(f, "%s read from the context (line %s)" % (n["f"], s.line))
            else:
                ctx.fail(r, f, "%s read from %s" % (n["f"], n.get("rec")), s.line,
                         "inside the per-context delivery loop %s is read from %s instead of the context being served: "
                         "contexts no longer filter / drop independently" % (n["f"], show(n)))


def rule_r2(ctx):
    r = ctx.rule("C05.R2", "T9", "topic lookup agreement and re-filter: subscribe (duplicate test) and unsubscribe (removal) compare "
                 "the topic length with != and the bytes with memcmp over the same length; unsubscribe walks the whole queue, "
                 "re-queues the messages that still match and frees the others", floor=6)
    prog = ctx.prog
    forms = {}
    for name in ("sub0_ctx_subscribe", "sub0_ctx_unsubscribe"):
        f = prog.need(name, "pubsub0/sub.c")
        lens = []
        for b in f.blocks.values():
            c = f.cond(b.id) if b.term and len(b.succs) == 2 else None
            if c is not None and c.get("k") == "bin" and "topic->len" in show(c) and "sz" in show(c):
                lens.append((c["op"], b.id))
        cmps = [s for s in f.calls("memcmp")]
        forms[name] = (sorted(op for op, _ in lens), [show(f.expand(s.node["args"][2])) for s in cmps])
        if not lens or not cmps:
            ctx.fail(r, f, "topic comparison missing", f.line, "%s no longer compares topic length and bytes" % name)
            continue
        for op, b in lens:
            if op in ("!=", "=="):
                r.ob(f, "topic->len %s sz" % op)
            else:
                ctx.fail(r, f, "topic length compared with %s" % op, f.line_of(b, 0),
                         "%s compares the stored topic's length with '%s': a topic that merely shares a prefix is treated as "
                         "the same subscription" % (name, op))
        for s in cmps:
            if show(f.expand(s.node["args"][2])) == "sz":
                r.ob(f, "memcmp over sz bytes")
            else:
                ctx.fail(r, f, "memcmp length", s.line, "%s compares %s bytes, expected sz" % (name, show(f.expand(s.node["args"][2]))))
    if len(forms) == 2 and forms["sub0_ctx_subscribe"] != forms["sub0_ctx_unsubscribe"]:
        ctx.fail(r, prog.fn("sub0_ctx_unsubscribe"), "subscribe / unsubscribe disagree", 0,
                 "the two topic lookups differ: subscribe %s, unsubscribe %s" % (forms["sub0_ctx_subscribe"], forms["sub0_ctx_unsubscribe"]))
    f = prog.need("sub0_ctx_unsubscribe", "pubsub0/sub.c")
    gets = [s for s in f.calls("nni_lmq_get")]
    puts = [s for s in f.calls("nni_lmq_put")]
    frees = [s for s in f.calls("nni_msg_free")]
    m = [s for s in f.calls("sub0_matches")]
    lens = [s for s in f.calls("nni_lmq_len")]
    if not (gets and puts and frees and m and lens):
        ctx.fail(r, f, "re-filter incomplete", f.line, "unsubscribe no longer walks the queue with get / match / put-or-free")
        return
    matched = {}
    for s in m:
        for b, (nz, z) in f.value_edges(s).items():
            matched[b] = nz
    okp = all(G.dominated(f, (s.b, s.i), matched) for s in puts)
    okf = all(G.dominated(f, (s.b, s.i), {b: 1 - k for b, k in matched.items()}) for s in frees)
    if okp and okf:
        r.ob(f, "matching messages re-queued, others freed")
    else:
        ctx.fail(r, f, "re-filter polarity", puts[0].line, "unsubscribe re-queues on the non-matching edge or frees matching messages")
    # loop bound: iterates nni_lmq_len(&ctx->lmq) times taken before the loop
    bound = any(t.node["lhs"].get("k") == "var" and "nni_lmq_len" in show(f.expand(t.node["rhs"])) for t in f.assigns())
    if bound:
        r.ob(f, "loop runs over the queue length sampled before the loop")
    else:
        ctx.fail(r, f, "loop bound", f.line, "the re-filter loop is no longer bounded by the queue length sampled before it")


def rule_r3(ctx):
    r = ctx.rule("C05.R3", "T1", "one drop per arrival: with a full buffer a context that does not prefer new messages is skipped "
                 "before any copy is made; otherwise exactly one old message is taken and freed before the put", floor=3)
    f = ctx.prog.need("sub0_recv_cb", "pubsub0/sub.c")
    dups = [s for s in f.calls("nni_msg_dup")]
    full = G.cond_edges(f, c04.is_call("nni_lmq_full"), want_nonzero=True)
    pref = G.cond_edges(f, lambda n: n.get("k") == "mem" and n["f"] == "prefer_new", want_nonzero=False)
    if not full or not pref:
        ctx.fail(r, f, "drop policy test missing", f.line, "sub0_recv_cb no longer tests nni_lmq_full && !prefer_new")
        return
    # skip edge: full && !prefer_new  -> no dup, no put reachable within the iteration
    # (the iteration ends at the list-next / loop head; we check that the both-true edge does not reach a dup
    #  before reaching sub0_matches again)
    m = G.positions(f.calls("sub0_matches"))
    bad = False
    for b, k in pref.items():
        # this block must be the continuation of a full-test
        if not any(f.blocks[fb].succs[fk] == b for fb, fk in full.items()):
            continue
        tgt = f.blocks[b].succs[k]
        if tgt is not None and G.reaches(f, (tgt, 0), G.positions(dups) | G.positions(f.calls("nni_lmq_put")), blocked=m):
            bad = True
    if bad:
        ctx.fail(r, f, "drop-new context still served", f.line, "a full context that prefers old messages still gets a copy")
    else:
        r.ob(f, "full && !prefer_new: context skipped before any copy")
    # prefer_new path: one get + free before the put on the full edge
    puts = [s for s in f.calls("nni_lmq_put")]
    gets = [s for s in f.calls("nni_lmq_get")]
    frees = [s for s in f.calls("nni_msg_free")]
    ok = False
    for b, k in full.items():
        tgt = f.blocks[b].succs[k]
        if tgt is None:
            continue
        seen = f.reach((tgt, 0), blocked=lambda bb, ii, e: (bb, ii) in G.positions(puts))
        g_here = [s for s in gets if (s.b, s.i) in seen]
        f_here = [s for s in frees if (s.b, s.i) in seen]
        if g_here and f_here:
            ok = True
    if ok:
        r.ob(f, "full && prefer_new: one old message taken and freed before the put")
    else:
        ctx.fail(r, f, "no make-room step", f.line, "on the full edge no old message is taken out and freed before the new one is queued")
    r.ob(f, "drop policy read from the context (see C05.R1)")


def rule_r4(ctx):
    r = ctx.rule("C05.R4", "T6", "PUB send never blocks: pub0_sock_send contains no nni_aio_start and no park and completes the aio "
                 "on every path", floor=2)
    f = ctx.prog.need("pub0_sock_send", "pubsub0/pub.c")
    if [s for s in f.calls("nni_aio_start")]:
        ctx.fail(r, f, "pub send starts the aio", f.line, "pub0_sock_send calls nni_aio_start: a non-blocking publish could be refused")
    else:
        r.ob(f, "no nni_aio_start")
    fins = G.positions(f.calls(("nni_aio_finish", "nni_aio_finish_sync", "nni_aio_finish_error")))
    if not fins or G.must_pass(f, (f.entry, 0), fins):
        ctx.fail(r, f, "pub send may not complete", f.line, "pub0_sock_send can return without completing the aio")
    else:
        r.ob(f, "aio completed on every path")


def rule_r5(ctx):
    r = ctx.rule("C05.R5", "T2", "the subscription scan looks at every topic: inside the loop over ctx->topics in sub0_matches the "
                 "only way out, other than the next iteration, is the match (return true); a topic that does not match never ends "
                 "the scan", floor=2)
    f = ctx.prog.need("sub0_matches", "pubsub0/sub.c")
    hdr = None
    for b in f.blocks.values():
        c = f.cond(b.id) if b.term and len(b.succs) == 2 else None
        if c is None or b.term.get("kind") not in ("ForStmt", "WhileStmt"):
            continue
        if c.get("k") == "bin" and c["op"] == "!=" and c["lhs"].get("k") == "var" and const_of(c["rhs"]) == 0:
            hdr = (b.id, c["lhs"]["n"])
    if hdr is None:
        raise AnalysisBroken("sub0_matches: topic loop not found")
    hb, var = hdr
    steps = {(s.b, s.i) for s in f.assigns() if s.node["lhs"].get("k") == "var" and s.node["lhs"]["n"] == var and
             "nni_list_next" in show(f.expand(s.node["rhs"]))}
    if not steps:
        raise AnalysisBroken("sub0_matches: loop step (nni_list_next) not found")
    hits = set()
    for s in f.sites():
        if s.node.get("k") == "ret" and s.node.get("e") is not None:
            v = const_of(f.expand(s.node["e"]))
            if v is not None and v != 0:
                hits.add((s.b, s.i))
    if not hits:
        ctx.fail(r, f, "no match exit", f.line, "sub0_matches never returns true from inside the scan")
        return
    r.ob(f, "match exit inside the scan")
    body = (f.blocks[hb].succs[0], 0)
    after = f.blocks[hb].succs[1]
    seen = f.reach(body, blocked=lambda b, i, e: (b, i) in steps or (b, i) in hits or b == hb)
    early = [(b, i) for (b, i) in seen if (b, i) == (f.exit, 0) or (after is not None and (b, i) == (after, 0))]
    if early:
        path = f.find_path(body, lambda b, i: (b, i) == early[0], blocked=lambda b, i, e: (b, i) in steps or (b, i) in hits or b == hb)
        ctx.fail(r, f, "scan abandoned on a non-matching topic", f.line_of(hb, 0),
                 "a path through the body of the topic loop leaves the loop without a match and without moving to the next "
                 "topic: subscriptions that come later in the list are never tried, and a message they prefix is not delivered",
                 f.path_lines(path))
    else:
        r.ob(f, "a non-matching topic always leads to the next topic")


# ---------------------------------------------------------------------------
# R7: a pump asks for the next message only when it has disposed of the one in hand

def rule_r7(ctx):
    from ..core import strip_addr
    r = ctx.rule("C05.R7", "T2", "messages of one connection are handled one at a time: a protocol's receive callback re-arms its own aio "
                 "(nni_pipe_recv) either while it holds the protocol's lock or after the last hand-over of the message it has "
                 "taken off that aio -- re-armed earlier and without a lock, the callback for the next message runs on another "
                 "thread while this one is still being queued, and one publisher's messages are delivered out of order", floor=12)
    prog = ctx.prog
    cbs = {}
    for (f, aioexpr, cbname, arg, site) in prog.aio_callbacks():
        lf = last_field(strip_addr(aioexpr)) if aioexpr is not None else None
        cbs.setdefault(cbname, set()).add(lf)
    n = 0
    for cbname, fields in sorted(cbs.items()):
        fn = prog.fn(cbname)
        if fn is None or fn.cfg_failed or "/sp/protocol/" not in "/" + fn.file:
            continue
        locks = [(c.b, c.i) for c in fn.calls("nni_mtx_lock")]
        unl = {(c.b, c.i) for c in fn.calls("nni_mtx_unlock")}
        mv = {v for v in fn.locals() if any(d is not None and any(m.get("k") == "call" and m.get("fn") == "nni_aio_get_msg" for m in walk(d))
                                             for _, d in G.var_defs(fn, v))}
        for R in fn.calls("nni_pipe_recv"):
            a = strip_addr(fn.expand(R.node["args"][1])) if len(R.node["args"]) > 1 else None
            if a is None or last_field(a) not in fields:
                continue
            n += 1
            held = any((R.b, R.i) in fn.reach((l[0], l[1] + 1), blocked=lambda b, i, e: (b, i) in unl) for l in locks)
            after = fn.reach((R.b, R.i + 1))
            hand = [c for c in fn.calls() if (c.b, c.i) in after and c.node.get("fn") != "nni_msg_free" and any(
                x is not None and fn.expand(x).get("k") == "var" and fn.expand(x)["n"] in mv for x in c.node["args"])]
            if hand and not held:
                ctx.fail(r, fn, "receive re-armed before the message in hand is disposed of", R.line,
                         "%s calls nni_pipe_recv on its own aio at line %s, holds no lock, and hands the message on afterwards "
                         "(%s line %s): the next message's callback can overtake this one on another thread"
                         % (fn.name, R.line, hand[0].node["fn"], hand[0].line))
            else:
                r.ob(fn, "re-arm line %s %s" % (R.line, "under the protocol's lock" if held else "after the last hand-over"))
    if n < 12:
        raise AnalysisBroken("only %d re-arms of protocol receive aios found" % n)


def run(ctx):
    ctx.guard(rule_r1)
    ctx.guard(rule_r2)
    ctx.guard(rule_r3)
    ctx.guard(rule_r4)
    ctx.guard(rule_r5)
    ctx.guard(rule_r7)
    from . import c12
    ctx.guard(c12.rule_r9)           # every context is offered the message: the delivery loop has no early exit
    for rr in ctx.rules:
        if rr.id == "C12.R9":
            rr.id = "C05.R8"
