"""C04 -- REQ/REP: replies reach only the matching outstanding request."""
from ..core import strip_addr, walk, show, const_of, last_field, truth_of, apath, is_null, AnalysisBroken, same_expr
from .. import guards as G
from ..hops import check_hop_loop, HOP_FUNCS

EXPLANATION = ("C04: in req0_recv_cb delivery is dominated by the id lookup and the state tests and preceded by the id "
               "removal; req0_ctx_reset retires the id whenever one is registered; a new send resets before allocating; "
               "cancel paths reset; state errors are answered before anything is parked; rep0 captures backtrace and pipe "
               "before handing the request up and clears them on every path of a send; raw xrep routes by the popped "
               "header word only after the length test; the backtrace loops of rep/xrep obey the shared hop-loop facts."
               " Also: cooked send slots clear the header before they compose it (R2); an id is removed from its map with the live value, not after the field was zeroed (R7).")
EXPLANATION += ' Round 6: an unmatched reply is discarded, not punished by closing the pipe (R9); the routing state of a replying context is written only where a request is taken from a pipe (R10).'


def is_call(name):
    return lambda n: n.get("k") == "call" and n.get("fn") == name


def fld(name):
    return lambda n: n.get("k") == "mem" and n["f"] == name


def rule_r1(ctx):
    r = ctx.rule("C04.R1", "T1", "req0_recv_cb: a reply is delivered (stored in rep_msg or completed on recv_aio) only after a "
                 "successful lookup of its id, with no send pending and no reply stored; the id is removed first; short "
                 "messages are rejected before the id is read", floor=8)
    f = ctx.prog.need("req0_recv_cb", "reqrep0/req.c")
    deliver = G.stores(f, "rep_msg", "nonnull")
    fin = [s for s in f.calls(("nni_aio_finish_sync", "nni_aio_finish", "nni_aio_finish_msg"))]
    G.need_sites(deliver, "store to rep_msg", f)
    G.need_sites(fin, "completion of recv_aio", f)
    lookup = G.cond_edges(f, is_call("nni_id_get"), want_nonzero=True)
    nosend = G.cond_edges(f, fld("send_aio"), want_nonzero=False)
    norep = G.cond_edges(f, fld("rep_msg"), want_nonzero=False)
    for name, cut in (("nni_id_get(&s->requests, id) != NULL", lookup), ("ctx->send_aio == NULL", nosend),
                      ("ctx->rep_msg == NULL", norep)):
        if not cut:
            ctx.fail(r, f, "guard %s missing" % name.split("(")[0], f.line, "req0_recv_cb no longer tests %s" % name)
            continue
        for s in deliver + fin:
            if G.dominated(f, (s.b, s.i), cut):
                r.ob(f, "delivery line %s dominated by %s" % (s.line, name))
            else:
                ctx.fail(r, f, "delivery not guarded by %s" % name.split("(")[0].replace("ctx->", ""), s.line,
                         "the reply is delivered at line %s on a path that does not pass the edge %s"
                         % (s.line, name), G.path_lines(f, (f.entry, 0), (s.b, s.i), cut))
    rem = G.calls(f, "nni_id_remove", "requests")
    G.need_sites(rem, "nni_id_remove(&s->requests)", f)
    zero = G.stores(f, "request_id", "null")
    for s in deliver + fin:
        for what, sites in (("nni_id_remove(&s->requests, id)", rem), ("ctx->request_id = 0", zero)):
            if sites and not G.reaches(f, (f.entry, 0), [(s.b, s.i)], blocked=G.positions(sites)):
                r.ob(f, "delivery line %s preceded by %s" % (s.line, what))
            else:
                ctx.fail(r, f, "delivery without %s" % what.split("(")[0], s.line,
                         "a reply can be delivered without %s before it: a duplicate of the same reply would be delivered "
                         "again" % what)
    trims = [s for s in f.calls("nni_msg_trim_u32")]
    lenok = G.cmp_edges(f, is_call("nni_msg_len"), {"<": 1, ">=": 0})
    for s in G.need_sites(trims, "nni_msg_trim_u32", f):
        if lenok and G.dominated(f, (s.b, s.i), lenok):
            r.ob(f, "id read line %s dominated by len >= 4" % s.line)
        else:
            ctx.fail(r, f, "id read without length test", s.line, "the request id is trimmed from a message whose length was not tested")
    # who may deliver
    for g in ctx.prog.fns_in("reqrep0/req.c"):
        for s in G.stores(g, "rep_msg", "nonnull"):
            if g.name != "req0_recv_cb":
                ctx.fail(r, g, "rep_msg set outside req0_recv_cb", s.line, "%s stores a reply in rep_msg" % g.name)


def rule_r3(ctx):
    r = ctx.rule("C04.R3", "T2", "state reset: req0_ctx_reset removes the registered id whenever request_id != 0; "
                 "req0_ctx_send resets before allocating a new id and completes superseded operations with NNG_ECANCELED; "
                 "both cancel functions reset the context on their owned path", floor=6)
    prog = ctx.prog
    f = prog.need("req0_ctx_reset", "reqrep0/req.c")
    rem = G.need_sites(G.calls(f, "nni_id_remove", "requests"), "nni_id_remove(&s->requests)", f)
    has_id = G.cond_edges(f, fld("request_id"), want_nonzero=True)
    no_id = {b: 1 - k for b, k in has_id.items()}
    if not has_id:
        ctx.fail(r, f, "request_id test missing", f.line, "req0_ctx_reset no longer tests ctx->request_id")
    else:
        bad = G.must_pass(f, (f.entry, 0), G.positions(rem), cut=no_id)
        if bad:
            ctx.fail(r, f, "id kept on a reset path", rem[0].line,
                     "req0_ctx_reset can return with request_id != 0 still registered in s->requests (the removal is not on "
                     "every path that does not take the request_id == 0 edge): a late reply to the abandoned request is then "
                     "matched to this context's next request",
                     G.path_lines(f, (f.entry, 0), (f.exit, 0), no_id, G.positions(rem)))
        else:
            r.ob(f, "every path with request_id != 0 removes the id")
    zero = G.stores(f, "request_id", "null")
    if zero and not G.must_pass(f, (rem[0].b, rem[0].i + 1), G.positions(zero)):
        r.ob(f, "request_id zeroed after removal")
    else:
        ctx.fail(r, f, "request_id not zeroed", rem[0].line, "request_id is not set to 0 after the id is removed")
    s_ = prog.need("req0_ctx_send", "reqrep0/req.c")
    resets = G.need_sites(G.calls(s_, "req0_ctx_reset"), "req0_ctx_reset call", s_)
    allocs = G.need_sites(G.calls(s_, "nni_id_alloc32"), "nni_id_alloc32", s_)
    for a in allocs:
        if G.reaches(s_, (s_.entry, 0), [(a.b, a.i)], blocked=G.positions(resets)):
            ctx.fail(r, s_, "new id without reset", a.line, "a new request id is allocated on a path that did not reset the context")
        else:
            r.ob(s_, "reset dominates id allocation")
    # superseded operations cancelled
    for field in ("recv_aio", "send_aio"):
        have = G.cond_edges(s_, fld(field), want_nonzero=True)
        fins = [x for x in s_.calls("nni_aio_finish_error") if field in show(s_.expand(x.node["args"][0]))
                and "NNG_ECANCELED" in show(s_.expand(x.node["args"][1]))]
        if not have or not fins:
            ctx.fail(r, s_, "superseded %s not cancelled" % field, s_.line,
                     "req0_ctx_send no longer completes a pending %s with NNG_ECANCELED" % field)
            continue
        okc = True
        for b, k in have.items():
            tgt = s_.blocks[b].succs[k]
            if tgt is not None and G.must_pass(s_, (tgt, 0), G.positions(fins), stop=[(resets[0].b, resets[0].i)]):
                okc = False
        if okc:
            r.ob(s_, "pending %s finished with NNG_ECANCELED before the reset" % field)
        else:
            ctx.fail(r, s_, "superseded %s not cancelled" % field, s_.line,
                     "a pending %s can reach the reset without being completed with NNG_ECANCELED" % field)
    for name, field in (("req0_ctx_cancel_recv", "recv_aio"), ("req0_ctx_cancel_send", "send_aio")):
        c = prog.need(name, "reqrep0/req.c")
        own = {}
        for b in c.blocks.values():
            cc = c.cond(b.id) if b.term and len(b.succs) == 2 else None
            if cc is not None and cc.get("k") == "bin" and cc.get("op") in ("==", "!=") and field in show(cc) and "aio" in show(cc):
                own[b.id] = 0 if cc["op"] == "==" else 1
        rs = G.calls(c, "req0_ctx_reset")
        if not own or not rs:
            ctx.fail(r, c, "cancel does not reset", c.line, "%s no longer resets the context it cancels" % name)
            continue
        okc = True
        for b, k in own.items():
            tgt = c.blocks[b].succs[k]
            if tgt is not None and G.must_pass(c, (tgt, 0), G.positions(rs)):
                okc = False
        if okc:
            r.ob(c, "owned path reaches req0_ctx_reset")
        else:
            ctx.fail(r, c, "cancel path without reset", c.line, "the owned path of %s can return without req0_ctx_reset" % name)


def rule_r4(ctx):
    r = ctx.rule("C04.R4", "T1", "state errors: receive with nothing outstanding or a second concurrent receive fails with "
                 "NNG_ESTATE before anything is parked; a reply with no request pending fails with NNG_ESTATE before any "
                 "pipe is touched", floor=4)
    prog = ctx.prog
    f = prog.need("req0_ctx_recv", "reqrep0/req.c")
    est = [s for s in f.calls("nni_aio_finish_error")
           if any(x.get("k") == "enum" and x["n"] == "NNG_ESTATE" for x in walk(f.expand(s.node["args"][1])))
           or (f.expand(s.node["args"][1]).get("k") == "var" and
               any(rhs is not None and any(x.get("k") == "enum" and x["n"] == "NNG_ESTATE" for x in walk(rhs))
                   for _, rhs in G.reaching_defs(f, f.expand(s.node["args"][1])["n"], (s.b, s.i))))]
    if not est:
        ctx.fail(r, f, "no NNG_ESTATE", f.line, "req0_ctx_recv no longer reports NNG_ESTATE")
    parks = G.stores(f, "recv_aio", "nonnull")
    busy = G.cond_edges(f, fld("recv_aio"), want_nonzero=False)
    for s in G.need_sites(parks, "park in recv_aio", f):
        if busy and G.dominated(f, (s.b, s.i), busy):
            r.ob(f, "park dominated by recv_aio == NULL")
        else:
            ctx.fail(r, f, "second receive parked", s.line, "a receive is parked although another one is pending "
                     "(recv_aio != NULL not rejected first)")
    # nothing outstanding: (req_msg == NULL && rep_msg == NULL) leads to the error
    noreq = G.cond_edges(f, fld("req_msg"), want_nonzero=True)
    hasrep = G.cond_edges(f, fld("rep_msg"), want_nonzero=True)
    for s in parks:
        # parking requires req_msg != NULL (a request is outstanding) on every path
        from ..pathsim import facts_at
        fs = facts_at(f, (s.b, s.i))
        key = None
        for st in fs:
            for k in st.d:
                if k and k[-1] == "req_msg":
                    key = k
        if fs and key is not None and all((st.get(key) or ("?",))[0] == "NZ" for st in fs):
            r.ob(f, "park: req_msg != NULL on all %d path states" % len(fs))
        elif noreq and G.dominated(f, (s.b, s.i), noreq):
            r.ob(f, "park dominated by req_msg != NULL")
        else:
            ctx.fail(r, f, "receive parked with no request outstanding", s.line,
                     "a receive can be parked on a context that has not sent a request (req_msg == NULL): it would wait forever")
    for name, file in (("rep0_ctx_send", "reqrep0/rep.c"), ("resp0_ctx_send", "survey0/respond.c")):
        g = prog.need(name, file)
        zero_len = {}
        for b in g.blocks.values():
            c = g.cond(b.id) if b.term and len(b.succs) == 2 else None
            if c is None:
                continue
            t = truth_of(c, lambda n: (n.get("k") == "var" and n["n"] == "len") or (n.get("k") == "mem" and n["f"] == "btrace_len"))
            if t:
                zero_len[b.id] = 0 if t > 0 else 1     # edge on which len != 0
        acts = [s for s in g.calls(("nni_pipe_send", "nni_id_get", "nni_list_append", "nni_msg_header_append"))]
        if not zero_len:
            ctx.fail(r, g, "no btrace_len test", g.line, "%s no longer tests btrace_len == 0" % name)
            continue
        for s in acts:
            if G.dominated(g, (s.b, s.i), zero_len):
                r.ob(g, "%s line %s dominated by btrace_len != 0" % (s.node["fn"], s.line))
            else:
                ctx.fail(r, g, "%s with no request pending" % s.node["fn"], s.line,
                         "%s is reachable with btrace_len == 0 (no request received): the reply must be refused with NNG_ESTATE"
                         % s.node["fn"])


def rule_r5(ctx):
    r = ctx.rule("C04.R5", "T2", "reply routing: rep0 stores backtrace length and origin pipe before handing the request up, "
                 "and rep0_ctx_send clears both on every path (exactly one send per receive)", floor=6)
    prog = ctx.prog
    for name, file in (("rep0_ctx_send", "reqrep0/rep.c"), ("resp0_ctx_send", "survey0/respond.c")):
        f = prog.need(name, file)
        for field in ("btrace_len", "pipe_id"):
            z = G.stores(f, field, "null")
            if not z:
                ctx.fail(r, f, "%s never cleared" % field, f.line, "%s does not clear ctx->%s" % (name, field))
                continue
            # every path that does not take the "nothing to send" error edge clears it; simplest sound form:
            # every path from entry to a *successful* or parking exit passes the clear.  We require it on all
            # paths except those through the NNG_ESTATE error (which has nothing to clear).
            est = [s for s in f.calls("nni_aio_finish_error")
                   if any(x.get("k") == "enum" and x["n"] == "NNG_ESTATE" for x in walk(f.expand(s.node["args"][1])))]
            refused = {}
            for st in f.calls("nni_aio_start"):
                for b, (nz, zz) in f.value_edges(st).items():
                    refused[b] = zz       # a refused start leaves the exchange untouched
            bad = G.must_pass(f, (f.entry, 0), G.positions(z) | G.positions(est), cut=refused)
            if bad:
                ctx.fail(r, f, "%s kept after a send" % field, z[0].line,
                         "%s can return without clearing ctx->%s: a second send for the same request is then accepted instead "
                         "of failing with NNG_ESTATE" % (name, field),
                         G.path_lines(f, (f.entry, 0), (f.exit, 0), None, G.positions(z) | G.positions(est)))
            else:
                r.ob(f, "ctx->%s cleared on every non-ESTATE path" % field)
    for name, file in (("rep0_ctx_recv", "reqrep0/rep.c"), ("rep0_pipe_recv_cb", "reqrep0/rep.c"),
                       ("resp0_ctx_recv", "survey0/respond.c"), ("resp0_pipe_recv_cb", "survey0/respond.c")):
        f = prog.need(name, file)
        fins = [s for s in f.calls(("nni_aio_finish", "nni_aio_finish_sync", "nni_aio_finish_msg"))
                if const_of(f.expand(s.node["args"][1])) == 0 or s.node["fn"] == "nni_aio_finish_msg"]
        for field in ("btrace_len", "pipe_id"):
            st = G.stores(f, field, "nonnull")
            for s in fins:
                if st and not G.reaches(f, (f.entry, 0), [(s.b, s.i)], blocked=G.positions(st)):
                    r.ob(f, "hand-up line %s preceded by store to %s" % (s.line, field))
                else:
                    ctx.fail(r, f, "request handed up without %s" % field, s.line,
                             "%s completes the receive without recording ctx->%s: the reply cannot be routed back" % (name, field))


def rule_r6(ctx):
    r = ctx.rule("C04.R6", "T1", "raw routing: xrep0_sock_getq_cb pops the destination pipe id only after testing "
                 "header_len >= 4 and frees the message when the pipe is unknown or its queue is full", floor=2)
    prog = ctx.prog
    for name, file in (("xrep0_sock_getq_cb", "reqrep0/xrep.c"), ("xresp0_sock_getq_cb", "survey0/xrespond.c")):
        f = prog.fn(name, file)
        if f is None:
            raise AnalysisBroken("anchor %s missing" % name)
        trims = G.need_sites([s for s in f.calls("nni_msg_header_trim_u32")], "nni_msg_header_trim_u32", f)
        lenok = G.cmp_edges(f, is_call("nni_msg_header_len"), {"<": 1, ">=": 0})
        for s in trims:
            if lenok and G.dominated(f, (s.b, s.i), lenok):
                r.ob(f, "header pop dominated by header_len >= 4")
            else:
                ctx.fail(r, f, "header pop without length test", s.line,
                         "the routing word is popped from a header that may be shorter than 4 bytes")


def rule_hops(ctx):
    r = ctx.rule("C04.H", "T9", "backtrace loops of rep0 / xrep0: shared hop-loop facts (ttl and length guards dominate every "
                 "word moved, counter advances, append failure leaves the loop, over-ttl drops without disconnect, short "
                 "message disconnects, raw pushes the pipe id first)", floor=16)
    for name, file, raw in HOP_FUNCS[:2]:
        check_hop_loop(ctx, r, ctx.prog.need(name, file), raw)


def rule_r2(ctx):
    r = ctx.rule("C04.R2", "T9", "the protocol header is composed from scratch: in every cooked send slot (sock_send / ctx_send) "
                 "that writes the protocol header of the user's message, nni_msg_header_clear on that message precedes every "
                 "nni_msg_header_append*: a header the caller left in the message (a recycled reply) must not travel in front "
                 "of the request id / backtrace", floor=4)
    prog = ctx.prog
    seen = 0
    fns = []
    for slot in ("nni_proto_sock_ops.sock_send", "nni_proto_ctx_ops.ctx_send"):
        for f in prog.slot_fns(slot):
            if f not in fns and "/protocol/" in f.file and not f.cfg_failed:
                fns.append(f)
    for f in fns:
        apps = [c for c in f.calls(("nni_msg_header_append", "nni_msg_header_append_u32")) if c.node["args"]]
        if not apps:
            continue
        clears = [c for c in f.calls("nni_msg_header_clear") if c.node["args"]]
        for a in apps:
            m = G.resolve(f, a.node["args"][0], (a.b, a.i))
            mine = [c for c in clears if same_expr(G.resolve(f, c.node["args"][0], (c.b, c.i)), m)]
            seen += 1
            if mine and f.dominated_by((a.b, a.i), blocked=lambda b, i, e: (b, i) in G.positions(mine)):
                r.ob(f, "%s line %s preceded by nni_msg_header_clear" % (a.node["fn"], a.line))
            else:
                ctx.fail(r, f, "header appended without clearing it first", a.line,
                         "%s at line %s adds to whatever header the caller's message already carries: with a recycled message "
                         "the old header (another exchange's id or backtrace) is sent in front of this one, and the peer "
                         "answers the wrong exchange" % (a.node["fn"], a.line))
    if seen < 4:
        raise AnalysisBroken("only %d header appends in cooked send slots found" % seen)


def rule_r7(ctx):
    r = ctx.rule("C04.R7", "T3", "an id is retired with the value it was registered under: no nni_id_remove(map, x->F) is reachable "
                 "from a store x->F = 0 without x->F having been assigned again (the removal would look up 0 and leave the live "
                 "id registered, so a later reply with that id is matched to a new exchange)", floor=10)
    prog = ctx.prog
    n = 0
    for f in prog.functions:
        if f.cfg_failed:
            continue
        for c in f.calls("nni_id_remove"):
            if len(c.node["args"]) < 2:
                continue
            key = f.expand(c.node["args"][1])
            if key.get("k") != "mem":
                continue
            n += 1
            fld = last_field(key)
            zero = [t for t in f.assigns() if t.node["lhs"].get("k") == "mem" and same_expr(t.node["lhs"], key) and
                    const_of(f.expand(t.node["rhs"])) == 0]
            again = set()
            for t in f.assigns():
                if t.node["lhs"].get("k") == "mem" and same_expr(t.node["lhs"], key) and const_of(f.expand(t.node["rhs"])) != 0:
                    again.add((t.b, t.i))
            for a in f.calls(("nni_id_alloc32", "nni_id_alloc")):
                if len(a.node["args"]) > 1 and same_expr(strip(f.expand(a.node["args"][1])), key):
                    again.add((a.b, a.i))
            bad = None
            for z in zero:
                if G.reaches(f, (z.b, z.i + 1), [(c.b, c.i)], blocked=again):
                    bad = z
            if bad is not None:
                ctx.fail(r, f, "%s cleared before it is removed from the map" % fld, c.line,
                         "%s is set to 0 at line %s and then used as the key of nni_id_remove at line %s: the removal is a "
                         "no-op and the id the object was registered under stays in the map" % (show(key), bad.line, c.line))
            else:
                r.ob(f, "nni_id_remove(.., %s) line %s uses the live value" % (show(key), c.line))
    if n < 8:
        raise AnalysisBroken("only %d nni_id_remove calls keyed by a field" % n)


def strip(n):
    while n is not None and n.get("k") == "un" and n.get("op") == "&":
        n = n["e"]
    return n


# ---------------------------------------------------------------------------
# R8: an id registered for a request that is then refused is retired again

def rule_r8(ctx):
    r = ctx.rule("C04.R8", "T2", "an id registered for an exchange that does not start is retired: in a send function that registers the "
                 "context under a fresh id (nni_id_alloc32 into the socket's map) and then asks nni_aio_start, the edge on which "
                 "the start is refused reaches the exit only through nni_id_remove on that map -- otherwise the idle context "
                 "stays addressable and a stray message carrying that id is delivered to its next receive as if it were a reply", floor=1)
    prog = ctx.prog
    n = 0
    for f in prog.functions:
        if f.cfg_failed or "/sp/protocol/" not in "/" + f.file:
            continue
        allocs = [c for c in f.calls(("nni_id_alloc32", "nni_id_alloc")) if c.node["args"]]
        starts = list(f.calls("nni_aio_start"))
        if not allocs or not starts:
            continue
        for a in allocs:
            m = last_field(strip_addr(f.expand(a.node["args"][0])))
            refused = {b: 1 - k for b, k in G.nz_edges(f, lambda x: x.get("k") == "call" and x.get("fn") == "nni_aio_start").items()}
            if not refused:
                continue
            rem = {(c.b, c.i) for c in f.calls("nni_id_remove") if c.node["args"] and last_field(strip_addr(f.expand(c.node["args"][0]))) == m}
            for b, k in refused.items():
                tgt = f.blocks[b].succs[k]
                if tgt is None or (b, len(f.blocks[b].elems)) not in f.reach((a.b, a.i + 1)) and (b, 0) not in f.reach((a.b, a.i + 1)):
                    continue
                n += 1
                off = G.must_pass(f, (tgt, 0), rem)
                if off is None:
                    r.ob(f, "refused start after registering in %s: the id is removed before the function returns" % m)
                else:
                    ctx.fail(r, f, "id left registered after a refused start", f.line_of(b, 0),
                             "%s registers the context in %s (line %s); when nni_aio_start refuses the operation (line %s) it "
                             "returns without nni_id_remove: the id keeps pointing at an idle context, and a message carrying it "
                             "is accepted as a reply" % (f.name, m, a.line, f.line_of(b, 0)))
    if n < 1:
        raise AnalysisBroken("no send function registers an id and then asks nni_aio_start")


# ---------------------------------------------------------------------------
# R9: an unmatched reply is discarded, not punished


def rule_r9(ctx):
    r = ctx.rule("C04.R9", "T1", "an unmatched reply is discarded, not punished: in the receive callbacks that match a reply / response "
                 "to an outstanding id (req0_recv_cb, surv0_pipe_recv_cb) nni_pipe_close is reached only over the failure edge of "
                 "nni_aio_result or over an edge that found the message too short to carry an id -- a reply with an unknown, "
                 "stale or odd id is dropped without disturbing the connection, whose other exchanges would otherwise be reset "
                 "(ECONNRESET with resending disabled, a retransmission otherwise)", floor=4)
    prog = ctx.prog
    n = 0
    for name, file in (("req0_recv_cb", "reqrep0/req.c"), ("surv0_pipe_recv_cb", "survey0/survey.c")):
        f = prog.need(name, file)
        cut = {}
        for c in f.calls("nni_aio_result"):
            for b, (nz, z) in f.value_edges(c).items():
                cut[b] = nz
        short = G.rel_edges(f, lambda x: x.get("k") == "call" and x.get("fn") == "nni_msg_len",
                            lambda x: const_of(x) is not None and const_of(x) <= 4, "<")
        cut2 = dict(cut)
        cut2.update(short)
        if not cut or not short:
            raise AnalysisBroken("%s: result test or length test not found" % name)
        for c in f.calls("nni_pipe_close"):
            n += 1
            if G.dominated(f, (c.b, c.i), cut2):
                r.ob(f, "nni_pipe_close at line %s only for a failed receive or a message too short for an id" % c.line)
            else:
                ctx.fail(r, f, "connection closed for a reply that merely does not match", c.line,
                         "%s can reach nni_pipe_close (line %s) for a message that was received intact and is long enough to carry "
                         "an id: a reply nobody waits for must be dropped, not answered by dropping the connection under the "
                         "other outstanding requests" % (name, c.line),
                         path=G.path_lines(f, (f.entry, 0), (c.b, c.i), cut=cut2))
        # and through helpers / gotos the same holds: nothing else in the function closes a socket-level object
    if n < 4:
        raise AnalysisBroken("only %d nni_pipe_close sites in the reply-matching callbacks" % n)


# ---------------------------------------------------------------------------
# R10: the routing state of a reply context is written only where a request is taken from a pipe


def rule_r10(ctx):
    r = ctx.rule("C04.R10", "T10", "the routing state of a replying context belongs to the request it received last: the backtrace "
                 "(btrace, btrace_len) and the origin (pipe_id) of a rep0 / resp0 context are given a value only in the functions "
                 "that take a request off a pipe's receive aio; everywhere else they are only cleared -- a cancel or error path "
                 "that puts an earlier request's backtrace back overwrites the one received since, and the next reply goes to the "
                 "wrong peer with the wrong id", floor=8)
    prog = ctx.prog
    n = 0
    for file, rec in (("reqrep0/rep.c", "rep0_ctx"), ("survey0/respond.c", "resp0_ctx")):
        for f in prog.fns_in(file):
            if f.cfg_failed:
                continue
            takes = any(c.node["args"] and (last_field(f.expand(c.node["args"][0])) or "").endswith(".aio_recv")
                        for c in f.calls("nni_aio_get_msg"))
            writes = []
            for t in f.assigns():
                l = t.node["lhs"]
                if l.get("k") == "mem" and l.get("rec") == rec and l["f"] in ("btrace_len", "pipe_id") and \
                        const_of(f.expand(t.node["rhs"])) != 0:
                    writes.append((t, "%s = %s" % (show(l), show(f.expand(t.node["rhs"])))))
            for c in f.calls(("memcpy", "memmove", "__builtin_memcpy", "__builtin___memcpy_chk")):
                a0 = f.expand(c.node["args"][0]) if c.node["args"] else None
                if a0 is not None and any(m.get("k") == "mem" and m.get("rec") == rec and m["f"] == "btrace" for m in walk(a0)):
                    writes.append((c, "copy into %s" % show(a0)))
            if writes and not takes and f.static and not prog.fn_refs(f.name):
                # a helper that files the route for its caller: every caller is a function that takes the request off a pipe
                cs = [g for g, c in prog.callers().get(f.name, []) if g.file == f.file and not g.cfg_failed]
                takes = bool(cs) and all(any(c.node["args"] and (last_field(g.expand(c.node["args"][0])) or "").endswith(".aio_recv")
                                             for c in g.calls("nni_aio_get_msg")) for g in cs)
            for t, what in writes:
                n += 1
                if takes:
                    r.ob(f, "%s (line %s) where a request is taken from a pipe" % (what, t.line))
                else:
                    ctx.fail(r, f, "routing state written outside the receive path", t.line,
                             "%s at line %s of %s: this function does not take a request from a pipe, so the value it stores "
                             "belongs to an earlier exchange; a request received meanwhile loses its route" % (what, t.line, f.name))
    if n < 8:
        raise AnalysisBroken("only %d writes of the reply routing state found" % n)


# ---------------------------------------------------------------------------
# R11: a reset leaves nothing of the previous exchange behind


def rule_r11(ctx):
    r = ctx.rule("C04.R11", "T2", "a reset leaves nothing of the previous exchange behind: in req0_ctx_reset, once a message field of the "
                 "context (req_msg, rep_msg) has been found non-NULL, every path to the function's exit releases it and clears the "
                 "field -- no further condition (which context it is, what the socket's state is) stands in between. The unread "
                 "reply of a superseded request that survives the reset is delivered as the answer to the next request, and the "
                 "genuine reply is discarded because the context 'already has one'", floor=1)
    f = ctx.prog.need("req0_ctx_reset", "reqrep0/req.c")
    n = 0
    for fld in ("req_msg", "rep_msg"):
        nz = G.nz_edges(f, lambda x, fld=fld: x.get("k") == "mem" and x["f"] == fld and x.get("rec") == "req0_ctx")
        if not nz:
            raise AnalysisBroken("req0_ctx_reset no longer tests ctx->%s" % fld)
        frees = {(c.b, c.i) for c in f.calls("nni_msg_free") if c.node["args"] and
                 any(m.get("k") == "mem" and m["f"] == fld for m in walk(f.expand(c.node["args"][0])))}
        clears = {(t.b, t.i) for t in f.assigns() if t.node["lhs"].get("k") == "mem" and t.node["lhs"]["f"] == fld and is_null(f.expand(t.node["rhs"]))}
        for b, k in sorted(nz.items()):
            n += 1
            start = (f.blocks[b].succs[k], 0)
            o1 = G.must_pass(f, start, frees) if frees else start
            o2 = G.must_pass(f, start, clears) if clears else start
            if o1 is None and o2 is None:
                r.ob(f, "%s found non-NULL: released and cleared on every path" % fld)
            else:
                ctx.fail(r, f, "ctx->%s survives the reset on some path" % fld, f.line_of(b, max(len(f.blocks[b].elems) - 1, 0)),
                         "req0_ctx_reset finds ctx->%s set and can still return without releasing it (a further condition guards the "
                         "release): what is left of the previous exchange is handed out as part of the next one" % fld)
    if n < 2:
        raise AnalysisBroken("req0_ctx_reset: message fields not tested")


def run(ctx):
    ctx.guard(rule_r1)
    ctx.guard(rule_r2)
    ctx.guard(rule_r3)
    ctx.guard(rule_r4)
    ctx.guard(rule_r5)
    ctx.guard(rule_r6)
    ctx.guard(rule_r7)
    ctx.guard(rule_r8)
    ctx.guard(rule_r9)
    ctx.guard(rule_r10)
    ctx.guard(rule_r11)
    ctx.guard(rule_hops)
