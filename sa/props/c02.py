"""C02 -- every asynchronous operation completes exactly once.

Decided: the provider protocol around nni_aio_start (T6 rules A1..A5) over
every provider in the build, the inline-completion rule D1, and the
stop/fini wait structure S1/S2 of aio.c / taskq.c.
"""
from ..core import same_expr, walk, show, apath, truth_of, const_of, AnalysisBroken, is_null
from ..aiolib import *

EXPLANATION = ("C02: exhaustive check of the aio provider protocol (result of nni_aio_start honoured, no park "
               "before a successful start, cancel functions test ownership under the provider lock and un-park "
               "before finishing, no double finish on a path, no inline completion under a lock, stop/fini wait "
               "for the task) over all providers of the build. Necessary conditions for exactly-once completion.")
ASSUMPTIONS = ["interleaving-level behaviour of the expire thread and of user code is not decided"]


def start_sites(fn):
    return [s for s in fn.calls(START)]


def rule_a1(ctx):
    r = ctx.rule("C02.A1", "T6", "after nni_aio_start(aio,..) may have returned false the provider does not touch "
                 "that aio again (no finish, park, store or further call on it)", floor=60)
    for fn in ctx.prog.functions:
        if fn.name == START:
            continue
        for s in start_sites(fn):
            aio = arg(fn, s.node, 0)
            edges = fn.value_edges(s)
            ok_edge = lambda b, k, e=edges: b not in e or k == e[b][1]
            seen = fn.reach((s.b, s.i + 1), edge_ok=ok_edge)
            bad = None
            for (b, i) in sorted(seen):
                blk = fn.blocks[b]
                if i >= len(blk.elems) or blk.elems[i] is None:
                    continue
                for n in mentions(fn, blk.elems[i], aio):
                    if n.get("_id") == s.node.get("_id"):
                        continue
                    bad = (b, i, n)
                    break
                if bad:
                    break
            if bad:
                b, i, n = bad
                path = fn.find_path((s.b, s.i + 1), lambda bb, ii: (bb, ii) == (b, i), edge_ok=ok_edge)
                how = "result discarded" if not edges else "false branch"
                ctx.fail(r, fn, "nni_aio_start(%s) then %s" % (show(aio), n.get("fn") or show(n)[:60]),
                         fn.line_of(s.b, s.i, s.node),
                         "aio is touched after nni_aio_start may have refused it (%s): %s at line %s"
                         % (how, show(n)[:80], fn.line_of(b, i, n)), fn.path_lines(path))
            else:
                r.ob(fn, "nni_aio_start(%s) line %s: refused paths never touch the aio (%s)"
                     % (show(aio), fn.line_of(s.b, s.i, s.node), "branched" if edges else "returned/unused, nothing follows"))


def park_sites(fn):
    """(site, aio expr, place description) for every park of an aio-typed
    expression in fn."""
    out = []
    for s in fn.sites():
        n = s.node
        if n.get("k") == "call" and n.get("fn") in LIST_PARK and len(n["args"]) >= 2:
            a = fn.expand(n["args"][1])
            if a is not None and a.get("k") == "var" and is_aio_ptr(a):
                out.append((s, a, "%s(%s)" % (n["fn"], show(fn.expand(n["args"][0])))))
        elif n.get("k") == "asg" and n.get("op") == "=":
            rhs = fn.expand(n["rhs"])
            lhs = n["lhs"]
            if rhs is not None and rhs.get("k") == "var" and is_aio_ptr(rhs) and lhs.get("k") == "mem":
                if fresh_local(fn, lhs):
                    continue  # store into an object allocated here and not yet published
                out.append((s, rhs, "%s = " % show(lhs)))
    return out


ALLOCS = ("nni_alloc", "nni_zalloc", "nng_alloc", "nng_zalloc")


def fresh_local(fn, lhs):
    """lhs is a field of a local whose (only) value is a fresh allocation
    made in this function."""
    p = apath(lhs)
    if not p:
        return False
    root = p[0]
    if root not in fn.locals() or any(q["n"] == root for q in fn.params):
        return False
    srcs = []
    for t in fn.assigns():
        if t.node["lhs"].get("k") == "var" and t.node["lhs"]["n"] == root:
            srcs.append(fn.expand(t.node["rhs"]))
    for s in fn.sites():
        if s.node.get("k") == "decls":
            for d in s.node["d"]:
                if d["n"] == root and d.get("init") is not None:
                    srcs.append(fn.expand(d["init"]))
    return bool(srcs) and all(x is not None and x.get("k") == "call" and x.get("fn") in ALLOCS for x in srcs)


def dominated_by_start(fn, var, pos):
    """pos is unreachable from entry once the success edges of every
    nni_aio_start(var, fn != NULL) are removed."""
    edges = {}
    nullcancel = False
    for s in start_sites(fn):
        a = arg(fn, s.node, 0)
        if a is None or a.get("k") != "var" or a["n"] != var:
            continue
        c = arg(fn, s.node, 1)
        if is_null(c):
            nullcancel = True
        for b, (nz, z) in fn.value_edges(s).items():
            edges[b] = nz
    if not edges:
        return False, nullcancel
    # a path on which the variable is known to be NULL parks nothing
    nulledge = {}
    for b in fn.blocks.values():
        if b.term and len(b.succs) == 2 and b.id not in edges:
            c = fn.cond(b.id)
            t = truth_of(c, lambda n: n.get("k") == "var" and n["n"] == var) if c else 0
            if t:
                nulledge[b.id] = 1 if t > 0 else 0
    return fn.dominated_by(pos, edge_ok=lambda b, k: not ((b in edges and k == edges[b]) or
                                                          (b in nulledge and k == nulledge[b]))), nullcancel


def rule_a2(ctx):
    r = ctx.rule("C02.A2", "T6", "every park of a caller-supplied aio (list append / field store) is dominated by the "
                 "success edge of nni_aio_start on that aio, in the function or in all of its callers", floor=50)
    prog = ctx.prog
    callers = prog.callers()
    # documented exceptions: single symbols, one-line reason each
    # Accepted variants, one named symbol each, with the invariant relied on.
    # The exception applies only while the named guard is structurally there.
    EXC = {
        ("req0_ctx_send", "ctx->send_aio = "): (
            "nni_list_empty", "ready_pipes",
            "transient park: when ready_pipes is non-empty send_queue is empty, so req0_run_send_queue (same "
            "critical section) serves exactly this context and completes the aio before the lock is released"),
    }

    def check(fn, var, pos, depth):
        ok, nullc = dominated_by_start(fn, var, pos)
        if ok:
            return True, "start in %s" % fn.name
        if depth >= 3:
            return False, "depth"
        # parameter? then all callers must have started it
        pidx = [i for i, p in enumerate(fn.params) if p["n"] == var]
        if not pidx:
            return False, "not a parameter, no dominating start"
        pidx = pidx[0]
        cs = [(c, s) for (c, s) in callers.get(fn.name, []) if prog.resolve(c, fn.name) is fn]
        if not cs or prog.fn_refs(fn.name):
            return False, "no dominating start and function is reached through a pointer"
        for c, s in cs:
            a = c.expand(s.node["args"][pidx]) if pidx < len(s.node["args"]) else None
            if a is None or a.get("k") != "var":
                return False, "caller %s passes %s" % (c.name, show(a))
            ok2, why = check(c, a["n"], (s.b, s.i), depth + 1)
            if not ok2:
                return False, "caller %s: %s" % (c.name, why)
        return True, "start in all callers"

    for fn in prog.functions:
        if fn.file.endswith("core/aio.c"):
            continue
        for s, a, place in park_sites(fn):
            if a.get("vk") != "param":
                # local alias of a parameter?  (aio = param) handled below
                src = None
                for t in fn.assigns():
                    if t.node["lhs"].get("k") == "var" and t.node["lhs"]["n"] == a["n"]:
                        src = fn.expand(t.node["rhs"])
                if src is None or src.get("k") != "var" or src.get("vk") != "param":
                    continue
            ok, why = check(fn, a["n"], (s.b, s.i), 0)
            if not ok and (fn.name, place) in EXC:
                gfn, gfield, reason = EXC[(fn.name, place)]
                # park must be unreachable once the start-success edges AND the
                # "list not empty" edge of the named guard are removed
                cut = {}
                for st in start_sites(fn):
                    for b, (nz, z) in fn.value_edges(st).items():
                        cut[b] = nz
                for gs in fn.calls(gfn):
                    ga = fn.expand(gs.node["args"][0])
                    if gfield in show(ga):
                        for b, (nz, z) in fn.value_edges(gs).items():
                            cut[b] = z
                if cut and fn.dominated_by((s.b, s.i), edge_ok=lambda b, k: not (b in cut and k == cut[b])):
                    ok, why = True, "exception: " + reason
                    r.exception("%s %s" % (fn.name, place), reason)
            if ok:
                r.ob(fn, "%s%s line %s: %s" % (place, a["n"], s.line, why))
            else:
                path = fn.find_path((fn.entry, 0), lambda bb, ii: (bb, ii) == (s.b, s.i))
                ctx.fail(r, fn, "park %s%s" % (place, a["n"]), s.line,
                         "user aio parked without a dominating successful nni_aio_start (%s)" % why,
                         fn.path_lines(path))


def run(ctx):
    rule_a1(ctx)
    rule_a2(ctx)
