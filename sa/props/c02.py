"""C02 -- every asynchronous operation completes exactly once.

Decided: the provider protocol around nni_aio_start (T6 rules A1..A5) over
every provider in the build, the inline-completion rule D1, and the
stop/fini wait structure S1/S2 of aio.c / taskq.c.
"""
from ..core import same_expr, walk, show, apath, truth_of, const_of, AnalysisBroken, is_null, last_field
from ..aiolib import *

EXPLANATION = ("C02: exhaustive check of the aio provider protocol (result of nni_aio_start honoured, no park "
               "before a successful start, cancel functions test ownership under the provider lock and un-park "
               "before finishing, no double finish on a path, no inline completion under a lock, stop/fini wait "
               "for the task) over all providers of the build. Necessary conditions for exactly-once completion."
               " Also: the expiry scan accounts for every entry it walks past (E1), and whoever takes the head off a head-gated request queue starts the next transfer (S3).")
EXPLANATION += ' Round 3: the absolute-expiry flag is updated together with the timeout / deadline it qualifies (T1).'
EXPLANATION += " Round 5: the byte-stream connections and the platform's queues park nothing after their close has drained them (P1 = C10.R11 for src/platform and src/supplemental)."
EXPLANATION += " Round 8: a caller's aio is cleared (nni_aio_reset) on every way from a public entry point to the nni_aio_start of a provider (A15); the one-shot absolute expiry is forgotten wherever the framework ends an operation (T3); a cancel function of a head-served queue aborts the lower operation only for the operation being served or when nobody waits (A16); a_result is stored only where an operation ends or begins (T4); a_timeout is stored only by the initialiser and the setter (T5, known finding)."
EXPLANATION += " Round 6: a one-place park field is not overwritten while occupied (A12); an operation unlinked from its wait list is completed, queued again or handed on (A13); the mark a cancel function tests stays on the operation until it completes without a blocking step in between (A14); a busy latch is released by the completion it waits for (S4); 'served in the same critical section' requires the drain under a closed mark (P1)."
ASSUMPTIONS = ["interleaving-level behaviour of the expire thread and of user code is not decided"]


def start_sites(fn):
    return [s for s in fn.calls(START)]


def rule_a1(ctx):
    r = ctx.rule("C02.A1", "T6", "after nni_aio_start(aio,..) may have returned false the provider does not touch "
                 "that aio again (no finish, park, store or further call on it)", floor=60)
    for fn in ctx.prog.functions:
        if fn.name == START:
            continue
        for s in start_sites(fn):
            aio = arg(fn, s.node, 0)
            edges = fn.value_edges(s)
            ok_edge = lambda b, k, e=edges: b not in e or k == e[b][1]
            seen = fn.reach((s.b, s.i + 1), edge_ok=ok_edge)
            bad = None
            for (b, i) in sorted(seen):
                blk = fn.blocks[b]
                if i >= len(blk.elems) or blk.elems[i] is None:
                    continue
                for n in mentions(fn, blk.elems[i], aio):
                    if n.get("_id") == s.node.get("_id"):
                        continue
                    bad = (b, i, n)
                    break
                if bad:
                    break
            if bad:
                b, i, n = bad
                path = fn.find_path((s.b, s.i + 1), lambda bb, ii: (bb, ii) == (b, i), edge_ok=ok_edge)
                how = "result discarded" if not edges else "false branch"
                ctx.fail(r, fn, "nni_aio_start(%s) then %s" % (show(aio), n.get("fn") or show(n)[:60]),
                         fn.line_of(s.b, s.i, s.node),
                         "aio is touched after nni_aio_start may have refused it (%s): %s at line %s"
                         % (how, show(n)[:80], fn.line_of(b, i, n)), fn.path_lines(path))
            else:
                r.ob(fn, "nni_aio_start(%s) line %s: refused paths never touch the aio (%s)"
                     % (show(aio), fn.line_of(s.b, s.i, s.node), "branched" if edges else "returned/unused, nothing follows"))


def park_sites(fn):
    """(site, aio expr, place description) for every park of an aio-typed
    expression in fn."""
    out = []
    for s in fn.sites():
        n = s.node
        if n.get("k") == "call" and n.get("fn") in LIST_PARK and len(n["args"]) >= 2:
            a = fn.expand(n["args"][1])
            if a is not None and a.get("k") == "var" and is_aio_ptr(a):
                out.append((s, a, "%s(%s)" % (n["fn"], show(fn.expand(n["args"][0])))))
        elif n.get("k") == "asg" and n.get("op") == "=":
            rhs = fn.expand(n["rhs"])
            lhs = n["lhs"]
            if rhs is not None and rhs.get("k") == "var" and is_aio_ptr(rhs) and lhs.get("k") == "mem":
                if fresh_local(fn, lhs):
                    continue  # store into an object allocated here and not yet published
                out.append((s, rhs, "%s = " % show(lhs)))
    return out


ALLOCS = ("nni_alloc", "nni_zalloc", "nng_alloc", "nng_zalloc")


def fresh_local(fn, lhs):
    """lhs is a field of a local whose (only) value is a fresh allocation
    made in this function."""
    p = apath(lhs)
    if not p:
        return False
    root = p[0]
    if root not in fn.locals() or any(q["n"] == root for q in fn.params):
        return False
    srcs = []
    for t in fn.assigns():
        if t.node["lhs"].get("k") == "var" and t.node["lhs"]["n"] == root:
            srcs.append(fn.expand(t.node["rhs"]))
    for s in fn.sites():
        if s.node.get("k") == "decls":
            for d in s.node["d"]:
                if d["n"] == root and d.get("init") is not None:
                    srcs.append(fn.expand(d["init"]))
    return bool(srcs) and all(x is not None and x.get("k") == "call" and x.get("fn") in ALLOCS for x in srcs)


def dominated_by_start(fn, var, pos):
    """pos is unreachable from entry once the success edges of every
    nni_aio_start(var, fn != NULL) are removed."""
    edges = {}
    nullcancel = False
    for s in start_sites(fn):
        a = arg(fn, s.node, 0)
        if a is None or a.get("k") != "var" or a["n"] != var:
            continue
        c = arg(fn, s.node, 1)
        if is_null(c):
            nullcancel = True
        for b, (nz, z) in fn.value_edges(s).items():
            edges[b] = nz
    if not edges:
        return False, nullcancel
    # a path on which the variable is known to be NULL parks nothing
    nulledge = {}
    for b in fn.blocks.values():
        if b.term and len(b.succs) == 2 and b.id not in edges:
            c = fn.cond(b.id)
            t = truth_of(c, lambda n: n.get("k") == "var" and n["n"] == var) if c else 0
            if t:
                nulledge[b.id] = 1 if t > 0 else 0
    return fn.dominated_by(pos, edge_ok=lambda b, k: not ((b in edges and k == edges[b]) or
                                                          (b in nulledge and k == nulledge[b]))), nullcancel


def transient_park(fn, site, var):
    """A park that cannot outlive the critical section: every path from the
    park to an unlock / exit passes a test nni_aio_list_active(var), and on
    its still-parked edge the aio is removed again before any nni_aio_start,
    unlock or exit.  (The queue-serving helper either completed it -- not
    active any more -- or it is taken off and parked again only after a
    successful start, which the rule then checks as an ordinary park.)"""
    tests = {}
    for s in fn.calls("nni_aio_list_active"):
        a = fn.expand(s.node["args"][0]) if s.node["args"] else None
        if a is not None and a.get("k") == "var" and a["n"] == var:
            for b, (nz, z) in fn.value_edges(s).items():
                tests[b] = nz

    def leaves(e):
        return any(n.get("k") == "call" and n.get("fn") in ("nni_mtx_unlock", START) for n in walk(e))

    def removes(e):
        return any(n.get("k") == "call" and n.get("fn") in UNPARK_CALLS and
                   any(a is not None and mentions_var(fn.expand(a), var) for a in n["args"]) for n in walk(e))
    if not tests:
        return False
    # 1. park -> unlock/exit always through one of the tests
    tpos = {(b, len(fn.blocks[b].elems) - 1) for b in tests}
    seen = fn.reach((site.b, site.i + 1), blocked=lambda b, i, e: (b, i) in tpos)
    for (b, i) in seen:
        blk = fn.blocks[b]
        if (b, i) == (fn.exit, 0):
            return False
        if i < len(blk.elems) and blk.elems[i] is not None and leaves(blk.elems[i]):
            return False
    # 2. on the still-active edge: removal before start/unlock/exit
    for b, nz in tests.items():
        tgt = fn.blocks[b].succs[nz]
        if tgt is None:
            continue
        seen = fn.reach((tgt, 0), blocked=lambda bb, ii, e: removes(e))
        for (bb, ii) in seen:
            blk = fn.blocks[bb]
            if (bb, ii) == (fn.exit, 0):
                return False
            if ii < len(blk.elems) and blk.elems[ii] is not None and leaves(blk.elems[ii]):
                return False
    return True


def rule_a2(ctx):
    r = ctx.rule("C02.A2", "T6", "every park of a caller-supplied aio (list append / field store) is dominated by the "
                 "success edge of nni_aio_start on that aio, in the function or in all of its callers", floor=50)
    prog = ctx.prog
    callers = prog.callers()
    # documented exceptions: single symbols, one-line reason each
    SERVED = {
        "nni_msgq_aio_put": ("nni_msgq_run_putq", "fast path: the put queue was empty and a reader or room exists (same condition), "
                             "so nni_msgq_run_putq completes this aio before the lock is released; otherwise it is started first"),
        "nni_msgq_aio_get": ("nni_msgq_run_getq", "fast path: the get queue was empty and a message or a writer exists, so "
                             "nni_msgq_run_getq completes this aio before the lock is released; otherwise it is started first"),
    }
    # Accepted variants, one named symbol each, with the invariant relied on.
    # The exception applies only while the named guard is structurally there.
    EXC = {
        ("req0_ctx_send", "ctx->send_aio = "): (
            "nni_list_empty", "ready_pipes",
            "transient park: when ready_pipes is non-empty send_queue is empty, so req0_run_send_queue (same "
            "critical section) serves exactly this context and completes the aio before the lock is released"),
    }

    def check(fn, var, pos, depth):
        ok, nullc = dominated_by_start(fn, var, pos)
        if ok:
            return True, "start in %s" % fn.name
        if depth >= 3:
            return False, "depth"
        # parameter? then all callers must have started it
        pidx = [i for i, p in enumerate(fn.params) if p["n"] == var]
        if not pidx:
            return False, "not a parameter, no dominating start"
        pidx = pidx[0]
        cs = [(c, s) for (c, s) in callers.get(fn.name, []) if prog.resolve(c, fn.name) is fn]
        if not cs or prog.fn_refs(fn.name):
            return False, "no dominating start and function is reached through a pointer"
        for c, s in cs:
            a = c.expand(s.node["args"][pidx]) if pidx < len(s.node["args"]) else None
            if a is None or a.get("k") != "var":
                return False, "caller %s passes %s" % (c.name, show(a))
            ok2, why = check(c, a["n"], (s.b, s.i), depth + 1)
            if not ok2:
                return False, "caller %s: %s" % (c.name, why)
        return True, "start in all callers"

    for fn in prog.functions:
        if fn.file.endswith("core/aio.c"):
            continue
        for s, a, place in park_sites(fn):
            if a.get("vk") != "param":
                # local alias of a parameter?  (aio = param) handled below
                src = None
                for t in fn.assigns():
                    if t.node["lhs"].get("k") == "var" and t.node["lhs"]["n"] == a["n"]:
                        src = fn.expand(t.node["rhs"])
                if src is None or src.get("k") != "var" or src.get("vk") != "param":
                    continue
            ok, why = check(fn, a["n"], (s.b, s.i), 0)
            if not ok and place.startswith(LIST_PARK) and transient_park(fn, s, a["n"]):
                ok, why = True, "transient park: completed or removed again before the lock is released or the aio is started"
            if not ok and fn.name in SERVED and place.startswith(LIST_PARK):
                # park that is served at once: the same list was found empty (this aio becomes its head) and the
                # serving helper runs before the lock is released
                lst = fn.expand(s.node["args"][0])
                empty_true = {}
                for gs in fn.calls("nni_list_empty"):
                    if same_expr(fn.expand(gs.node["args"][0]), lst):
                        for b, (nz, z) in fn.value_edges(gs).items():
                            empty_true[b] = nz
                serve = [c for c in fn.calls(SERVED[fn.name][0])]
                unl = {(u.b, u.i) for u in fn.calls("nni_mtx_unlock")}
                if empty_true and serve and fn.dominated_by((s.b, s.i), edge_ok=lambda b, k: not (b in empty_true and k == empty_true[b])):
                    seen = fn.reach((s.b, s.i + 1), blocked=lambda b, i, e: (b, i) in {(c.b, c.i) for c in serve})
                    if not (seen & unl) and (fn.exit, 0) not in seen:
                        ok, why = True, "exception: " + SERVED[fn.name][1]
                        r.exception("%s %s" % (fn.name, place), SERVED[fn.name][1])
            if not ok and (fn.name, place) in EXC:
                gfn, gfield, reason = EXC[(fn.name, place)]
                # park must be unreachable once the start-success edges AND the
                # "list not empty" edge of the named guard are removed
                cut = {}
                for st in start_sites(fn):
                    for b, (nz, z) in fn.value_edges(st).items():
                        cut[b] = nz
                for gs in fn.calls(gfn):
                    ga = fn.expand(gs.node["args"][0])
                    if gfield in show(ga):
                        for b, (nz, z) in fn.value_edges(gs).items():
                            cut[b] = z
                if cut and fn.dominated_by((s.b, s.i), edge_ok=lambda b, k: not (b in cut and k == cut[b])):
                    ok, why = True, "exception: " + reason
                    r.exception("%s %s" % (fn.name, place), reason)
            if ok:
                r.ob(fn, "%s%s line %s: %s" % (place, a["n"], s.line, why))
            else:
                path = fn.find_path((fn.entry, 0), lambda bb, ii: (bb, ii) == (s.b, s.i))
                ctx.fail(r, fn, "park %s%s" % (place, a["n"]), s.line,
                         "user aio parked without a dominating successful nni_aio_start (%s)" % why,
                         fn.path_lines(path))


def run(ctx):
    ctx.guard(rule_a1)
    ctx.guard(rule_a2)


# ---------------------------------------------------------------------------
# A3: cancel handshake

from ..locks import lockinfo   # noqa: E402
from ..core import strip_addr   # noqa: E402
from ..pathsim import Sim, Client   # noqa: E402

UNPARK_CALLS = ("nni_aio_list_remove", "nni_list_remove", "nni_list_node_remove")
OWN_CALLS = ("nni_aio_list_active", "nni_list_active", "nni_list_node_active")


def cancel_functions(prog):
    out = {}
    for f in prog.functions:
        for s in f.calls(START):
            a = strip_addr(f.expand(s.node["args"][1])) if len(s.node["args"]) > 1 else None
            if a is not None and a.get("k") == "fnref":
                g = prog.fn(a["n"], f.file) or prog.fn(a["n"])
                if g is not None:
                    out.setdefault(g, []).append(f.name)
    return out


def mentions_var(n, name):
    return any(x.get("k") == "var" and x["n"] == name for x in walk(n))


def ownership_edges(fn, aio):
    """{block: succ index on which the cancel function *owns* aio} from
    tests of the form nni_aio_list_active(aio) / nni_list_active(L, aio) /
    X == aio / X != aio / nni_list_first(L) == aio."""
    out = {}
    for b in fn.blocks.values():
        if not b.term or len(b.succs) != 2:
            continue
        c = fn.cond(b.id)
        if c is None or not mentions_var(c, aio):
            continue
        t = truth_of(c, lambda n: n.get("k") == "call" and n.get("fn") in OWN_CALLS and mentions_var(n, aio))
        if t:
            out[b.id] = 0 if t > 0 else 1
            continue
        neg = 0
        cc = c
        while cc.get("k") == "un" and cc.get("op") == "!":
            cc = cc["e"]
            neg ^= 1
        if cc.get("k") == "bin" and cc.get("op") in ("==", "!="):
            sides = (cc["lhs"], cc["rhs"])
            if any(mentions_var(x, aio) for x in sides) and not all(mentions_var(x, aio) for x in sides):
                eq_edge = 0 if cc["op"] == "==" else 1
                out[b.id] = eq_edge ^ neg
    return out


def flag_ownership(fn, fin_pos):
    """Test-and-clear ownership through a flag/field: a branch on field path P
    (non-zero edge) dominates the finish, and P is assigned zero/NULL on every
    path from that edge to the finish.  Returns (edges, clear sites)."""
    edges = {}
    clears = set()
    for b in fn.blocks.values():
        if not b.term or len(b.succs) != 2:
            continue
        c = fn.cond(b.id)
        if c is None:
            continue
        fld = None
        for n in walk(c):
            if n.get("k") == "mem":
                fld = n
        if fld is None:
            continue
        txt = show(fld)
        t = truth_of(c, lambda n, txt=txt: n.get("k") == "mem" and show(n) == txt)
        if not t:
            continue
        nz = 0 if t > 0 else 1
        cl = set()
        for s in fn.assigns():
            if show(s.node["lhs"]) == txt:
                v = const_of(fn.expand(s.node["rhs"]))
                if v == 0:
                    cl.add((s.b, s.i))
        if not cl:
            continue
        # every path from the nz edge to the finish passes a clear
        tgt = b.succs[nz]
        if tgt is None:
            continue
        seen = fn.reach((tgt, 0), blocked=lambda bb, ii, e, cl=cl: (bb, ii) in cl)
        if fin_pos not in seen and fn.dominated_by(fin_pos, edge_ok=lambda bb, k, b=b, nz=nz: not (bb == b.id and k == nz)):
            edges[b.id] = nz
            clears |= cl
    return edges, clears


def unpark_sites(fn, aio, fields):
    """positions that un-park aio: list removal, or clearing of a field that
    is compared with aio in this function."""
    out = set()
    for s in fn.sites():
        n = s.node
        if n.get("k") == "call" and n.get("fn") in UNPARK_CALLS and any(
                a is not None and mentions_var(fn.expand(a), aio) for a in n["args"]):
            out.add((s.b, s.i))
        elif n.get("k") == "call" and n.get("fn") == "nni_aio_set_prov_data" and len(n["args"]) == 2 and \
                mentions_var(fn.expand(n["args"][0]), aio) and is_null(fn.expand(n["args"][1])):
            out.add((s.b, s.i))
        elif n.get("k") == "asg" and n.get("op") == "=" and is_null(fn.expand(n["rhs"])):
            if show(n["lhs"]) in fields:
                out.add((s.b, s.i))
    return out


def rule_a3(ctx):
    r = ctx.rule("C02.A3", "T6", "cancel functions: every finish of the cancelled aio is under the provider lock, dominated by "
                 "an ownership test on that aio, and the aio is un-parked on the same path; the not-owned path does not finish",
                 floor=45)
    prog = ctx.prog
    # accepted variants (single symbols)
    EXC = {
        "nni_sleep_cancel": "the aio framework's own sleep: ownership is the a_sleep flag tested under eq_mtx (aio.c)",
    }
    for fn, users in sorted(cancel_functions(prog).items(), key=lambda t: t[0].name):
        if not fn.params:
            continue
        aio = fn.params[0]["n"]
        fins = [s for s in fn.calls(FINISH) if s.node["args"] and mentions_var(fn.expand(s.node["args"][0]), aio)]
        if fn.name in EXC:
            r.exception(fn.name, EXC[fn.name])
            r.ob(fn, "excepted: " + EXC[fn.name])
            continue
        own = ownership_edges(fn, aio)
        info = lockinfo(fn)
        held_at = {}
        for pos, n, held in info.calls:
            held_at.setdefault((pos, n.get("_id")), set()).update(held)
        lock_at = dict(held_at)
        for pos, lhs, held in lockinfo(fn, True).writes:
            lock_at.setdefault((pos, None), set()).update(held)
        # fields compared with aio (field-style park places)
        fields = set()
        for b in fn.blocks.values():
            c = fn.cond(b.id) if b.term else None
            if c is not None and c.get("k") == "bin" and c.get("op") in ("==", "!="):
                for x, y in ((c["lhs"], c["rhs"]), (c["rhs"], c["lhs"])):
                    if x.get("k") == "var" and x["n"] == aio and y.get("k") in ("mem", "idx"):
                        fields.add(show(y))
        ups = unpark_sites(fn, aio, fields)
        if not fins:
            # variant: abort the inner operation and let its callback finish the user aio
            aborts = [s for s in fn.calls(("nni_aio_abort", "nni_aio_close", "nng_stream_close", "nni_aio_stop"))]
            r.ob(fn, "no direct finish (%s)" % ("aborts inner operation" if aborts else "delegates"))
            continue
        for s in fins:
            pos = (s.b, s.i)
            what = "%s(%s)" % (s.node["fn"], aio)
            locked_at = lambda p: any(h for (q, nid), h in held_at.items() if q == p)
            own2, ups2 = dict(own), set(ups)
            if not own2 or not fn.dominated_by(pos, edge_ok=lambda b, k: not (b in own2 and k == own2[b])):
                fe, fc = flag_ownership(fn, pos)
                own2.update(fe)
                ups2 |= fc
            # (b) dominated by an ownership edge
            if not own2 or not fn.dominated_by(pos, edge_ok=lambda b, k: not (b in own2 and k == own2[b])):
                path = fn.find_path((fn.entry, 0), lambda bb, ii: (bb, ii) == pos,
                                    edge_ok=lambda b, k: not (b in own2 and k == own2[b]))
                ctx.fail(r, fn, what + " without ownership test", s.line,
                         "finish of the cancelled aio is reachable without passing the owned edge of an ownership test "
                         "(nni_aio_list_active / nni_list_active / field == aio / test-and-clear flag)", fn.path_lines(path))
                continue
            # (c) un-parked on the same path
            pre = fn.reach((fn.entry, 0), blocked=lambda b, i, e: (b, i) in ups2)
            finish_locked = any(h for (q, nid), h in held_at.items() if q == pos and nid == s.node.get("_id"))
            if pos in pre:
                if not finish_locked or fn.reaches_exit((s.b, s.i + 1), blocked=lambda b, i, e: (b, i) in ups2):
                    ctx.fail(r, fn, what + " without un-park", s.line,
                             "the aio is finished on a path that never removes it from its park place (list removal / "
                             "field clear) under the lock: a later completion or cancel will finish it again")
                    continue
            # (d) the ownership test itself is evaluated under the provider lock
            unlocked_test = None
            for b in own2:
                blk = fn.blocks[b]
                if not blk.elems:
                    continue
                vis = info.visits.get((b, len(blk.elems) - 1), [])
                if vis and any(len(h) == 0 for h in vis):
                    unlocked_test = b
            if unlocked_test is not None:
                ctx.fail(r, fn, what + " ownership test outside lock", fn.line_of(unlocked_test, 0),
                         "the ownership test on the cancelled aio is evaluated without the provider lock: the normal "
                         "completion path can take the aio between the test and the finish")
                continue
            # (a) the ownership test + un-park (or the finish itself) happen under the provider lock
            ups_locked = [u for u in ups2 if any(h for (q, nid), h in lock_at.items() if q == u)]
            if not finish_locked and not ups_locked:
                ctx.fail(r, fn, what + " outside lock", s.line,
                         "neither the finish nor the un-park of the cancelled aio happens under the provider lock")
                continue
            r.ob(fn, "%s line %s: locked, ownership-tested, un-parked (registered by %s)" % (what, s.line, ",".join(users)))


# ---------------------------------------------------------------------------
# A4: single finish per path,  A5: taken-from-list aio is removed before finish

class _FinishClient(Client):
    def __init__(self, fn, report, after=None):
        self.fn = fn
        self.report = report
        self.after = after if after is not None else []

    def init(self, sim):
        return frozenset()

    def node(self, st, n, sim):
        fn = self.fn
        if n.get("k") == "call" and n.get("fn") in FINISH_OR_COMPLETE:
            ai = 1 if n["fn"] == "nni_aio_completions_add" else 0
            if len(n["args"]) > ai:
                p = apath(fn.expand(n["args"][ai]))
                if p is not None and "[]" not in p:
                    if p in st:
                        self.report.append((sim.here(), "->".join(p), sim.lines()))
                    return st | {p}
        elif n.get("k") == "call" and st and n.get("fn") and n["fn"] not in RESUBMIT:
            # any other call that receives an aio this path already completed
            for a in n["args"]:
                p = apath(fn.expand(a)) if a is not None else None
                if p is not None and p in st and len(p) == 1:
                    self.after.append((sim.here(), "->".join(p), n["fn"], sim.lines()))
        elif n.get("k") == "asg":
            p = apath(n["lhs"])
            if p is not None:
                return frozenset(q for q in st if q[:len(p)] != p and not (len(p) > 1 and q[-1:] == p[-1:]))
        elif n.get("k") == "call" and n.get("fn") in RESUBMIT:
            # the aio is (re)submitted: a later finish belongs to a new operation
            for a in n["args"]:
                p = apath(fn.expand(a)) if a is not None else None
                if p is not None and p in st:
                    return st - {p}
        return st


RESUBMIT = ("nni_aio_reset", "nni_aio_start", "nni_sleep_aio", "nni_pipe_recv", "nni_pipe_send", "nni_msgq_aio_get",
            "nni_msgq_aio_put", "nng_stream_send", "nng_stream_recv", "nng_sleep_aio", "nni_sock_send", "nni_sock_recv",
            "nni_ctx_send", "nni_ctx_recv", "nng_stream_listener_accept", "nng_stream_dialer_dial", "nni_http_read_full",
            "nni_http_read", "nni_http_write", "nni_http_write_full", "nni_dialer_start_aio")


def rule_a4(ctx):
    r = ctx.rule("C02.A4", "T6", "no path finishes the same aio expression twice (without re-submission or re-assignment "
                 "in between)", floor=150)
    for fn in ctx.prog.functions:
        if fn.cfg_failed or fn.file.endswith("core/aio.c"):
            continue
        if not any(True for _ in fn.calls(FINISH_OR_COMPLETE)):
            continue
        rep = []
        after = []
        sim = Sim(fn, _FinishClient(fn, rep, after), max_states=20000)
        sim.run()
        if sim.truncated:
            raise AnalysisBroken("finish simulation truncated in %s" % fn.name)
        seen_after = set()
        for line, what, callee, lines in after:
            if (what, callee) in seen_after:
                continue
            seen_after.add((what, callee))
            ctx.fail(r, fn, "%s(%s) after the aio was completed" % (callee, what), line,
                     "aio %s is passed to %s after it was completed on this path: its callback may already have re-used or "
                     "released it" % (what, callee), lines)
        if rep:
            for line, what, lines in rep[:3]:
                ctx.fail(r, fn, "double finish of %s" % what, line,
                         "aio %s is finished twice on one path" % what, lines)
        else:
            r.ob(fn, "%d states: no aio finished twice" % sim.nstates)


def rule_a5(ctx):
    r = ctx.rule("C02.A5", "T6", "an aio taken from a park list (nni_list_first/next) is removed from that list on every "
                 "path before it is finished", floor=40)
    TAKE = ("nni_list_first", "nni_list_next", "nni_list_last")
    for fn in ctx.prog.functions:
        if fn.cfg_failed:
            continue
        for t in fn.assigns():
            rhs = fn.expand(t.node["rhs"])
            lhs = t.node["lhs"]
            if not (rhs is not None and rhs.get("k") == "call" and rhs.get("fn") in TAKE and lhs.get("k") == "var"
                    and is_aio_ptr(lhs)):
                continue
            var = lhs["n"]
            rem = set()
            for s in fn.sites():
                n = s.node
                if n.get("k") == "call" and n.get("fn") in UNPARK_CALLS and any(
                        a is not None and mentions_var(fn.expand(a), var) for a in n["args"]):
                    rem.add((s.b, s.i))
            fins = [s for s in fn.calls(FINISH_OR_COMPLETE)
                    if any(a is not None and fn.expand(a).get("k") == "var" and fn.expand(a)["n"] == var
                           for a in s.node["args"][:2])]
            if not fins:
                continue

            def blocked(b, i, e, rem=rem, t=t, var=var):
                if (b, i) in rem:
                    return True
                # re-assignment of the variable starts a new "take"
                if (b, i) != (t.b, t.i):
                    for n in walk(e):
                        if n.get("k") == "asg" and n["lhs"].get("k") == "var" and n["lhs"]["n"] == var:
                            return True
                return False
            ve = fn.value_edges(t)
            seen = fn.reach((t.b, t.i + 1), blocked=blocked,
                            edge_ok=lambda b, k, ve=ve: not (b in ve and k == ve[b][1]))
            bad = [s for s in fins if (s.b, s.i) in seen]
            if bad:
                s = bad[0]
                ctx.fail(r, fn, "finish of %s taken from %s without removal" % (var, show(rhs)[:50]), s.line,
                         "aio obtained by %s is finished without being removed from the list on this path"
                         % show(rhs)[:60])
            else:
                r.ob(fn, "%s = %s line %s: removed before every finish" % (var, show(rhs)[:40], t.line))


def rule_a7(ctx):
    r = ctx.rule("C02.A7", "T2", "an aio taken out of its park field (x = o->F; o->F = NULL) is completed, re-parked or handed on "
                 "along every path on which it is not NULL: taking it and then returning loses the only reference and the "
                 "operation never completes", floor=15)
    prog = ctx.prog
    for fn in prog.functions:
        if fn.cfg_failed:
            continue
        takes = []
        for t in fn.assigns():
            lhs, rhs = t.node["lhs"], fn.expand(t.node["rhs"])
            if lhs.get("k") == "var" and is_aio_ptr(lhs) and rhs is not None and rhs.get("k") == "mem" and is_aio_ptr(rhs):
                takes.append((t, lhs["n"], rhs))
        for s0 in fn.sites():
            if s0.node.get("k") == "decls":
                for d in s0.node["d"]:
                    ini = fn.expand(d["init"]) if d.get("init") else None
                    if d["t"] in AIO_TYPES and ini is not None and ini.get("k") == "mem" and is_aio_ptr(ini):
                        takes.append((s0, d["n"], ini))
        for t, var, fld in takes:
            clears = [c for c in fn.assigns() if same_expr(c.node["lhs"], fld) and is_null(fn.expand(c.node["rhs"]))]
            clears = [c for c in clears if (c.b, c.i) in fn.reach((t.b, t.i))]
            if not clears:
                continue
            uses = set()
            for s in fn.sites():
                n = s.node
                if n.get("k") == "call" and any(a is not None and mentions_var(fn.expand(a), var) for a in n["args"]):
                    uses.add((s.b, s.i))
                if n.get("k") == "asg" and n["lhs"].get("k") != "var" and mentions_var(fn.expand(n["rhs"]), var):
                    uses.add((s.b, s.i))
                if n.get("k") == "ret" and n.get("e") is not None and mentions_var(fn.expand(n["e"]), var):
                    uses.add((s.b, s.i))
            nulledge = {}
            for b in fn.blocks.values():
                if b.term and len(b.succs) == 2:
                    c = fn.cond(b.id)
                    tt = truth_of(c, lambda n: n.get("k") == "var" and n["n"] == var) if c else 0
                    if tt:
                        nulledge[b.id] = 1 if tt > 0 else 0
            # re-assignment of the variable ends this take
            reassign = set()
            for a2 in fn.assigns():
                if a2.node["lhs"].get("k") == "var" and a2.node["lhs"]["n"] == var and (a2.b, a2.i) != (t.b, t.i):
                    reassign.add((a2.b, a2.i))
            for c in clears:
                # completed first, cleared afterwards: every path from the take to the clear passes a use
                if (c.b, c.i) not in fn.reach((t.b, t.i + 1), blocked=lambda b, i, e: (b, i) in uses):
                    r.ob(fn, "%s = %s: completed / handed on before the field is cleared at line %s" % (var, show(fld), c.line))
                    continue
                seen = fn.reach((c.b, c.i + 1), blocked=lambda b, i, e: (b, i) in uses or (b, i) in reassign,
                                edge_ok=lambda b, k: not (b in nulledge and k == nulledge[b]))
                if (fn.exit, 0) in seen:
                    path = fn.find_path((c.b, c.i + 1), lambda bb, ii: (bb, ii) == (fn.exit, 0),
                                        blocked=lambda b, i, e: (b, i) in uses or (b, i) in reassign,
                                        edge_ok=lambda b, k: not (b in nulledge and k == nulledge[b]))
                    ctx.fail(r, fn, "%s taken from %s and dropped" % (var, show(fld)), c.line,
                             "%s is taken out of %s (cleared at line %s) and the function can return without completing, "
                             "re-parking or passing it on while it is not NULL: that operation never completes"
                             % (var, show(fld), c.line), fn.path_lines(path))
                else:
                    r.ob(fn, "%s = %s; cleared line %s: completed or handed on along every non-NULL path" % (var, show(fld), c.line))


def rule_d1(ctx):
    from .c10 import summaries, INLINE
    from ..locks import callees, BARRIER
    r = ctx.rule("C02.D1", "T7", "nni_aio_finish_sync / nni_aio_completions_run / nni_task_exec are never reached while a "
                 "mutex is held (the callback would run under the provider lock)", floor=20)
    S = summaries(ctx.prog)
    for fn, info in S.infos.items():
        for pos, n, held in info.calls:
            direct = n.get("fn") in INLINE
            via = None
            if not direct:
                for g in callees(ctx.prog, fn, n):
                    if g.name in BARRIER:
                        continue
                    for e, chain in S.eff.get(g, {}).items():
                        if e in INLINE:
                            via = (e, chain)
            if not direct and not via:
                continue
            if held:
                hcls = ",".join(sorted(c for _, c in held))
                e, chain = (n["fn"], (n["fn"],)) if direct else via
                ctx.fail(r, fn, "%s under %s" % (e, hcls), fn.line_of(*pos),
                         "%s reached while holding %s: %s" % (e, hcls, " > ".join(chain)))
            else:
                r.ob(fn, "%s line %s: no mutex held" % (n.get("fn") or "indirect", fn.line_of(*pos)))


def rule_e1(ctx):
    """timer thread: the scan of eq_list accounts for every entry it walks past"""
    r = ctx.rule("C02.E1", "T2", "expiry scan: every aio the timer thread walks past is either moved to the batch (removed from "
                 "eq_list, bounded by the batch array) or lowers eq_next; eq_next is reset before the scan and is the wake-up "
                 "time of the wait; every batch entry is dispatched or cancelled and its a_expiring hold released", floor=8)
    fn = ctx.prog.need("nni_aio_expire_loop", "core/aio.c")
    from .. import guards as G
    # scan loop: a block testing `aio != NULL` from which a nni_list_next(&eq_list, aio) assignment leads back to it
    nexts = [s for s in fn.calls("nni_list_next") if last_field(fn.expand(s.node["args"][0])) == "nni_aio_expire_q.eq_list"]
    if not nexts:
        raise AnalysisBroken("nni_aio_expire_loop: nni_list_next(&q->eq_list, ..) vanished")
    hdr = None
    for b in fn.blocks.values():
        c = fn.cond(b.id) if b.term and len(b.succs) == 2 else None
        if c is None or not (c.get("k") == "bin" and c["op"] == "!=" and c["lhs"].get("k") == "var" and is_null(c["rhs"])):
            continue
        if b.succs[0] is None:
            continue
        body = fn.reach((b.succs[0], 0), blocked=lambda bb, i, e, b=b: False, edge_ok=None)
        if (b.id, 0) in body and any((s.b, s.i) in fn.reach((b.succs[0], 0), blocked=lambda bb, i, e, b=b: bb == b.id) for s in nexts):
            # innermost candidate: the one whose body (not crossing itself) contains the list walk
            if hdr is None or len(fn.blocks[b.id].elems) <= len(fn.blocks[hdr].elems):
                hdr = b.id
    if hdr is None:
        raise AnalysisBroken("nni_aio_expire_loop: scan loop header not found")
    var = fn.cond(hdr)["lhs"]["n"]
    removes = G.positions(s for s in fn.calls("nni_list_remove")
                          if last_field(fn.expand(s.node["args"][0])) == "nni_aio_expire_q.eq_list")
    mins = set()
    min_edges = {}
    for b in fn.blocks.values():
        c = fn.cond(b.id) if b.term and len(b.succs) == 2 else None
        if c is not None and c.get("k") == "bin" and c["op"] in ("<", "<=", ">", ">=") and \
                {last_field(c["lhs"]), last_field(c["rhs"])} == {"nng_aio.a_expire", "nni_aio_expire_q.eq_next"}:
            mins.add((b.id, len(b.elems)))
            min_edges[b.id] = 0 if c["op"] in ("<", "<=") and last_field(c["lhs"]) == "nng_aio.a_expire" else \
                (0 if c["op"] in (">", ">=") and last_field(c["rhs"]) == "nng_aio.a_expire" else 1)
    if not removes or not mins:
        ctx.fail(r, fn, "scan accounting anchors", fn.line,
                 "the scan no longer removes expiring entries from eq_list or no longer compares a_expire with eq_next")
        return
    body_start = (fn.blocks[hdr].succs[0], 0)
    post = fn.blocks[hdr].succs[1]
    seen = fn.reach(body_start, blocked=lambda b, i, e: (b, i) in removes or b == hdr,
                    edge_ok=lambda b, k: not ((b, len(fn.blocks[b].elems)) in mins))
    # leaving the body: either back at the header or in the code after the loop
    back = [p for p in seen if any(fn.blocks[p[0]].succs[k] == hdr for k in range(len(fn.blocks[p[0]].succs)))
            and p[1] == len(fn.blocks[p[0]].elems)]
    out = (post, 0) in seen
    if back or out:
        why = "leaves the scan loop" if out else "goes on to the next entry"
        goal = (post, 0) if out else back[0]
        ctx.fail(r, fn, "entry walked past without accounting", fn.line_of(hdr, 0),
                 "a path through the scan %s without removing the aio from eq_list and without the a_expire < eq_next "
                 "comparison: eq_next can stay NNI_TIME_NEVER while due entries are still queued, and their operations never "
                 "complete" % why,
                 G.path_lines(fn, body_start, goal, blocked=removes, cut={b: 0 for b, _ in mins} if False else None) or
                 fn.path_lines(fn.find_path(body_start, lambda b, i: (b, i) == goal,
                                            blocked=lambda b, i, e: (b, i) in removes or b == hdr,
                                            edge_ok=lambda b, k: not ((b, len(fn.blocks[b].elems)) in mins))))
    else:
        r.ob(fn, "scan body: every path removes the entry or compares it with eq_next")
    # the true edge of the comparison stores a_expire into eq_next
    for b, k in min_edges.items():
        tgt = fn.blocks[b].succs[k]
        st = [s for s in G.stores(fn, "eq_next") if s.b == tgt and last_field(fn.expand(s.node["rhs"])) == "nng_aio.a_expire"]
        if st:
            r.ob(fn, "eq_next lowered to a_expire on the earlier-than edge")
        else:
            ctx.fail(r, fn, "eq_next not lowered", fn.line_of(b, 0), "the edge on which a_expire is earlier than eq_next does not store it")
    # reset before the scan
    resets = [s for s in G.stores(fn, "eq_next") if const_of(fn.expand(s.node["rhs"])) is not None]
    if resets and fn.dominated_by((hdr, 0), blocked=lambda b, i, e: (b, i) in G.positions(resets)) is False:
        pass
    pre = fn.reach((fn.entry, 0), blocked=lambda b, i, e: (b, i) in G.positions(resets) or (b, i) in G.positions(
        s for s in fn.calls("nni_list_first")))
    # every way into the scan from a fresh nni_list_first passes the reset
    firsts = [s for s in fn.calls("nni_list_first") if last_field(fn.expand(s.node["args"][0])) == "nni_aio_expire_q.eq_list"]
    okr = bool(resets) and bool(firsts)
    for s in firsts:
        sn = fn.reach((s.b, s.i + 1), blocked=lambda b, i, e: (b, i) in G.positions(resets))
        if (hdr, 0) in sn:
            okr = False
    if okr:
        r.ob(fn, "eq_next reset to NNI_TIME_NEVER before every scan")
    else:
        ctx.fail(r, fn, "eq_next not reset before the scan", fn.line_of(hdr, 0),
                 "a scan can start with the previous eq_next: an entry that was removed meanwhile keeps the thread spinning, "
                 "or a later minimum is never recorded")
    # the wait uses the eq_next read under the lock in the same iteration
    for s in fn.calls("nni_cv_until"):
        a = fn.expand(s.node["args"][1])
        good = False
        if a.get("k") == "var":
            from .c01 import reaching_defs
            rd = reaching_defs(fn, a["n"], (s.b, s.i))
            good = bool(rd) and all(last_field(x) == "nni_aio_expire_q.eq_next" for _, x in rd)
        elif last_field(a) == "nni_aio_expire_q.eq_next":
            good = True
        if good:
            r.ob(fn, "the timer thread sleeps until eq_next")
        else:
            ctx.fail(r, fn, "wait deadline is not eq_next", s.line, "nni_cv_until(cv, %s)" % show(a))
    # batch bound
    arr = None
    for s in fn.assigns():
        l = s.node["lhs"]
        if l.get("k") == "idx" and l["b"].get("k") == "var" and fn.locals().get(l["b"]["n"], {}).get("t", "").endswith("]"):
            i = l["i"]
            if i.get("k") == "un" and i.get("op") == "++":
                arr = (s, l["b"]["n"], i["e"])
    if arr is None:
        raise AnalysisBroken("nni_aio_expire_loop: batch store vanished")
    s, aname, ivar = arr
    t = fn.locals()[aname]["t"]
    try:
        size = int(t[t.rindex("[") + 1:-1])
    except ValueError:
        size = None
    bound = G.cmp_edges(fn, lambda l: same_expr(l, ivar), {"<": 0, ">=": 1}, rhs_match=lambda x: const_of(x) is not None and
                        size is not None and const_of(x) <= size)
    # `idx == N -> leave` is as good as `idx < N` when idx only ever moves by ++ from 0
    steps_ok = True
    for x in fn.sites():
        n = x.node
        if n.get("k") == "asg" and same_expr(n["lhs"], ivar) and not (n.get("op") == "=" and const_of(fn.expand(n["rhs"])) == 0):
            steps_ok = False
        if n.get("k") == "un" and n.get("op") in ("--",) and same_expr(n["e"], ivar):
            steps_ok = False
    if steps_ok:
        bound.update(G.cmp_edges(fn, lambda l: same_expr(l, ivar), {"!=": 0, "==": 1}, rhs_match=lambda x: const_of(x) is not None and
                                 size is not None and 0 < const_of(x) <= size))
    if bound and G.dominated(fn, (s.b, s.i), bound):
        r.ob(fn, "batch store %s[%s++] bounded by the array size %s" % (aname, show(ivar), size))
    else:
        ctx.fail(r, fn, "batch store unbounded", s.line, "%s[%s++] is not dominated by %s < %s" % (aname, show(ivar), show(ivar), size))
    # dispatch loop: each entry is dispatched or cancelled, hold released
    holds = [x for x in G.stores(fn, "a_expiring", value="nonnull")]
    rel = [x for x in G.stores(fn, "a_expiring", value="null")]
    loads = [x for x in fn.assigns() if x.node["rhs"] is not None and fn.expand(x.node["rhs"]).get("k") == "idx" and
             fn.expand(x.node["rhs"])["b"].get("k") == "var" and fn.expand(x.node["rhs"])["b"]["n"] == aname]
    if not holds or not rel or not loads:
        ctx.fail(r, fn, "a_expiring hold", fn.line, "the expiring hold is no longer taken in the scan and released after the dispatch")
        return
    for ld in loads:
        acts = G.positions(list(fn.calls("nni_task_dispatch")) + [c for c in fn.calls(None) if c.node.get("ind") is not None])
        # after loading an entry: release on every path to the next load / loop exit
        bad = G.must_pass(fn, (ld.b, ld.i + 1), G.positions(rel), stop={(ld.b, ld.i)} | {(fn.exit, 0)} |
                          G.positions(fn.calls("nni_cv_wake")))
        if bad:
            ctx.fail(r, fn, "a_expiring not released", ld.line, "a batch entry can be left with a_expiring set: nni_aio_stop/free spin forever")
        else:
            r.ob(fn, "every batch entry releases its a_expiring hold")
        # sleep -> dispatch; else cancel_fn != NULL -> call
        sl = {b: k for b, k in G.cond_edges(fn, lambda n: n.get("k") == "mem" and n["f"] == "a_sleep").items()}
        okd = False
        for b, k in sl.items():
            tgt = fn.blocks[b].succs[k]
            if not G.must_pass(fn, (tgt, 0), G.positions(fn.calls("nni_task_dispatch")), stop=G.positions(rel)):
                okd = True
        if okd:
            r.ob(fn, "sleeping aio is completed by dispatching its task")
        else:
            ctx.fail(r, fn, "sleep expiry not dispatched", ld.line, "an expired nng_sleep_aio does not reach nni_task_dispatch")
        ind = [c for c in fn.sites() if c.node.get("k") == "call" and c.node.get("ind") is not None]
        if ind:
            r.ob(fn, "non-sleep entries are handed to their cancel function (%d indirect call)" % len(ind))
        else:
            ctx.fail(r, fn, "cancel function not invoked", ld.line, "expired operations are no longer handed to a_cancel_fn")



def rule_s3(ctx):
    """head-of-queue service: whoever completes the head must start the next one"""
    from .. import guards as G
    r = ctx.rule("C02.S3", "T2", "head-of-queue service: where a submit function starts the transfer only when the new aio is the head "
                 "of its queue (one operation in flight), every function that takes the head off that queue starts the next one "
                 "(or re-examines the queue) before it returns: otherwise the operations queued behind it never start and never "
                 "complete", floor=12)
    prog = ctx.prog
    gated = {}     # (file, queue field) -> set of start function names
    for f in prog.functions:
        if f.cfg_failed:
            continue
        apps = [c for c in f.calls(("nni_list_append", "nni_aio_list_append")) if len(c.node["args"]) == 2]
        for a in apps:
            q = last_field(f.expand(a.node["args"][0]))
            av = f.expand(a.node["args"][1])
            if not q or av.get("k") != "var":
                continue
            heads = G.rel_edges(f, lambda n: n.get("k") == "call" and n.get("fn") == "nni_list_first" and
                                last_field(f.expand(n["args"][0])) == q,
                                lambda n: n.get("k") == "var" and n["n"] == av["n"], "==")
            if not heads:
                continue
            for c in f.calls():
                if c.node.get("fn") and c.node["fn"] not in ("nni_list_first", "nni_mtx_unlock", "nni_mtx_lock") and \
                        G.dominated(f, (c.b, c.i), heads) and prog.resolve(f, c.node["fn"]) is not None:
                    gated.setdefault((f.file, q), set()).add(c.node["fn"])
    def submits_inner(h, depth=0):
        """h hands an aio that is a field of its object (&o->txaio, or a local alias of it) to some function: it starts an
        inner operation, as opposed to trying to complete the user's aio at once"""
        if h is None or h.cfg_failed:
            return False
        for c in h.calls():
            for a in c.node["args"]:
                a = h.expand(a) if a is not None else None
                if a is None:
                    continue
                if a.get("k") == "var":
                    ds = G.var_defs(h, a["n"])
                    if len(ds) == 1 and ds[0][1] is not None:
                        a = ds[0][1]
                if a.get("k") == "un" and a.get("op") == "&" and a["e"].get("k") == "mem" and "aio" in (a["e"].get("t") or ""):
                    if c.node.get("fn") not in ("nni_aio_result", "nni_aio_count", "nni_aio_get_msg", "nni_aio_set_msg",
                                                "nni_aio_set_iov", "nni_aio_iov_advance", "nni_aio_iov_count", "nni_aio_abort",
                                                "nni_aio_close", "nni_aio_stop", "nni_aio_fini", "nni_aio_init",
                                                "nni_aio_get_output", "nni_aio_set_output", "nni_aio_set_timeout"):
                        return True
            if depth < 1 and c.node.get("fn"):
                k = prog.resolve(h, c.node["fn"])
                if k is not None and k is not h and k.file == h.file and submits_inner(k, depth + 1):
                    return True
        return False
    for key in list(gated):
        gated[key] = {n for n in gated[key] if submits_inner(prog.fn(n, key[0]) or prog.fn(n))}
        if not gated[key]:
            del gated[key]
    if len(gated) < 5:
        raise AnalysisBroken("only %d head-gated queues found" % len(gated))
    for (file, q), starts in sorted(gated.items()):
        for g in prog.functions:
            if g.file != file or g.cfg_failed:
                continue
            for c in g.calls(("nni_list_remove", "nni_aio_list_remove")):
                xa = g.expand(c.node["args"][-1])
                if xa.get("k") != "var":
                    continue
                if c.node["fn"] == "nni_list_remove" and last_field(g.expand(c.node["args"][0])) != q:
                    continue
                rd = G.reaching_defs(g, xa["n"], (c.b, c.i))
                if not rd or not all(x is not None and x.get("k") == "call" and x.get("fn") == "nni_list_first" and
                                     last_field(g.expand(x["args"][0])) == q for _, x in rd):
                    continue
                serve = {(s.b, s.i) for s in g.calls() if s.node.get("fn") in starts}
                # a helper that itself calls the start function counts (one level)
                for s in g.calls():
                    h = prog.resolve(g, s.node["fn"]) if s.node.get("fn") else None
                    if h is not None and h.file == file and not h.cfg_failed and any(x.node.get("fn") in starts for x in h.calls()):
                        serve.add((s.b, s.i))
                if "/sp/transport/" in g.file:
                    # an SP transport pipe that fails a user operation is finished: "we do not queue up another receive;
                    # the protocol should notice this error and close the pipe" (tcp.c) -- closing flushes the queue
                    serve |= {(s.b, s.i) for s in g.calls("nni_aio_finish_error")}
                again = {(s.b, s.i) for s in g.calls("nni_list_first") if last_field(g.expand(s.node["args"][0])) == q}
                again |= {(s.b, s.i) for s in g.calls("nni_list_empty") if last_field(g.expand(s.node["args"][0])) == q}
                # a failed inner transfer or a closed object ends the service: the connection is dead and the owner
                # tears the queue down (documented in the transports: "we do not queue up another receive")
                dead = {}
                if "/sp/transport/" in g.file:
                    for x in g.calls("nni_aio_result"):
                        for b, (nz, z) in g.value_edges(x).items():
                            dead[b] = nz
                for b, k in G.nz_edges(g, lambda n: n.get("k") == "mem" and n["f"] == "closed").items():
                    dead.setdefault(b, k)

                def eok(b, k):
                    return not (b in dead and k == dead[b])
                # the removal itself may sit on the dead branch
                on_dead = not g.dominated_by((c.b, c.i), edge_ok=lambda b, k: not eok(b, k)) is False and \
                    (c.b, c.i) not in g.reach((g.entry, 0), edge_ok=eok)
                seen = set() if on_dead else g.reach((c.b, c.i + 1), blocked=lambda b, i, e: (b, i) in serve or (b, i) in again,
                                                     edge_ok=eok)
                if (g.exit, 0) in seen and g.name not in starts:
                    path = g.find_path((c.b, c.i + 1), lambda b, i: (b, i) == (g.exit, 0),
                                       blocked=lambda b, i, e: (b, i) in serve or (b, i) in again, edge_ok=eok)
                    ctx.fail(r, g, "head of %s removed without starting the next" % q, c.line,
                             "%s takes the head off %s at line %s and can return without %s and without looking at the queue "
                             "again: operations queued behind it are never started" % (g.name, q, c.line, "/".join(sorted(starts))),
                             g.path_lines(path))
                else:
                    r.ob(g, "head of %s removed line %s: next one started / queue re-examined" % (q, c.line))


# ---------------------------------------------------------------------------
# T1: the absolute-expiry mode flag and the values it qualifies change together


def rule_t1(ctx):
    from .. import guards as G
    r = ctx.rule("C02.T1", "T3", "a timeout never fires early: a_use_expire says that a_expire holds a caller-chosen absolute time. "
                 "(a) a store of a caller's value into a_expire sets the flag, (b) an unconditional store of a caller's duration "
                 "into a_timeout clears it, (c) a store of NNI_TIME_NEVER into a_expire that is not made under a test of the flag "
                 "clears it (or the object was just zeroed) -- a stale flag makes the next operation ignore its timeout or reuse "
                 "an old deadline", floor=3)
    prog = ctx.prog
    n = 0
    for f in prog.fns_in("core/aio.c"):
        if f.cfg_failed:
            continue
        params = {p_["n"] for p_ in f.params}
        flag_sets = {True: [], False: []}
        for t in f.assigns():
            if t.node["lhs"].get("k") == "mem" and t.node["lhs"].get("f") == "a_use_expire":
                cv = const_of(f.expand(t.node["rhs"]))
                if cv is not None:
                    flag_sets[bool(cv)].append((t.b, t.i))
        facts = G.edge_facts(f)
        zeroed = [(c.b, c.i) for c in f.calls("memset")]
        for t in f.assigns():
            l = t.node["lhs"]
            if l.get("k") != "mem" or t.node.get("op") != "=":
                continue
            rhs = f.expand(t.node["rhs"])
            from_param = rhs is not None and rhs.get("k") == "var" and rhs["n"] in params
            need = None
            if l.get("f") == "a_expire" and from_param:
                need, what = True, "(a) caller's absolute time stored"
            elif l.get("f") == "a_timeout" and from_param:
                # only an unconditional store is a setter (replacing a default under a test of a_timeout is not)
                if f.dominated_by((f.exit, 0), blocked=lambda b, i, e, t=t: (b, i) == (t.b, t.i)):
                    need, what = False, "(b) caller's duration stored"
            elif l.get("f") == "a_expire" and not from_param and const_of(rhs) is not None and const_of(rhs) != 0 and rhs.get("k") != "bin":
                under_flag = any(any(m.get("k") == "mem" and m.get("f") == "a_use_expire" for m in walk(atom)) and
                                 G.dominated(f, (t.b, t.i), {bid: k}) for bid, k, atom, val in facts)
                fresh = any(f.dominated_by((t.b, t.i), blocked=lambda b, i, e, z=z: (b, i) == z) for z in zeroed)
                if not under_flag and not fresh:
                    need, what = False, "(c) deadline reset to never"
            if need is None:
                continue
            n += 1
            sets = flag_sets[need]
            # the flag store is on every path through this store (before it since the function's entry, or after it)
            ok = sets and (f.dominated_by((t.b, t.i), blocked=lambda b, i, e: (b, i) in sets) or
                           (f.exit, 0) not in f.reach((t.b, t.i + 1), blocked=lambda b, i, e: (b, i) in sets))
            if ok:
                r.ob(f, "%s line %s: a_use_expire = %s on the same path" % (what, t.line, "true" if need else "false"))
            else:
                ctx.fail(r, f, "%s without a_use_expire = %s" % (show(l), "true" if need else "false"), t.line,
                         "%s: %s at line %s, but a_use_expire is not set to %s on that path: the flag keeps describing the "
                         "previous value, so a later operation %s"
                         % (f.name, what, t.line, "true" if need else "false",
                            "ignores the new timeout and expires at the stale absolute time" if not need else "ignores the absolute time"))
    if n < 3:
        raise AnalysisBroken("only %d stores to a_expire / a_timeout recognised in aio.c" % n)


# ---------------------------------------------------------------------------
# L2: one lock per park place


def rule_l2(ctx):
    from collections import defaultdict
    r = ctx.rule("C02.L2", "T7", "one lock per park place: the sites that read or write a field holding a parked caller's aio under a mutex "
                 "all hold one common mutex -- where the completion path takes the aio under one lock and the cancel function "
                 "under another, both can complete it (callback runs twice)", floor=15)
    prog = ctx.prog
    callers = prog.callers()

    def must_held(f, pos, depth=0):
        info = lockinfo(f)
        vs = info.visits.get(pos, [])
        held = set.intersection(*[set(c for _, c in h) for h in vs]) if vs else set()
        if not held and depth < 2 and not info.acquires:
            cs = [(c, s_) for (c, s_) in callers.get(f.name, []) if c.file == f.file and not c.cfg_failed and prog.resolve(c, f.name) is f]
            if cs:
                sets = [must_held(c, (s_.b, s_.i), depth + 1) for c, s_ in cs]
                return set.intersection(*sets) if sets else set()
        return held
    acc = defaultdict(list)
    for f in prog.functions:
        if f.cfg_failed or f.file.endswith("_test.c") or "testing/" in f.file:
            continue
        if f.name.endswith(("_init", "_fini", "_alloc", "_free", "_reap", "_destroy")):
            continue
        for s_ in f.sites():
            nd = s_.node
            if nd.get("k") == "mem" and (nd.get("t") or "").replace(" ", "") in ("nni_aio*", "nng_aio*", "structnng_aio*"):
                lf = last_field(nd)
                if lf:
                    acc[lf].append((f, s_))
    n = 0
    for lf, sites in sorted(acc.items()):
        held = [(f, s_, frozenset(must_held(f, (s_.b, s_.i)))) for f, s_ in sites]
        locked = [x for x in held if x[2]]
        if len(locked) < 2:
            continue
        n += 1
        common = frozenset.intersection(*[h for _, _, h in locked])
        if common:
            r.ob(None, "%s: %d locked access sites share %s" % (lf, len(locked), ",".join(sorted(common))))
        else:
            # name two sites with disjoint locks
            a = locked[0]
            b = next(x for x in locked if not (x[2] & a[2]))
            ctx.fail(r, b[0], "%s accessed under %s and under %s" % (lf, ",".join(sorted(a[2])), ",".join(sorted(b[2]))), b[1].line,
                     "%s is read / written at %s:%s holding %s and at %s:%s holding %s, with no mutex in common: a completion "
                     "on one side and a cancel on the other can both take the same aio and complete it"
                     % (lf, a[0].name, a[1].line, ",".join(sorted(a[2])), b[0].name, b[1].line, ",".join(sorted(b[2]))))
    if n < 15:
        raise AnalysisBroken("only %d parked-aio fields with locked access sites" % n)


def rule_t2(ctx):
    from .. import guards as G
    r = ctx.rule("C02.T2", "T3", "one-shot latches do not leak into the next operation: a boolean field of the aio that nni_aio_start consumes "
                 "(tests, refuses to start, and clears) and that another function sets is also cleared by nni_aio_reset, which "
                 "every provider calls when a new operation begins -- otherwise an abort that arrived after the previous "
                 "operation had completed aborts (or falsely completes) the next one", floor=1)
    prog = ctx.prog
    start = prog.need("nni_aio_start", "core/aio.c")
    reset = prog.need("nni_aio_reset", "core/aio.c")
    latches = []
    for bid, k, atom, val in G.edge_facts(start):
        if not val or atom.get("k") != "mem" or (atom.get("t") or "") not in ("bool", "_Bool"):
            continue
        fld = atom.get("f")
        tgt = start.blocks[bid].succs[k]
        if tgt is None:
            continue
        seen = start.reach((tgt, 0))
        clears = [t for t in start.assigns() if (t.b, t.i) in seen and t.node["lhs"].get("k") == "mem" and t.node["lhs"].get("f") == fld and
                  const_of(start.expand(t.node["rhs"])) == 0 and G.dominated(start, (t.b, t.i), {bid: k})]
        setters = [f.name for f in prog.fns_in("core/aio.c") if not f.cfg_failed and f is not start for t in f.assigns()
                   if t.node["lhs"].get("k") == "mem" and t.node["lhs"].get("f") == fld and const_of(f.expand(t.node["rhs"])) not in (None, 0)]
        if clears and setters and fld not in latches:
            latches.append(fld)
    if not latches:
        raise AnalysisBroken("nni_aio_start consumes no one-shot latch any more (a_abort vanished)")
    for fld in latches:
        cl = [t for t in reset.assigns() if t.node["lhs"].get("k") == "mem" and t.node["lhs"].get("f") == fld and
              const_of(reset.expand(t.node["rhs"])) == 0]
        if cl and reset.dominated_by((reset.exit, 0), blocked=lambda b, i, e: (b, i) in {(t.b, t.i) for t in cl}):
            r.ob(reset, "%s cleared when an operation begins" % fld)
        else:
            ctx.fail(r, reset, "%s not cleared by nni_aio_reset" % fld, reset.line,
                     "nni_aio_start refuses to start when %s is set and clears it, and nni_aio_abort sets it on an aio that has "
                     "no operation scheduled; nni_aio_reset no longer clears it, so a cancel that arrived after one operation "
                     "finished is latched into the next operation, which is completed at once without running" % fld)


def rule_a8(ctx):
    from .. import guards as G
    r = ctx.rule("C02.A8", "T6", "an aio picked up before the provider lock is dropped is stale when the lock is taken again: a function "
                 "that unlocks, blocks and re-locks (the resolver workers around getaddrinfo) completes an aio only through a "
                 "value it obtained after the re-lock -- in the meantime a cancel may have completed the aio and handed it back "
                 "to its owner (double completion, use after free)", floor=2)
    prog = ctx.prog
    n = 0
    for f in prog.functions:
        if f.cfg_failed or f.file.endswith("_test.c"):
            continue
        unl = [c for c in f.calls("nni_mtx_unlock")]
        lk = [c for c in f.calls("nni_mtx_lock")]
        fins = [c for c in f.calls(FINISH)] if unl and lk else []
        if not fins:
            continue
        for u in unl:
            ukey = show(f.expand(u.node["args"][0])) if u.node["args"] else None
            for l in lk:
                if not l.node["args"] or show(f.expand(l.node["args"][0])) != ukey:
                    continue
                between = f.reach((u.b, u.i + 1), blocked=lambda b, i, e: (b, i) == (l.b, l.i))
                if (l.b, l.i) not in f.reach((u.b, u.i + 1)) or not any(
                        (c.b, c.i) in between and c.node.get("fn") not in ("nni_mtx_lock", "nni_mtx_unlock") for c in f.calls()):
                    continue          # not a window: nothing runs between the unlock and the re-lock
                for c in fins:
                    a = f.expand(c.node["args"][0]) if c.node["args"] else None
                    if a is None or a.get("k") != "var" or a.get("vk") != "local":
                        continue
                    defs = {p_ for p_, _ in G.var_defs(f, a["n"])}
                    stop = lambda b, i, e: (b, i) in defs
                    if (c.b, c.i) not in f.reach((l.b, l.i + 1), blocked=lambda b, i, e: (b, i) == (u.b, u.i)):
                        continue          # not after this window
                    n += 1
                    # the finish is reached from the re-lock without a new value of the variable, and the value is one
                    # that was assigned before the unlock
                    stale = [p_ for p_ in defs if (u.b, u.i) in f.reach((p_[0], p_[1] + 1), blocked=stop)] \
                        if (c.b, c.i) in f.reach((l.b, l.i + 1), blocked=stop) else []
                    if stale:
                        ctx.fail(r, f, "%s completed with a value from before the lock was dropped" % a["n"], c.line,
                                 "%s assigns %s at line %s, releases %s at line %s (blocking work follows), re-acquires it at line %s "
                                 "and completes %s at line %s without reading it again from its owning cell: a cancel in the "
                                 "window completes the same aio, so it is completed twice (and may already be freed)"
                                 % (f.name, a["n"], f.line_of(*stale[0]), ukey, u.line, l.line, a["n"], c.line))
                    else:
                        r.ob(f, "finish of %s line %s after the re-lock at line %s uses a value read after it" % (a["n"], c.line, l.line))
    if n < 2:
        raise AnalysisBroken("only %d completions after an unlock/re-lock window found" % n)


def rule_a9(ctx):
    """completed => unparked"""
    from .. import guards as G
    r = ctx.rule("C02.A9", "T2", "an operation that is completed out of its park field leaves that field: where a function reads an aio "
                 "from a pointer field of an object (x = o->F) and completes x, the field is cleared or overwritten in the same "
                 "critical section, before or after the completion -- a field that still names a finished operation makes the "
                 "object look busy for good (the next connect is refused with NNG_EBUSY) or completes the stale aio again", floor=10)
    prog = ctx.prog
    n = 0

    def is_unlock(e):
        return e is not None and any(m.get("k") == "call" and m.get("fn") == "nni_mtx_unlock" for m in walk(e))
    for fn in prog.functions:
        if fn.cfg_failed or fn.file.endswith("_test.c"):
            continue
        for c in fn.calls(("nni_aio_finish", "nni_aio_finish_sync", "nni_aio_finish_error", "nni_aio_finish_msg")):
            a0 = fn.expand(c.node["args"][0]) if c.node["args"] else None
            while a0 is not None and a0.get("k") in ("cast", "asg"):
                a0 = fn.expand(a0["e"] if a0.get("k") == "cast" else a0["rhs"])
            if a0 is None:
                continue
            if a0.get("k") == "mem" and is_aio_ptr(a0):
                tpos, src = (c.b, c.i), a0          # the field itself is handed to the completion (no local in between)
                a0 = {"k": "var", "n": show(a0)}
            elif a0.get("k") == "var":
                rd = G.reaching_defs(fn, a0["n"], (c.b, c.i))
                if len(rd) != 1:
                    continue
                tpos, src = rd[0]
                while src is not None and src.get("k") in ("cast", "asg"):
                    src = src["e"] if src.get("k") == "cast" else src["rhs"]
                if src is None or src.get("k") != "mem" or not is_aio_ptr(src):
                    continue
            else:
                continue
            fld = last_field(src)
            n += 1
            stores = {(t.b, t.i) for t in fn.assigns() if t.node["lhs"].get("k") == "mem" and last_field(t.node["lhs"]) == fld}
            # cleared between the take and the completion on every path?
            before = tpos != (c.b, c.i) and not ((c.b, c.i) in fn.reach((tpos[0], tpos[1] + 1), blocked=lambda b, i, e: (b, i) in stores))
            # ... or between the completion and the end of the critical section
            after = fn.reach((c.b, c.i + 1), blocked=lambda b, i, e: (b, i) in stores)
            leak = [(b, i) for (b, i) in after if (i < len(fn.blocks[b].elems) and is_unlock(fn.blocks[b].elems[i])) or (b, i) == (fn.exit, 0)]
            # the object itself is given up right after (handed to its reaper / destructor): nobody can look at the field again
            base = fn.expand(src["b"]) if src.get("b") is not None else None
            gone = set()
            for k in fn.calls():
                fnm = k.node.get("fn") or ""
                if fnm.endswith(("_reap", "_fini", "_free", "_destroy")) or fnm == "nni_reap":
                    if any(x is not None and base is not None and same_expr(fn.expand(x), base) for x in k.node["args"]):
                        gone.add((k.b, k.i))
            if leak and gone and not [p_ for p_ in fn.reach((c.b, c.i + 1), blocked=lambda b, i, e: (b, i) in stores or (b, i) in gone)
                                      if p_ == (fn.exit, 0)]:
                r.ob(fn, "%s completed at line %s; the object is given up before the function returns" % (a0["n"], c.line))
            elif before or not leak:
                r.ob(fn, "%s completed at line %s and %s rewritten in the same critical section" % (a0["n"], c.line, fld))
            else:
                ctx.fail(r, fn, "%s still names the completed operation" % fld, c.line,
                         "%s completes %s (taken from %s) at line %s and reaches line %s without storing to %s: the field keeps "
                         "pointing at a finished operation -- the object looks busy to the next caller, or the stale aio is "
                         "completed a second time" % (fn.name, a0["n"], fld, c.line, fn.line_of(*leak[0]), fld))
    if n < 10:
        raise AnalysisBroken("only %d completions out of park fields found" % n)


def rule_a10(ctx):
    r = ctx.rule("C02.A10", "T10", "a completion callback reads the outcome of the operation that completed: every nni_aio_result / nni_aio_count / "
                 "nni_aio_get_output / nni_aio_get_msg applied to an aio embedded in an object (&x->F) inside a function that is "
                 "registered as the callback of embedded aios is applied to one of the aios that callback is registered for -- "
                 "the result of a sibling aio says nothing about this completion (a timer callback that looks at the accept "
                 "aio's last result never re-arms the accept)", floor=80)
    prog = ctx.prog
    cbs = {}
    for (f, aioexpr, cbname, arg, site) in prog.aio_callbacks():
        lf = last_field(strip_addr(aioexpr)) if aioexpr is not None else None
        cbs.setdefault(cbname, set()).add(lf)
    n = 0
    for cbname, fields in sorted(cbs.items()):
        fn = prog.fn(cbname)
        if fn is None or fn.cfg_failed or None in fields:
            continue
        for c in fn.calls(("nni_aio_result", "nni_aio_count", "nni_aio_get_output", "nni_aio_get_msg")):
            a = strip_addr(fn.expand(c.node["args"][0])) if c.node["args"] else None
            if a is None or a.get("k") != "mem" or "*" in (a.get("t") or ""):
                continue
            n += 1
            lf = last_field(a)
            if lf in fields:
                r.ob(fn, "%s(%s) line %s: its own aio" % (c.node["fn"], lf, c.line))
            else:
                ctx.fail(r, fn, "%s of a sibling aio" % c.node["fn"], c.line,
                         "%s is the callback of %s, but at line %s it applies %s to %s: what it then decides (re-arm, deliver, fail) "
                         "follows the last outcome of another operation, not of the one that has just completed"
                         % (fn.name, ", ".join(sorted(fields)), c.line, c.node["fn"], lf))
    if n < 80:
        raise AnalysisBroken("only %d reads of embedded aios in callbacks" % n)


def rule_a11(ctx):
    from .. import guards as G
    r = ctx.rule("C02.A11", "T2", "an operation is completed only when it is off its wait list: where a function has linked the caller's aio "
                 "onto a list of the object (nni_aio_list_append) and then completes that aio -- itself, or by handing it to a "
                 "helper of the same file that completes its aio parameter -- it has taken it off the list first; a finished "
                 "operation left on the list is completed a second time by whoever serves or drains the list later", floor=30)
    prog = ctx.prog
    FIN = ("nni_aio_finish", "nni_aio_finish_sync", "nni_aio_finish_error", "nni_aio_finish_msg")

    def completes_param(h):
        """indices of aio parameters that h completes without unlinking them itself"""
        out = set()
        names = [p_["n"] for p_ in h.params]
        for c in h.calls(FIN):
            a0 = h.expand(c.node["args"][0]) if c.node["args"] else None
            if a0 is not None and a0.get("k") == "var" and a0["n"] in names:
                unl = [x for x in h.calls(("nni_aio_list_remove", "nni_list_remove", "nni_list_node_remove"))
                       if any(y is not None and h.expand(y).get("k") == "var" and h.expand(y)["n"] == a0["n"] for y in x.node["args"])]
                if not unl:
                    out.add(names.index(a0["n"]))
        return out
    n = 0
    for f in prog.functions:
        if f.cfg_failed or f.file.endswith("_test.c"):
            continue
        names = [p_["n"] for p_ in f.params if "aio" in (p_.get("t") or "")]
        if not names:
            continue
        for c in f.calls(("nni_aio_list_append", "nni_list_append")):
            a = c.node["args"]
            v = f.expand(a[1]) if len(a) > 1 and a[1] is not None else None
            if v is None or v.get("k") != "var" or v["n"] not in names:
                continue
            n += 1
            unlink = {(x.b, x.i) for x in f.calls(("nni_aio_list_remove", "nni_list_remove", "nni_list_node_remove"))
                      if any(y is not None and f.expand(y).get("k") == "var" and f.expand(y)["n"] == v["n"] for y in x.node["args"])}
            after = f.reach((c.b, c.i + 1), blocked=lambda b, i, e: (b, i) in unlink)
            bad = None
            for k in f.calls():
                if (k.b, k.i) not in after:
                    continue
                fnm = k.node.get("fn")
                args = [f.expand(y) if y is not None else None for y in k.node["args"]]
                if fnm in FIN and args and args[0] is not None and args[0].get("k") == "var" and args[0]["n"] == v["n"]:
                    bad = (k, fnm)
                elif fnm:
                    h = prog.resolve(f, fnm)
                    if h is not None and h is not f and h.file == f.file and not h.cfg_failed:
                        for i_ in completes_param(h):
                            if i_ < len(args) and args[i_] is not None and args[i_].get("k") == "var" and args[i_]["n"] == v["n"]:
                                bad = (k, fnm)
            if bad:
                ctx.fail(r, f, "completed while still on %s" % show(f.expand(a[0])), bad[0].line,
                         "%s links %s onto %s (line %s) and then completes it through %s (line %s) without unlinking it: the "
                         "finished operation stays on the list and is completed again when the list is served or drained"
                         % (f.name, v["n"], show(f.expand(a[0])), c.line, bad[1], bad[0].line))
            else:
                r.ob(f, "%s parked at line %s is not completed while linked" % (v["n"], c.line))
    if n < 30:
        raise AnalysisBroken("only %d parks of a caller's aio found" % n)


def rule_p1(ctx):
    """the byte-stream connections and the platform's dial / accept / resolve queues (stream I/O is one of the operation
    kinds of C02): C10.R11's rule instantiated for src/platform and src/supplemental"""
    from . import c10
    c10.rule_no_park_after_close(ctx, rid="C02.P1", dirs=("/platform/posix/", "/supplemental/"), floor=P1_FLOOR)


P1_FLOOR = 12


A12_EXC = {
    "nni_dialer_start_aio": "the d_started latch (atomic test-and-set at the top) admits one caller until the dialer is closed; "
                            "d_user_aio is written by that caller only",
}


def rule_a12(ctx):
    from .. import guards as G
    r = ctx.rule("C02.A12", "T1", "a one-place park field is not overwritten while it is occupied: a store of the caller's aio into a "
                 "pointer field of a long-lived object (o->F = aio) is reached only over an edge that found o->F NULL, after "
                 "o->F was cleared or its occupant completed in this function, or into an object this function has just "
                 "created (the transports' p_send / p_recv slots are entered for one operation per direction at a time: that "
                 "is the pipe contract the protocols keep) -- a second operation stored over a waiting one leaves the first "
                 "without anybody to complete it, and the object's list node is linked twice", floor=12)
    r.follows_values = True
    prog = ctx.prog
    slots = prog.slots()
    contract = {x[0] for k in ("nni_sp_pipe_ops.p_send", "nni_sp_pipe_ops.p_recv") for x in slots.get(k, [])}
    ALLOC = ("nni_zalloc", "nni_alloc")
    n = 0
    for f in prog.functions:
        if f.cfg_failed or f.file.endswith("_test.c"):
            continue
        params = {p_["n"] for p_ in f.params if "aio" in (p_.get("t") or "")}
        if not params:
            continue
        for s_ in f.assigns():
            nd = s_.node
            if nd.get("op") != "=" or nd["lhs"].get("k") != "mem" or "aio *" not in (nd["lhs"].get("t") or ""):
                continue
            rhs = f.expand(nd["rhs"])
            if rhs.get("k") != "var" or rhs["n"] not in params:
                continue
            fld = nd["lhs"]["f"]
            base = nd["lhs"]["b"]
            n += 1
            what = "%s (line %s)" % (show(nd), s_.line)
            if f.name in contract:
                r.ob(f, what + ": transport pipe slot, one operation per direction (pipe contract)")
                continue
            if f.name in A12_EXC:
                r.exception(f.name, A12_EXC[f.name])
                r.ob(f, what + ": admitted by a latch")
                continue
            # (b) object created here: the base local is defined from an allocation or filled in through its address
            #     (or, for a parameter of a file-local helper, in every caller)
            def created_in(g, var):
                for t in g.sites():
                    for m in walk(g.expand(t.node)):
                        if m.get("k") == "asg" and m["lhs"].get("k") == "var" and m["lhs"]["n"] == var:
                            if any(c.get("k") == "call" and c.get("fn") in ALLOC for c in walk(m["rhs"])):
                                return True
                        if m.get("k") == "decls":
                            for d in m["d"]:
                                if d["n"] == var and d.get("init") is not None and \
                                        any(c.get("k") == "call" and c.get("fn") in ALLOC for c in walk(g.expand(d["init"]))):
                                    return True
                        if m.get("k") == "call":
                            for a in m["args"]:
                                a = g.expand(a) if a is not None else None
                                if a is not None and a.get("k") == "un" and a.get("op") == "&" and a["e"].get("k") == "var" \
                                        and a["e"]["n"] == var:
                                    return True
                return False
            fresh = False
            if base.get("k") == "var" and base.get("vk") == "local":
                fresh = created_in(f, base["n"])
            elif base.get("k") == "var" and base.get("vk") == "param" and f.static and not prog.fn_refs(f.name):
                idx = [p_["n"] for p_ in f.params].index(base["n"])
                cs = [(g, c) for g, c in prog.callers().get(f.name, []) if g.file == f.file]
                fresh = bool(cs) and all(
                    idx < len(c.node["args"]) and c.node["args"][idx] is not None and
                    g.expand(c.node["args"][idx]).get("k") == "var" and g.expand(c.node["args"][idx]).get("vk") == "local" and
                    created_in(g, g.expand(c.node["args"][idx])["n"]) for g, c in cs)
            if fresh:
                r.ob(f, what + ": the object is created in this function")
                continue
            # (a)/(c) every path to the store has found the field NULL, cleared it, or completed its occupant
            def is_f(x, fld=fld):
                return x.get("k") == "mem" and x["f"] == fld
            nz = G.nz_edges(f, is_f)
            for bid, k, atom, val in G.edge_facts(f):
                if is_f(atom) and not val:
                    nz[bid] = 1 - k
                if atom.get("k") == "bin" and atom.get("op") in ("==", "!=") and \
                        ((is_f(atom["lhs"]) and is_null(atom["rhs"])) or (is_f(atom["rhs"]) and is_null(atom["lhs"]))):
                    if (atom["op"] == "==") == bool(val):
                        nz[bid] = 1 - k
            clears = set()
            for t in f.sites():
                e = f.expand(t.node)
                if e.get("k") == "asg" and is_f(e["lhs"]) and (is_null(f.expand(e["rhs"])) or t is not s_ and False):
                    clears.add((t.b, t.i))
                if e.get("k") == "call" and e.get("fn") in ("nni_aio_finish", "nni_aio_finish_error", "nni_aio_finish_sync", "nni_aio_finish_msg") \
                        and e["args"] and any(is_f(m) for m in walk(f.expand(e["args"][0]))):
                    clears.add((t.b, t.i))
            # (paths that contradict a constant-only status local -- rv = NNG_EBUSY; ... if (rv != 0) return -- are not followed)
            seen = G.reach_flags(f, (f.entry, 0), blocked=lambda b, i, e_: (b, i) in clears,
                                 edge_ok=lambda b, k: not (b in nz and k == 1 - nz[b]))
            if (s_.b, s_.i) in seen:
                path = f.find_path((f.entry, 0), lambda b, i, t=s_: (b, i) == (t.b, t.i), blocked=lambda b, i, e_: (b, i) in clears,
                                   edge_ok=lambda b, k: not (b in nz and k == 1 - nz[b]))
                ctx.fail(r, f, "%s overwritten while occupied" % fld, s_.line,
                         "%s stores the caller's aio into %s (line %s) on a path that has neither found that field NULL nor "
                         "cleared it nor completed its occupant: an operation still waiting there is lost (never completed) and "
                         "the object is queued a second time" % (f.name, show(nd["lhs"]), s_.line), path=f.path_lines(path))
            else:
                r.ob(f, what + ": only where the field was found NULL / cleared / its occupant completed")
    if n < 12:
        raise AnalysisBroken("only %d stores of a caller's aio into a park field found" % n)



A13_ACCESSORS = ("nni_aio_get_msg", "nni_aio_set_msg", "nni_aio_count", "nni_aio_result", "nni_aio_list_active", "nni_aio_list_remove",
                 "nni_list_remove", "nni_list_node_remove", "nni_list_first", "nni_list_next", "nni_list_active", "nni_aio_get_input",
                 "nni_aio_get_output", "nni_aio_set_output", "nni_aio_get_iov", "nni_aio_iov_count", "nni_aio_iov_advance",
                 "nni_aio_get_prov_data", "nni_aio_set_prov_data", "nni_aio_bump_count", "nni_aio_get_timeout", "nni_aio_busy")


def rule_a13(ctx):
    from .. import guards as G
    r = ctx.rule("C02.A13", "T4", "an operation unlinked from its wait list is completed, queued again or handed on: wherever a function "
                 "takes an aio held in a local off a list (nni_aio_list_remove / nni_list_remove), every path from there to the "
                 "function's exit -- or to the next assignment of that local, e.g. the next round of a serving loop -- passes "
                 "the aio to a function that is not a mere accessor (nni_aio_finish*, a list append, a helper), stores it into "
                 "an object or returns it (paths on which the local was found NULL are not paths of a removed aio). Cancel, "
                 "timeout, stop and close all look for the operation on its list: once it is off the list and dropped nobody "
                 "can complete it, and nni_aio_stop on it waits for ever", floor=90)
    r.follows_values = True
    prog = ctx.prog
    n = 0
    for f in prog.functions:
        if f.cfg_failed or f.file.endswith("_test.c"):
            continue
        for c in f.calls(("nni_aio_list_remove", "nni_list_remove")):
            a = [f.expand(x) if x is not None else None for x in c.node["args"]]
            av = a[0] if c.node["fn"] == "nni_aio_list_remove" else (a[1] if len(a) > 1 else None)
            if av is None or av.get("k") != "var" or av.get("vk") != "local":
                continue
            v = av["n"]
            if "aio" not in ((f.locals().get(v) or {}).get("t") or ""):
                continue
            n += 1

            def stores_v(m, v=v):
                if m.get("k") == "asg" and m["lhs"].get("k") != "var":
                    rr = m["rhs"]
                    while rr is not None and rr.get("k") == "cast":
                        rr = rr["e"]
                    rr = f.expand(rr) if rr is not None else None
                    return rr is not None and rr.get("k") == "var" and rr["n"] == v
                return False

            def handoff(b, i, e, v=v):
                if e is None:
                    return False
                for m in walk(f.expand(e)):
                    if m.get("k") == "call" and m.get("fn") not in A13_ACCESSORS:
                        for x in m["args"]:
                            x = f.expand(x) if x is not None else None
                            if x is not None and x.get("k") == "var" and x["n"] == v:
                                return True
                    if stores_v(m):
                        return True
                    if m.get("k") == "ret" and m.get("e") is not None and any(
                            y.get("k") == "var" and y["n"] == v for y in walk(f.expand(m["e"]))):
                        return True
                return False

            def redefined(e, v=v):
                return e is not None and any(m.get("k") == "asg" and m["lhs"].get("k") == "var" and m["lhs"]["n"] == v
                                             for m in walk(f.expand(e)))
            # already stored into an object in the same block, just before it is unlinked (the expiry batch)
            blk = f.blocks[c.b]
            if any(e is not None and any(stores_v(m) for m in walk(f.expand(e))) for e in blk.elems[:c.i]) and \
                    not any(redefined(e) for e in blk.elems[:c.i]):
                r.ob(f, "%s stored into an object before it is unlinked at line %s" % (v, c.line))
                continue
            nz = G.nz_edges(f, lambda x, v=v: x.get("k") == "var" and x["n"] == v)
            seen = f.reach((c.b, c.i + 1), blocked=handoff, edge_ok=lambda b, k: not (b in nz and k == 1 - nz[b]))
            lost = None
            if (f.exit, 0) in seen:
                lost = "the function's exit"
            else:
                for (b, i) in sorted(seen):
                    if i < len(f.blocks[b].elems) and redefined(f.blocks[b].elems[i]):
                        lost = "line %s, where %s is assigned again" % (f.line_of(b, i), v)
                        break
            if lost:
                ctx.fail(r, f, "aio %s unlinked and dropped" % v, c.line,
                         "%s takes the operation %s off its wait list (line %s) and reaches %s on a path that neither completes it "
                         "nor queues it again nor hands it on: cancel, timeout and close look for it on the list, so it never "
                         "completes" % (f.name, v, c.line, lost))
            else:
                r.ob(f, "%s unlinked at line %s is completed, queued again or handed on along every path" % (v, c.line))
    if n < 90:
        raise AnalysisBroken("only %d removals of an aio from a wait list found" % n)



A14_BLOCKING = ("getaddrinfo", "nni_cv_wait", "nni_cv_until", "nni_msleep", "nni_aio_wait", "nni_task_wait", "nni_thr_wait", "poll", "select",
                "epoll_wait", "nanosleep", "usleep", "sleep")


def rule_a14(ctx):
    r = ctx.rule("C02.A14", "T6", "the mark a cancel function tests stays on the operation while it can still be cancelled: where a "
                 "registered cancel function decides ownership by nni_aio_get_prov_data(aio), every other function that clears "
                 "that mark (nni_aio_set_prov_data(x, NULL)) goes on to complete x without blocking in between (no getaddrinfo, "
                 "condition-variable wait or sleep is reachable before an nni_aio_finish* of x) -- with the mark cleared first "
                 "and the long step afterwards, nng_aio_abort / close / timeout find nothing to cancel and have to wait for the "
                 "step to end (a name lookup against a dead server: tens of seconds, with the reaper thread parked behind it)",
                 floor=4)
    prog = ctx.prog
    cancels = cancel_functions(prog)
    marked_files = set()
    for g in cancels:
        if not g.cfg_failed and any(True for _ in g.calls("nni_aio_get_prov_data")):
            marked_files.add(g.file)
    if not marked_files:
        raise AnalysisBroken("no cancel function tests nni_aio_get_prov_data any more")
    cancel_names = {g.name for g in cancels}
    n = 0
    for f in prog.functions:
        if f.cfg_failed or f.file not in marked_files or f.name in cancel_names:
            continue
        for c in f.calls("nni_aio_set_prov_data"):
            a = [f.expand(x) if x is not None else None for x in c.node["args"]]
            if len(a) < 2 or not is_null(a[1]) or a[0] is None:
                continue
            x = show(a[0])
            n += 1
            fin = {(k.b, k.i) for k in f.calls(("nni_aio_finish", "nni_aio_finish_error", "nni_aio_finish_sync", "nni_aio_finish_msg"))
                   if k.node["args"] and show(f.expand(k.node["args"][0])) == x}
            seen = f.reach((c.b, c.i + 1), blocked=lambda b, i, e: (b, i) in fin)
            bad = None
            for k in f.calls():
                if (k.b, k.i) in seen and (k.node.get("fn") in A14_BLOCKING):
                    bad = k
                    break
            if bad is not None:
                ctx.fail(r, f, "cancel mark of %s cleared before a blocking step" % x, c.line,
                         "%s clears the provider mark of %s at line %s (the cancel function looks for it and returns when it is "
                         "gone) and can then reach %s at line %s before it completes the operation: while that step lasts the "
                         "operation cannot be cancelled, stopped or timed out" % (f.name, x, c.line, bad.node["fn"], bad.line))
            else:
                r.ob(f, "mark of %s cleared at line %s: completed without blocking in between" % (x, c.line))
    if n < 4:
        raise AnalysisBroken("only %d clears of a provider mark found" % n)



S4_SUBMIT = ("nni_pipe_send", "nng_stream_send", "nng_udp_send", "nni_pipe_recv", "nng_stream_recv", "nng_udp_recv",
             "nni_msgq_aio_put", "nni_msgq_aio_get")


def rule_s4(ctx):
    from .. import guards as G
    r = ctx.rule("C02.S4", "T2", "a busy latch is released by the completion it waits for: where a function sets a boolean `busy` field "
                 "of an object and submits one of that object's own aios (one transfer in flight; everything else queues behind "
                 "the latch), the callback of that aio, on every path to its exit, clears the latch (itself or through a helper "
                 "of the same file), submits the aio again (still busy), or closes the pipe -- a completion that returns early "
                 "(e.g. on a transient error) leaves the latch set: nothing is ever submitted again and everything queued "
                 "behind it waits for ever", floor=5)
    prog = ctx.prog
    cbof = {}
    for (g, aio_e, cb, arg, site) in prog.aio_callbacks():
        lf = last_field(aio_e)
        if lf:
            cbof[lf] = (cb, g.file)
    pairs = set()
    for f in prog.functions:
        if f.cfg_failed or f.file.endswith("_test.c"):
            continue
        for t in f.assigns():
            l = t.node["lhs"]
            if l.get("k") != "mem" or (l.get("t") or "") not in ("bool", "_Bool") or "busy" not in l["f"]:
                continue
            if const_of(f.expand(t.node["rhs"])) in (None, 0):
                continue
            after = f.reach((t.b, t.i + 1))
            for c in f.calls(S4_SUBMIT):
                if (c.b, c.i) in after or c.b == t.b:
                    for a in c.node["args"]:
                        a = f.expand(a) if a is not None else None
                        lf = last_field(a) if a is not None else None
                        if lf and lf.split(".")[0] == l.get("rec") and lf in cbof:
                            pairs.add((last_field(l), lf) + cbof[lf])
    if len(pairs) < 5:
        raise AnalysisBroken("only %d busy-latch / aio pairs found" % len(pairs))

    def clears(h, latch):
        return {(t.b, t.i) for t in h.assigns() if t.node["lhs"].get("k") == "mem" and last_field(t.node["lhs"]) == latch and
                const_of(h.expand(t.node["rhs"])) == 0}
    for latch, aio_f, cb, file in sorted(pairs):
        g = prog.need(cb, file)
        ok = set(clears(g, latch))
        for c in g.calls():
            fn_ = c.node.get("fn")
            if fn_ == "nni_pipe_close":
                ok.add((c.b, c.i))
            elif fn_ in S4_SUBMIT and any(a is not None and last_field(g.expand(a)) == aio_f for a in c.node["args"]):
                ok.add((c.b, c.i))
            elif fn_:
                h = prog.resolve(g, fn_)
                if h is not None and h is not g and h.file == g.file and not h.cfg_failed:
                    hc = clears(h, latch)
                    hs = {(k.b, k.i) for k in h.calls(S4_SUBMIT) if any(a is not None and last_field(h.expand(a)) == aio_f for a in k.node["args"])}
                    if (hc or hs) and G.must_pass(h, (h.entry, 0), hc | hs) is None:
                        ok.add((c.b, c.i))
        shut = {}       # the object is being torn down (its closed flag is set): nothing will be started again anyway
        for b_ in g.blocks.values():
            cc = g.cond(b_.id) if b_.term and len(b_.succs) == 2 else None
            if cc is not None:
                t_ = truth_of(cc, lambda n_: n_.get("k") == "mem" and n_["f"] == "closed")
                if t_:
                    shut[b_.id] = 0 if t_ > 0 else 1
        off = G.must_pass(g, (g.entry, 0), ok, cut=shut)
        if off is None:
            r.ob(g, "%s released (or the transfer continued / the pipe closed) on every path of the callback of %s" % (latch, aio_f))
        else:
            path = g.find_path((g.entry, 0), lambda b, i: (b, i) == (g.exit, 0), blocked=lambda b, i, e: (b, i) in ok,
                               edge_ok=lambda b, k: not (b in shut and shut[b] == k))
            ctx.fail(r, g, "%s left set by the completion" % latch, g.line,
                     "%s, the callback of %s, can return without clearing %s, without submitting the aio again and without closing "
                     "the pipe: the latch stays set, so nothing is ever started again and whatever is queued behind it never "
                     "goes out" % (g.name, aio_f, latch), g.path_lines(path))



# ---------------------------------------------------------------------------
# A15: a user's aio is cleared before a provider starts an operation on it


def rule_a15(ctx):
    r = ctx.rule("C02.A15", "T6", "a cancel aimed at a finished operation does not reach the next one: nni_aio_abort on an aio with no "
                 "operation scheduled latches the abort in the aio (a_abort) and the next nni_aio_start honours it; the latch is "
                 "meant for a cancel between submission and start, so every way from a public entry point (an nng_* function "
                 "that takes the caller's aio) to an nni_aio_start on that aio passes nni_aio_reset(aio) first -- in the provider "
                 "itself or in a function on the way, through direct calls and through the operation tables; without it a cancel "
                 "that arrives after an operation completed makes the next, unrelated operation fail with its code", floor=40)
    r.own_opinion = True          # callers and callees are resolved here
    from .. import guards as G
    from collections import defaultdict
    prog = ctx.prog
    fns = [f for f in prog.functions if not f.cfg_failed]
    stored = defaultdict(set)
    for slot, lst in prog.slots().items():
        for name, g, fl in lst:
            stored[slot].add(name)

    def strip(f, n):
        n = f.deref(n)
        while n is not None and n.get("k") in ("un", "cast") and n.get("op", "(cast)") in ("&", "(cast)", "()"):
            n = f.deref(n.get("e"))
        return n
    for f in fns:
        for s in f.assigns():
            rr = strip(f, s.node.get("rhs"))
            if rr is not None and rr.get("k") == "fnref":
                fld = last_field(f.deref(s.node["lhs"]))
                if fld:
                    stored[fld].add(rr["n"])
    infield = defaultdict(set)
    for fld, ns in stored.items():
        for n in ns:
            infield[n].add(fld)
    ind_sites = defaultdict(list)
    for f in fns:
        for s in f.calls():
            ind = s.node.get("ind")
            if ind is not None:
                fld = last_field(f.deref(ind))
                if fld:
                    ind_sites[fld].append((f, s))
    callers = prog.callers()

    def param_of(f, n):
        n = strip(f, n)
        if n is None or n.get("k") != "var" or n.get("vk") != "param":
            return None
        for i, p in enumerate(f.params):
            if p["n"] == n["n"]:
                return i
        return None

    def resets_before(f, site, name):
        cut = {(s.b, s.i) for s in f.calls("nni_aio_reset")
               if s.node["args"] and (strip(f, s.node["args"][0]) or {}).get("n") == name}
        if not cut:
            return False
        # `if (aio != NULL) nni_aio_reset(aio)`: the way round the reset is the one without an aio
        nz = G.nz_edges(f, lambda x: x.get("k") == "var" and x.get("n") == name)
        seen = f.reach((f.entry, 0), blocked=lambda b, i, e: (b, i) in cut, edge_ok=lambda b, k: not (b in nz and k != nz[b]))
        return (site.b, site.i) not in seen

    memo = {}

    def entry_bad(f, idx, depth, trail):
        key = (f.name, f.file, idx)
        if key in memo:
            return memo[key]
        if depth > 6 or key in trail:
            return []
        trail = trail | {key}
        bad = []
        ups = [(c, s) for (c, s) in callers.get(f.name, []) if prog.resolve(c, f.name) is f]
        for fld in infield.get(f.name, ()):
            ups += ind_sites.get(fld, [])
        if f.name.startswith("nng_") and not f.static:
            bad.append([f.name])
        for (c, s) in ups:
            a = s.node["args"]
            if idx >= len(a):
                continue
            ci = param_of(c, a[idx])
            if ci is None:
                continue      # the caller's own aio (a member, a local): not a user's handle
            if resets_before(c, s, c.params[ci]["n"]):
                continue
            for b in entry_bad(c, ci, depth + 1, trail):
                bad.append(b + [f.name])
        memo[key] = bad
        return bad

    n = 0
    for f in fns:
        if f.normalized:
            continue
        for s in f.calls("nni_aio_start"):
            idx = param_of(f, s.node["args"][0]) if s.node["args"] else None
            if idx is None:
                continue
            n += 1
            name = f.params[idx]["n"]
            if resets_before(f, s, name):
                r.ob(f, "nni_aio_start(%s) at line %s after nni_aio_reset(%s)" % (name, s.line, name))
                continue
            bad = entry_bad(f, idx, 0, frozenset())
            if not bad:
                r.ob(f, "nni_aio_start(%s) at line %s: every public way in resets the aio first" % (name, s.line))
                continue
            chain = min(bad, key=len)
            ctx.fail(r, f, "operation started on an aio that was not cleared", s.line,
                     "%s starts an operation on the caller's aio (line %s) and nothing between the public entry point %s and this "
                     "call clears it (%s): a cancel that arrived after the previous operation on that aio had completed is still "
                     "latched and fails this one" % (f.name, s.line, chain[0], " -> ".join(chain)))
    if n < 40:
        raise AnalysisBroken("only %d nni_aio_start sites on a parameter aio" % n)


# ---------------------------------------------------------------------------
# T3: the one-shot absolute expiry is forgotten wherever an operation ends


def rule_t3(ctx):
    r = ctx.rule("C02.T3", "T3", "a timeout never fires early, second part: an absolute expiry (nni_aio_set_expire) is good for one "
                 "operation. Wherever the framework ends an operation -- nni_aio_finish_impl, and every path of nni_aio_start "
                 "that returns false (stopped, abort latched, already expired: the callback is dispatched from there) -- "
                 "a_use_expire is cleared on the way; a path that leaves it set makes every later operation on the aio "
                 "compare against the stale absolute time and time out at once, before the configured relative timeout", floor=2)
    r.own_opinion = True
    from .. import guards as G
    prog = ctx.prog
    start = prog.need("nni_aio_start", "core/aio.c")
    fin = prog.need("nni_aio_finish_impl", "core/aio.c")

    def clears(f):
        out = set()
        for t in f.assigns():
            l = f.expand(t.node["lhs"])
            if l.get("k") == "mem" and l["f"] == "a_use_expire" and const_of(f.expand(t.node["rhs"])) == 0:
                out.add((t.b, t.i))
        return out
    n = 0
    cl = clears(start)
    for s in start.sites():
        if s.node.get("k") != "ret" or s.node.get("e") is None or const_of(start.expand(s.node["e"])) != 0:
            continue
        n += 1
        seen = start.reach((start.entry, 0), blocked=lambda b, i, e: (b, i) in cl)
        if (s.b, s.i) in seen:
            path = start.find_path((start.entry, 0), lambda b, i, t=s: (b, i) == (t.b, t.i), blocked=lambda b, i, e: (b, i) in cl)
            ctx.fail(r, start, "operation refused at line %s, absolute expiry kept" % s.line, s.line,
                     "nni_aio_start returns false at line %s (the operation ends here) on a path that does not clear a_use_expire: "
                     "the absolute expiry of this operation stays in force for every later operation on the aio" % s.line,
                     path=start.path_lines(path))
        else:
            r.ob(start, "return false at line %s: a_use_expire cleared on every path to it" % s.line)
    cf = clears(fin)
    n += 1
    if not cf or G.must_pass(fin, (fin.entry, 0), cf) is not None:
        ctx.fail(r, fin, "operation completed, absolute expiry kept", fin.line,
                 "nni_aio_finish_impl can return without clearing a_use_expire: the absolute expiry of the completed operation "
                 "stays in force for the next one")
    else:
        r.ob(fin, "nni_aio_finish_impl clears a_use_expire on every path")
    if n < 2:        # (one refusing return is enough: the branches may share their tail)
        raise AnalysisBroken("nni_aio_start has no refusing return")


# ---------------------------------------------------------------------------
# A16: cancelling one queued operation does not end the one being served


def rule_a16(ctx):
    r = ctx.rule("C02.A16", "T6", "one final result per operation, not somebody else's: where a provider queues callers' operations "
                 "behind a single lower operation that serves the head of the queue (append to the list; start the lower operation "
                 "if this one is first), its cancel function aborts the lower operation only on a path that has found the "
                 "cancelled operation to be the one being served (first of the list / the recorded current one) or the queue "
                 "empty after removing it -- an unconditional abort fails the head of the queue with the result code of the "
                 "operation that was cancelled or timed out behind it", floor=2)
    r.own_opinion = True
    from .. import guards as G
    prog = ctx.prog
    n = 0
    for f in prog.functions:
        if f.cfg_failed or f.normalized:
            continue
        for s in f.calls("nni_aio_start"):
            a = s.node["args"]
            if len(a) < 2:
                continue
            k = f.expand(a[1])
            while k is not None and k.get("k") in ("un", "cast"):
                k = k.get("e")
            an = f.expand(a[0])
            if k is None or k.get("k") != "fnref" or an is None or an.get("k") != "var":
                continue
            # the queue idiom: `if (nni_list_first(&o->L) == aio) start`
            lists = set()
            for bid, kk, atom, val in G.edge_facts(f):
                if atom.get("k") == "bin" and atom.get("op") in ("==", "!="):
                    for x, y in ((atom["lhs"], atom["rhs"]), (atom["rhs"], atom["lhs"])):
                        if x.get("k") == "call" and x.get("fn") == "nni_list_first" and y.get("k") == "var" and y["n"] == an["n"]:
                            fld = last_field(f.expand(x["args"][0]))
                            if fld:
                                lists.add(fld)
            if not lists:
                continue
            K = prog.resolve(f, k["n"])
            if K is None or K.cfg_failed or not K.params:
                continue
            cn = K.params[0]["n"]
            aborts = [c for c in K.calls(("nni_aio_abort", "nni_aio_close")) if c.node["args"] and any(
                m.get("k") == "mem" for m in walk(K.expand(c.node["args"][0]) or {}))]
            if not aborts:
                continue
            ok_edges = {}
            for bid, kk, atom, val in G.edge_facts(K):
                txt = atom
                if atom.get("k") == "bin" and atom.get("op") in ("==", "!="):
                    sides = (atom["lhs"], atom["rhs"])
                    if any(x.get("k") == "var" and x["n"] == cn for x in sides) and any(x.get("k") != "var" or x["n"] != cn for x in sides):
                        other = [x for x in sides if not (x.get("k") == "var" and x["n"] == cn)][0]
                        if (other.get("k") == "call" and other.get("fn") == "nni_list_first") or other.get("k") == "mem":
                            if (atom["op"] == "==") == bool(val):
                                ok_edges[bid] = kk
                if atom.get("k") == "call" and atom.get("fn") == "nni_list_empty" and val:
                    ok_edges[bid] = kk
            for c in aborts:
                n += 1
                what = "%s (cancel function of %s): %s(%s) at line %s" % (K.name, f.name, c.node["fn"], show(K.expand(c.node["args"][0])), c.line)
                # reachable without crossing one of the establishing edges?
                seen = K.reach((K.entry, 0), edge_ok=lambda b, kk: not (b in ok_edges and ok_edges[b] == kk))
                if (c.b, c.i) in seen:
                    ctx.fail(r, K, "lower operation aborted for any cancelled waiter", c.line,
                             "%s aborts the operation that serves the head of %s (line %s) without having found the cancelled "
                             "operation first in line or the queue empty: the operation being served fails with the result code "
                             "of another one" % (K.name, "/".join(sorted(lists)), c.line))
                else:
                    r.ob(K, what + " only for the operation being served / when nobody waits")
    if n < 2:
        raise AnalysisBroken("only %d cancel functions of head-served queues abort a lower operation" % n)


# ---------------------------------------------------------------------------
# T4: the result of an operation is written only where the operation ends or begins


def rule_t4(ctx):
    r = ctx.rule("C02.T4", "T10", "a cancel code is reported only if the operation had not completed: a_result is the one final result "
                 "of an operation, so a store into it is either the clearing store of a new operation (the constant NNG_OK), or "
                 "lies in a function that goes on to end the operation -- the aio's task is dispatched / executed from there, or the "
                 "aio is put on a completion list.  A function that a consumer may call at any time (abort, close, stop) and that "
                 "stores a code without ending anything rewrites the result of an operation that has already completed", floor=5)
    r.own_opinion = True
    prog = ctx.prog
    n = 0
    for f in prog.fns_in("core/aio.c"):
        if f.cfg_failed or f.normalized:
            continue
        for t in f.assigns():
            l = f.expand(t.node["lhs"])
            if not (l.get("k") == "mem" and l["f"] == "a_result" and t.node.get("op") == "="):
                continue
            n += 1
            what = "%s line %s: %s = %s" % (f.name, t.line, show(l), show(f.expand(t.node["rhs"])))
            if const_of(f.expand(t.node["rhs"])) == 0:
                r.ob(f, what + " (cleared for a new operation)")
                continue
            after = f.reach((t.b, t.i + 1))
            ends = [c for c in f.calls(("nni_task_dispatch", "nni_task_exec")) if (c.b, c.i) in after]
            base = l["b"]
            links = [w for w in f.assigns() if (w.b, w.i) in after and (f.expand(w.node["rhs"]) or {}).get("k") == "var" and
                     base.get("k") == "var" and f.expand(w.node["rhs"])["n"] == base["n"] and
                     f.expand(w.node["lhs"]).get("k") in ("un", "mem")]
            if ends or links:
                r.ob(f, what + " (the operation is ended from here)")
            else:
                ctx.fail(r, f, "result stored without ending an operation", t.line,
                         "%s stores %s into a_result (line %s) and neither dispatches the aio's task nor queues the aio for "
                         "completion: called when the operation has already completed (a late nng_aio_cancel), it rewrites the "
                         "result the operation completed with" % (f.name, show(f.expand(t.node["rhs"])), t.line))
    if n < 5:
        raise AnalysisBroken("only %d stores into a_result found in core/aio.c" % n)


# ---------------------------------------------------------------------------
# T5: the duration the caller configured is not rewritten by an operation


def rule_t5(ctx):
    r = ctx.rule("C02.T5", "T10", "a timeout never fires before the configured duration, third part: a_timeout holds what the caller "
                 "configured (nng_aio_set_timeout), including 'use the default of the object the operation is for' "
                 "(NNG_DURATION_DEFAULT).  Only the initialiser and the setter store into it; a function on the path of an "
                 "operation that stores a resolved value there turns the caller's 'default' into the first object's value for "
                 "good, and a later operation -- after the option was raised, or for another socket -- fires at the old duration",
                 floor=2)
    r.own_opinion = True
    prog = ctx.prog
    n = 0
    for f in prog.functions:
        if f.cfg_failed or f.normalized:
            continue
        for t in f.assigns():
            l = f.expand(t.node["lhs"])
            if not (l.get("k") == "mem" and l["f"] == "a_timeout" and l.get("rec") in ("nng_aio", "nni_aio")):
                continue
            n += 1
            if f.name in ("nni_aio_init", "nni_aio_set_timeout"):
                r.ob(f, "%s line %s: the initialiser / the setter" % (f.name, t.line))
            else:
                ctx.fail(r, f, "configured timeout rewritten on the path of an operation", t.line,
                         "%s stores %s into a_timeout (line %s): the caller's configured duration (possibly NNG_DURATION_DEFAULT) is "
                         "replaced for this and every later operation on the aio" % (f.name, show(f.expand(t.node["rhs"])), t.line))
    if n < 2:
        raise AnalysisBroken("only %d stores into a_timeout found" % n)


def run(ctx):   # noqa: F811
    ctx.guard(rule_a1)
    ctx.guard(rule_a2)
    ctx.guard(rule_a3)
    ctx.guard(rule_a4)
    ctx.guard(rule_a5)
    ctx.guard(rule_a7)
    ctx.guard(rule_d1)
    ctx.guard(rule_e1)
    ctx.guard(rule_s3)
    ctx.guard(rule_t1)
    ctx.guard(rule_l2)
    ctx.guard(rule_t2)
    ctx.guard(rule_a8)
    ctx.guard(rule_p1)
    ctx.guard(rule_a9)
    ctx.guard(rule_a10)
    ctx.guard(rule_a11)
    ctx.guard(rule_a12)
    ctx.guard(rule_a13)
    ctx.guard(rule_a14)
    ctx.guard(rule_s4)
    ctx.guard(rule_a15)
    ctx.guard(rule_t3)
    ctx.guard(rule_a16)
    ctx.guard(rule_t4)
    ctx.guard(rule_t5)
