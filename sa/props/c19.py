"""C19 -- URL parsing: strict acceptance, canonical and idempotent output (narrow)."""
from ..core import walk, show, const_of, last_field, truth_of, apath, is_null, AnalysisBroken, same_expr
from .. import guards as G
from ..pathsim import facts_at
from . import c04

EXPLANATION = ("C19 (narrow): the scheme table entry is selected only when the whole entry matches; the UTF-8 validator extracts "
               "the payload bits from the byte it has just validated; percent-escapes are decoded only after isxdigit of both "
               "digits; every pass of the canonicaliser starts from re-initialised cursors and state; the inline buffer is "
               "used only when the text fits strictly; the clone allocates what it copies and rebases nullable components only "
               "when they are set; authority URLs always pass the canonicaliser, which ends in the UTF-8 validator. Canonical "
               "form, idempotence and round trips are value-level and not decided.")
EXPLANATION += ' Round 3: a numeric port is a complete conversion (R7); the IPv6 brackets of nng_url_sprintf depend on the host only (R8).'
EXPLANATION += ' A numeric port starts with a digit: the converted value is used only behind a test of the first character (R11).'
EXPLANATION += ' Round 6: a converted number is range-checked at the width strtol returned it in (R13).'


def rule_r1(ctx):
    r = ctx.rule("C19.R1", "T9", "exact table match: the scheme is taken from nni_schemes[i] only on a path that established, "
                 "besides strncmp(s, nni_schemes[i], len) == 0, that the table entry ends at len; the '://' test precedes the "
                 "lookup", floor=3)
    f = ctx.prog.need("nni_url_parse_inline_inner", "core/url.c")
    st = G.need_sites(G.stores(f, "u_scheme", "nonnull"), "store to u_scheme", f)
    cmps = []
    for s in st:
        entry = f.expand(s.node["rhs"])          # the table entry that is stored: nni_schemes[i], *sp, ...
        while entry is not None and entry.get("k") == "cast":
            entry = entry["e"]
        # the entry comes from the scheme table
        src_ok = "nni_schemes" in show(entry)
        if not src_ok:
            for v in [n for n in walk(entry) if n.get("k") == "var"]:
                if any(x is not None and "nni_schemes" in show(x) for _, x in G.var_defs(f, v["n"])):
                    src_ok = True
        if not src_ok:
            ctx.fail(r, f, "scheme not taken from the table", s.line, "u_scheme = %s does not come from nni_schemes" % show(entry))
            continue
        mine = [c for c in f.calls("strncmp") if any(same_expr(f.expand(a), entry) for a in c.node["args"][:2])]
        cmps += mine
        eq = {}
        for c in mine:
            for b, (nz, z) in f.value_edges(c).items():
                eq[b] = z
        ends = {}
        for bid, k, atom, val in G.edge_facts(f):
            # entry[len] == 0 (also as !entry[len])   or   strlen(entry) == len
            a = atom
            is_zero = None
            if a.get("k") == "bin" and a["op"] in ("==", "!=") and const_of(a["rhs"]) == 0:
                is_zero = (a["op"] == "==") == val
                a = a["lhs"]
            elif a.get("k") == "idx":
                is_zero = not val
            if is_zero and a.get("k") == "idx" and same_expr(f.expand(a["b"]) if a["b"].get("k") != "un" else a["b"], entry):
                ends[bid] = k
            elif is_zero and a.get("k") == "idx":
                base = a["b"]
                while base.get("k") == "cast":
                    base = base["e"]
                if same_expr(base, entry):
                    ends[bid] = k
            if atom.get("k") == "bin" and atom["op"] in ("==", "!=") and ((atom["op"] == "==") == val):
                for x, y in ((atom["lhs"], atom["rhs"]), (atom["rhs"], atom["lhs"])):
                    if x.get("k") == "call" and x.get("fn") == "strlen" and same_expr(f.expand(x["args"][0]), entry):
                        ends[bid] = k
        if eq and G.dominated(f, (s.b, s.i), eq):
            r.ob(f, "scheme store dominated by strncmp(...) == 0")
        else:
            ctx.fail(r, f, "scheme taken without comparison", s.line, "u_scheme is assigned without a successful strncmp")
        if ends and G.dominated(f, (s.b, s.i), ends):
            r.ob(f, "scheme store dominated by the end-of-entry test")
        else:
            ctx.fail(r, f, "scheme matched by prefix", s.line,
                     "u_scheme is taken from the scheme table after comparing only the first len bytes; nothing establishes that "
                     "the table entry ends there, so any prefix of a scheme (including the empty string) is accepted")
    sep = [s for s in f.calls("strncmp") if any(x.get("k") == "str" and x.get("v") == "://" for x in walk(f.expand(s.node["args"][1])))]
    if sep and all(not G.reaches(f, (f.entry, 0), [(c.b, c.i)], blocked=G.positions(sep)) for c in cmps):
        r.ob(f, "'://' test precedes the scheme lookup")
    else:
        ctx.fail(r, f, "scheme lookup before '://' test", f.line, "the scheme table is consulted before '://' was verified")


def rule_r2(ctx):
    r = ctx.rule("C19.R2", "T1", "validated byte = consumed byte: in url_utf8_validate the continuation bits (x & 0x3f) are taken "
                 "from the byte whose (x & 0xc0) == 0x80 test just passed -- the cursor is not advanced between the test and "
                 "the extraction", floor=1)
    f = ctx.prog.need("url_utf8_validate", "core/url.c")
    tests = []
    for b in f.blocks.values():
        c = f.cond(b.id) if b.term and len(b.succs) == 2 else None
        if c is not None and c.get("k") == "bin" and c["op"] in ("!=", "==") and c["lhs"].get("k") == "bin" and \
                c["lhs"]["op"] == "&" and const_of(c["rhs"]) == 0x80 and const_of(c["lhs"]["rhs"]) is not None:
            if const_of(c["lhs"]["rhs"]) != 0xc0:
                ctx.fail(r, f, "continuation byte tested with mask %#x" % const_of(c["lhs"]["rhs"]), f.line_of(b.id, 0),
                         "a continuation byte must satisfy (x & 0xc0) == 0x80; the test masks with %#x, so bytes 0xc0..0xff are "
                         "accepted in a continuation position and malformed UTF-8 passes" % const_of(c["lhs"]["rhs"]))
                continue
            tests.append((b.id, 1 if c["op"] == "!=" else 0, c["lhs"]["lhs"]))
    uses = [s for s in f.sites() if s.node.get("k") == "bin" and s.node["op"] == "&" and const_of(s.node["rhs"]) == 0x3f]
    if (not tests and not r.findings) or not uses:
        raise AnalysisBroken("url_utf8_validate: continuation test / extraction not found")
    for b, ok_edge, byte in tests:
        cur = apath(byte)
        root = cur[0] if cur else None
        adv = set()
        for s in f.sites():
            n = s.node
            if n.get("k") == "un" and n.get("op") in ("++", "--") and apath(n["e"]) == (root,):
                adv.add((s.b, s.i))
            if n.get("k") == "asg" and apath(n["lhs"]) == (root,):
                adv.add((s.b, s.i))
        tgt = f.blocks[b].succs[ok_edge]
        for u in uses:
            if not same_expr(u.node["lhs"], byte):
                continue
            clean = G.reaches(f, (tgt, 0), [(u.b, u.i)], blocked=adv)
            if clean:
                r.ob(f, "payload bits taken from the validated byte")
            else:
                ctx.fail(r, f, "payload taken from the next byte", u.line,
                         "the cursor %s is advanced between the continuation test and %s: the code point is assembled from the "
                         "byte after the validated one, so overlong forms, surrogates and out-of-range values are not recognised"
                         % (root, show(u.node)))


def rule_r3(ctx):
    r = ctx.rule("C19.R3", "T11", "clone: the heap buffer is allocated with the size that is copied into it; components that the "
                 "parser may leave NULL are rebased only under a NULL test of the source component", floor=5)
    prog = ctx.prog
    f = prog.need("nni_url_clone_inline", "core/url.c")
    allocs = [t for t in f.assigns() if (f.expand(t.node["rhs"]) or {}).get("fn") in ("nni_alloc", "nni_zalloc")]
    copies = [s for s in f.calls("memcpy")]
    for t in allocs:
        size = f.expand(f.expand(t.node["rhs"])["args"][0])
        dst = t.node["lhs"]
        for c in copies:
            if same_expr(f.expand(c.node["args"][0]), dst):
                n = f.expand(c.node["args"][2])
                if same_expr(size, n):
                    r.ob(f, "alloc(%s) / memcpy(.., %s)" % (show(size), show(n)))
                else:
                    ctx.fail(r, f, "alloc %s but copy %s" % (show(size), show(n)), t.line,
                             "%s is allocated with %s bytes and then filled with %s bytes" % (show(dst), show(size), show(n)))
    # nullable components: those the parser stores NULL into
    p = prog.need("nni_url_parse_inline_inner", "core/url.c")
    nullable = {last_field(s.node["lhs"]).split(".")[1] for s in p.assigns()
                if s.node["lhs"].get("k") == "mem" and is_null(p.expand(s.node["rhs"])) and last_field(s.node["lhs"])}
    nullable |= {"u_userinfo", "u_query", "u_fragment"}
    for t in f.assigns():
        lhs = t.node["lhs"]
        if lhs.get("k") != "mem" or lhs["f"] not in nullable:
            continue
        rhs = f.expand(t.node["rhs"])
        if not (rhs.get("k") == "bin" and rhs["op"] == "+"):
            continue
        fldname = lhs["f"]
        notnull = G.cond_edges(f, lambda n: n.get("k") == "mem" and n["f"] == fldname and show(n).startswith("src"), want_nonzero=True)
        if notnull and G.dominated(f, (t.b, t.i), notnull):
            r.ob(f, "%s rebased under src->%s != NULL" % (fldname, fldname))
        else:
            ctx.fail(r, f, "%s rebased without NULL test" % fldname, t.line,
                     "src->%s can be NULL (the parser leaves it NULL for ipc/inproc/... URLs) but is used in pointer arithmetic "
                     "unconditionally: the clone gets a garbage pointer" % fldname)


def rule_r5(ctx):
    r = ctx.rule("C19.R5", "T1", "escapes: every url_hex_val of the two characters after '%' is dominated by isxdigit of both; the "
                 "inline buffer receives the text only when strlen(s) < sizeof(u_static)", floor=4)
    prog = ctx.prog
    for name in ("nni_url_decode", "nni_url_canonify_uri"):
        f = prog.need(name, "core/url.c")
        hex_ = G.need_sites([s for s in f.calls("url_hex_val")], "url_hex_val", f)
        # isxdigit is a macro over the ctype table in glibc: recognise it by macro provenance as well
        ok = {}
        dig = [s for s in f.calls("isxdigit")]
        for s in dig:
            for b, (nz, z) in f.value_edges(s).items():
                ok[b] = nz
        for b in f.blocks.values():
            c = f.cond(b.id) if b.term and len(b.succs) == 2 else None
            if c is None:
                continue
            t = truth_of(c, lambda n: "isxdigit" in (n.get("m") or []) and n.get("k") in ("bin", "call", "idx"))
            if t:
                ok[b.id] = 0 if t > 0 else 1
                dig.append(b.id)
        if len(dig) < 2:
            ctx.fail(r, f, "isxdigit tests missing", f.line, "%s no longer tests both hex digits" % name)
            continue
        for s in hex_:
            if G.dominated(f, (s.b, s.i), ok):
                r.ob(f, "url_hex_val line %s dominated by isxdigit" % s.line)
            else:
                ctx.fail(r, f, "hex digit decoded unchecked", s.line, "url_hex_val is applied to a character that was not tested with isxdigit")
    f = prog.need("nni_url_parse_inline_inner", "core/url.c")
    sn = [s for s in f.calls("snprintf") if "u_static" in show(f.expand(s.node["args"][0]))]
    fits = {}
    for b in f.blocks.values():
        c = f.cond(b.id) if b.term and len(b.succs) == 2 else None
        if c is not None and c.get("k") == "bin" and "strlen" in show(c["lhs"]) and c["rhs"].get("k") == "sizeof" and \
                c["rhs"].get("e") is not None and G.field_is(c["rhs"]["e"], "u_static"):
            if c["op"] == ">=":
                fits[b.id] = 1
            elif c["op"] == "<":
                fits[b.id] = 0
            elif c["op"] in (">", "<="):
                ctx.fail(r, f, "inline buffer bound %s" % c["op"], f.line_of(b.id, 0),
                         "the text is copied into the inline buffer when strlen(s) %s sizeof(u_static): a text of exactly "
                         "sizeof(u_static) bytes loses its last byte" % ("<=" if c["op"] == ">" else c["op"]))
    for s in G.need_sites(sn, "copy into u_static", f):
        if fits and G.dominated(f, (s.b, s.i), fits):
            r.ob(f, "inline copy only when strlen(s) < sizeof(u_static)")
        elif not fits:
            pass
        else:
            ctx.fail(r, f, "inline copy unguarded", s.line, "the inline buffer is filled without the strict length test")


def rule_r6(ctx):
    r = ctx.rule("C19.R6", "T2", "canonicaliser: every successful return of the parser for an authority URL passes "
                 "nni_url_canonify_uri; the canonicaliser ends in url_utf8_validate; each of its passes starts with the cursors "
                 "at 0 and with skip == false", floor=5)
    prog = ctx.prog
    f = prog.need("nni_url_parse_inline_inner", "core/url.c")
    can = G.need_sites([s for s in f.calls("nni_url_canonify_uri")], "nni_url_canonify_uri", f)
    # successful returns: `return (NNG_OK)` / 0 after the ipc-style early return
    rets = [s for s in f.sites() if s.node.get("k") == "ret" and s.node.get("e") is not None and
            const_of(f.expand(s.node["e"])) == 0 and f.expand(s.node["e"]).get("k") in ("enum", "int")]
    early = {}
    for c in f.calls("strcmp"):
        for b, (nz, z) in f.value_edges(c).items():
            early[b] = z       # scheme equals one of the path-only schemes
    # the same comparison chain behind a boolean helper of the file (url_scheme_is_local(scheme))
    for bid, k, h, c in G.predicate_calls(f, prog):
        if any(True for _ in h.calls("strcmp")):
            early[bid] = k
    n_ok = 0
    for s in rets:
        if not G.reaches(f, (f.entry, 0), [(s.b, s.i)], blocked=G.positions(can), cut=early):
            n_ok += 1
    if n_ok == len(rets) and rets:
        r.ob(f, "%d successful returns: all authority paths canonicalised" % len(rets))
    else:
        ctx.fail(r, f, "successful parse without canonicalisation", f.line,
                 "an authority URL can be accepted without passing nni_url_canonify_uri")
    g = prog.need("nni_url_canonify_uri", "core/url.c")
    val = [s for s in g.calls("url_utf8_validate")]
    okret = [s for s in g.sites() if s.node.get("k") == "ret" and s.node.get("e") is not None and
             const_of(g.expand(s.node["e"])) == 0 and g.expand(s.node["e"]).get("k") in ("enum", "int")]
    if val and all(not G.reaches(g, (g.entry, 0), [(s.b, s.i)], blocked=G.positions(val)) for s in okret):
        r.ob(g, "success only after url_utf8_validate")
    else:
        ctx.fail(r, g, "canonicaliser skips UTF-8 validation", g.line, "nni_url_canonify_uri can return success without url_utf8_validate")
    # passes: loops whose body reads `skip`; at loop entry skip must be known false, src and dst 0
    dom = g.dominators()
    heads = set()
    for b in g.blocks.values():
        for p_ in b.preds:
            if b.id in dom.get(p_, set()):
                heads.add(b.id)
    checked = 0
    loops = {}
    for h in heads:
        loops[h] = {b for b in g.blocks if h in dom.get(b, set()) and (h, 0) in g.reach((b, 0))}
    for h in sorted(heads):
        if any(h in body and h != h2 for h2, body in loops.items()):
            continue        # an inner loop, not a pass of its own
        loop_blocks = loops[h]
        reads_skip = any(n.get("k") == "var" and n["n"] == "skip" for b in loop_blocks for e in g.blocks[b].elems if e
                         for n in walk(e)) or any(
            (g.cond(b) is not None and "skip" in show(g.cond(b))) for b in loop_blocks if g.blocks[b].term)
        reads_src = any("out[src" in show(e) for b in loop_blocks for e in g.blocks[b].elems if e)
        if not reads_src or not g.blocks[h].elems:
            continue
        outer = {p_ for p_ in g.blocks[h].preds if h not in dom.get(p_, set())}
        sts = [st for st, prev in facts_at(g, (h, 0), with_prev=True) if prev in outer]
        for var, need in (("src", True), ("dst", True), ("skip", reads_skip)):
            if not need:
                continue
            vals = {(st.get((var,)) or ("?",))[0] for st in sts} if sts else {"?"}
            checked += 1
            if vals == {"Z"}:
                r.ob(g, "pass at line %s starts with %s == 0" % (g.line_of(h, 0), var))
            else:
                ctx.fail(r, g, "pass starts with stale %s" % var, g.line_of(h, 0),
                         "the canonicaliser pass whose loop starts at line %s is entered with %s not reset (it keeps the "
                         "value the previous pass left): %s" % (g.line_of(h, 0), var,
                                                                "'/.' and '/..' segments are not removed when the URL has a query or fragment"
                                                                if var == "skip" else "the pass works on the wrong offsets"))
    if checked < 6:
        raise AnalysisBroken("canonicaliser passes not recognised (%d facts)" % checked)


def rule_r7(ctx):
    from .. import numconv
    r = ctx.rule("C19.R7", "T12", "well-formed port: the number strtol extracted from the port text (nni_get_port_by_name, which "
                 "nni_url_parse and the resolvers use) is used only when the conversion consumed the whole text -- `80abc` and "
                 "`8080:9090` are not numeric ports", floor=1)
    fns = [f for f in ctx.prog.functions if f.name == "nni_get_port_by_name"]
    if not fns:
        raise AnalysisBroken("nni_get_port_by_name not in the build")
    numconv.check(ctx, r, fns, 1)


def rule_r11(ctx):
    r = ctx.rule("C19.R11", "T1", "a numeric port starts with a digit: the strto* family skips leading white space and accepts a sign, so the "
                 "value converted from the port text is used only on paths on which the first character was compared with "
                 "'0' and '9' (or classified by isdigit) -- `+80`, ` 80` and `-0` are not ports", floor=1)
    f = ctx.prog.need("nni_get_port_by_name")
    n = 0
    from ..numconv import STRTO
    for c in f.calls(STRTO):
        a0 = f.expand(c.node["args"][0]) if c.node["args"] else None
        if a0 is None or a0.get("k") != "var":
            continue
        text = a0["n"]
        n += 1

        def first_char(x):
            while x is not None and x.get("k") == "cast":
                x = x["e"]
            if x is None:
                return False
            if x.get("k") == "idx":
                b = f.expand(x["b"])
                return b is not None and b.get("k") == "var" and b["n"] == text and const_of(x["i"]) == 0
            return x.get("k") == "un" and x.get("op") == "*" and f.expand(x["e"]).get("k") == "var" and f.expand(x["e"])["n"] == text
        lo, hi = {}, {}
        for bid, k, atom, val in G.edge_facts(f):
            if atom.get("k") == "bin" and atom.get("op") in (">=", "<=", ">", "<"):
                l, rr, op = atom["lhs"], atom["rhs"], atom["op"]
                if first_char(rr) and not first_char(l):
                    l, rr, op = rr, l, {">=": "<=", "<=": ">=", ">": "<", "<": ">"}[op]
                if not first_char(l):
                    continue
                cv = const_of(rr)
                if not val:
                    op, = [{">=": "<", "<=": ">", ">": "<=", "<": ">="}[op]]
                if (op == ">=" and cv == 48) or (op == ">" and cv == 47):
                    lo[bid] = k
                if (op == "<=" and cv == 57) or (op == "<" and cv == 58):
                    hi[bid] = k
            elif val and any("isdigit" in (m.get("m") or []) for m in walk(atom)) and any(first_char(m) for m in walk(atom)):
                lo[bid] = k
                hi[bid] = k
        # every store of the converted value to the caller happens behind both tests
        outs = [t for t in f.assigns() if t.node["lhs"].get("k") == "un" and t.node["lhs"].get("op") == "*"]
        guarded = [t for t in outs if lo and hi and G.dominated(f, (t.b, t.i), lo) and G.dominated(f, (t.b, t.i), hi)]
        conv = [t for t in outs if any(m.get("k") == "var" and any(
            d is not None and any(q.get("k") == "call" and q.get("fn") in STRTO for q in walk(d)) for _, d in G.var_defs(f, m["n"]))
            for m in walk(f.expand(t.node["rhs"])))]
        bad = [t for t in conv if t not in guarded]
        if bad:
            ctx.fail(r, f, "converted port used without a first-digit test", bad[0].line,
                     "%s hands out the value %s converted from `%s` (line %s) on a path that never compared %s[0] with '0' and "
                     "'9': leading blanks or a sign are taken as part of the number" % (f.name, c.node["fn"], text, bad[0].line, text))
        else:
            r.ob(f, "%s(%s): the result is stored only where %s[0] is a digit" % (c.node["fn"], text, text))
    if n < 1:
        raise AnalysisBroken("nni_get_port_by_name no longer converts with strto*")


def rule_r8(ctx):
    r = ctx.rule("C19.R8", "T1", "nng_url_sprintf: whether the host is wrapped in [ ] depends on the host alone -- the stores of the "
                 "brackets are controlled only by tests of the host name, never by whether a port is printed (an IPv6 literal "
                 "without brackets is refused by nng_url_parse, so the output would not parse back)", floor=2)
    f = ctx.prog.need("nng_url_sprintf", "core/url.c")
    hostvars = {"u_hostname"}
    for t in f.sites():
        if t.node.get("k") == "decls":
            for d in t.node["d"]:
                e = f.expand(d["init"]) if d.get("init") is not None else None
                if e is not None and e.get("k") == "mem" and e.get("f") == "u_hostname":
                    hostvars.add(d["n"])
    stores = [t for t in f.assigns() if t.node["lhs"].get("k") == "var" and (lambda e: e is not None and e.get("k") == "str" and e.get("v") in ("[", "]"))(f.expand(t.node["rhs"]))]
    G.need_sites(stores, "bracket stores", f)
    facts = G.edge_facts(f)
    names = {t.node["lhs"]["n"] for t in stores}
    emit = [c for c in f.calls("snprintf") if any((lambda a: a is not None and a.get("k") == "var" and a["n"] in names)(f.expand(a))
                                                  for a in c.node["args"] if a is not None)]
    G.need_sites(emit, "snprintf that prints the brackets", f)
    for t in stores:
        foreign = None
        own = False
        for bid, k, atom, val in facts:
            if not G.dominated(f, (t.b, t.i), {bid: k}):
                continue
            if all(G.dominated(f, (c.b, c.i), {bid: k}) for c in emit):
                continue      # a condition of the whole output form (scheme without authority), not of the brackets
            about_host = any((m.get("k") == "var" and m["n"] in hostvars) or (m.get("k") == "mem" and m.get("f") in hostvars) for m in walk(atom))
            if about_host:
                own = True
            else:
                foreign = (bid, atom)
        if foreign is not None or not own:
            ctx.fail(r, f, "bracket %s depends on %s" % (show(t.node["rhs"]), show(foreign[1]) if foreign else "nothing"), t.line,
                     "the store %s at line %s is made only when %s: for other URLs an IPv6 literal host is printed without "
                     "brackets and nng_url_parse refuses the result" % (show(t.node), t.line, show(foreign[1]) if foreign else "(no test of the host)"))
        else:
            r.ob(f, "%s line %s: controlled by tests of the host only" % (show(t.node), t.line))


def rule_r9(ctx):
    r = ctx.rule("C19.R9", "T1", "percent-escapes decode to the right value: in url_hex_val every branch returns (c - base) [+ 10] with the "
                 "base of the very range it tested (c >= base): an upper-case digit decoded with the lower-case base yields a "
                 "different byte, so valid UTF-8 escapes are refused, invalid ones accepted, and canonical forms differ", floor=3)
    f = ctx.prog.need("url_hex_val", "core/url.c")
    if not f.params:
        raise AnalysisBroken("url_hex_val lost its parameter")
    cv = f.params[0]["n"]
    facts = G.edge_facts(f)
    n = 0
    for t in f.sites():
        nd = t.node
        if nd.get("k") != "ret" or nd.get("e") is None:
            continue
        subs = [m for m in walk(f.expand(nd["e"])) if m.get("k") == "bin" and m.get("op") == "-" and
                (lambda l: l is not None and any(x.get("k") == "var" and x["n"] == cv for x in walk(l)))(m.get("lhs")) and const_of(m.get("rhs")) is not None]
        if not subs:
            continue
        n += 1
        base = const_of(subs[0]["rhs"])
        lows = set()
        for bid, k, atom, val in facts:
            if atom.get("k") == "bin" and atom.get("op") in (">=", ">", "<", "<=") and G.dominated(f, (t.b, t.i), {bid: k}):
                l, rr, op = atom["lhs"], atom["rhs"], atom["op"]
                if const_of(l) is not None:
                    l, rr, op = rr, l, {">=": "<=", "<=": ">=", ">": "<", "<": ">"}[op]
                kk = const_of(rr)
                if kk is None or not any(x.get("k") == "var" and x["n"] == cv for x in walk(l)):
                    continue
                if (op == ">=" and val):
                    lows.add(kk)
                elif (op == "<" and not val):
                    lows.add(kk)
                elif (op == ">" and val):
                    lows.add(kk + 1)
        if base in lows:
            r.ob(f, "return at line %s subtracts the base %d of its own range" % (t.line, base))
        else:
            ctx.fail(r, f, "hex digit decoded with the base of another range", t.line,
                     "url_hex_val returns c - %d at line %s on a path that established c >= %s: the digit is decoded with the "
                     "wrong base and the escape yields a different byte" % (base, t.line, "/".join(str(x) for x in sorted(lows)) or "?"))
    if n < 3:
        raise AnalysisBroken("only %d digit ranges found in url_hex_val" % n)


def rule_r10(ctx):
    r = ctx.rule("C19.R10", "T2", "the whole host is folded to lower case: the loop of the parser that stores tolower() into u_hostname[i] is "
                 "left only when the terminating NUL is reached -- a loop that also stops at some other character (the first ':' "
                 "of an IPv6 literal) leaves the rest of the host as it was written, and two spellings of one address parse to "
                 "different hosts", floor=1)
    f = ctx.prog.need("nni_url_parse_inline_inner", "core/url.c")

    def is_fold(t):
        return any(m.get("k") == "call" and m.get("fn") == "tolower" or "tolower" in (m.get("m") or ()) for m in walk(f.expand(t.node["rhs"])))
    # cursors over the host: locals whose every definition is the host pointer or the cursor moved on
    def over_host(t):
        """the store goes through a local that, where the store is made, can only hold the host pointer (moved on or not)"""
        e = t.node["lhs"].get("e")
        e = f.expand(e) if e is not None else None
        if e is None or e.get("k") != "var":
            return False
        rd = G.reaching_defs(f, e["n"], (t.b, t.i))
        return bool(rd) and all(d is not None and ("u_hostname" in show(d) or any(m.get("k") == "var" and m["n"] == e["n"] for m in walk(d)))
                                for _, d in rd)
    stores = [t for t in f.assigns() if t.node["lhs"].get("k") == "idx" and "u_hostname" in show(t.node["lhs"]) and is_fold(t)]
    pstores = [t for t in f.assigns() if t.node["lhs"].get("k") == "un" and t.node["lhs"].get("op") == "*" and is_fold(t) and over_host(t)]
    if not stores and not pstores:
        ctx.fail(r, f, "nothing folds the host to lower case", f.line,
                 "%s has no store of tolower() into u_hostname (directly or through a cursor over it): the host keeps the "
                 "case it was written in" % f.name)
        return
    dom = f.dominators()
    facts = G.edge_facts(f)
    live = {b for (b, i) in f.reach((f.entry, 0))}

    def loop_head(t):
        heads = [h for h in dom[t.b] if any(p_ in live and h in dom[p_] for p_ in f.blocks[h].preds)]
        heads = [h for h in heads if (h, 0) in f.reach((t.b, t.i + 1))]
        return max(heads, key=lambda x: len(dom[x])) if heads else None
    # every way to a successful return runs one of the folding loops (their heads): a branch of the host scan that has no
    # folding of its own leaves that form of host (an IPv6 literal) in the case it was written
    heads = {(loop_head(t), 0) for t in stores + pstores if loop_head(t) is not None}
    okrets = [(t.b, t.i) for t in f.sites() if t.node.get("k") == "ret" and t.node.get("e") is not None and const_of(f.expand(t.node["e"])) == 0]
    hostset = [(t.b, t.i + 1) for t in f.assigns() if t.node["lhs"].get("k") == "mem" and t.node["lhs"].get("f") == "u_hostname" and
               not is_null(f.expand(t.node["rhs"]))]
    if not hostset:
        raise AnalysisBroken("%s no longer stores u_hostname" % f.name)
    if heads and okrets:
        off = None
        for hs in hostset[:1]:      # from where the host is first known
            off = off or G.must_pass(f, hs, heads, stop=okrets)
        if off is not None:
            ctx.fail(r, f, "a successful parse that never folds the host", f.line_of(*off),
                     "%s can return success (line %s) on a path that runs none of the loops storing tolower() into the host "
                     "(lines %s): for that form of host the case is kept, and two spellings of one address parse to different "
                     "hosts (path %s)" % (f.name, f.line_of(*off), ", ".join(str(t.line) for t in stores + pstores),
                                          ">".join(str(x) for x in G.path_lines(f, hostset[0], off, blocked=heads)[-8:])))
        else:
            r.ob(f, "every successful parse runs a loop that folds the host")
    for t in stores:
        # the innermost loop around the store: a head h that dominates the store's block and is reached back from it
        live = {b for (b, i) in f.reach((f.entry, 0))}      # glibc's tolower() macro leaves unreachable blocks behind
        heads = [h for h in dom[t.b] if any(p_ in live and h in dom[p_] for p_ in f.blocks[h].preds)]
        heads = [h for h in heads if (h, 0) in f.reach((t.b, t.i + 1))]
        if not heads:
            raise AnalysisBroken("the lower-casing store is not inside a loop any more")
        h = max(heads, key=lambda x: len(dom[x]))
        body = {b for b in f.blocks if b in live and h in dom[b] and (h, 0) in f.reach((b, 0))}
        bad = None
        for b in body:
            blk = f.blocks[b]
            for k, sx in enumerate(blk.succs):
                if sx is None or sx in body:
                    continue
                # an exit edge: it must be the edge on which u_hostname[i] is zero
                ok = any(bid == b and kk == k and not val and "u_hostname" in show(atom) and atom.get("k") in ("idx", "cast", "un")
                         for bid, kk, atom, val in facts)
                if not ok:
                    bad = (b, k)
        if bad:
            ctx.fail(r, f, "the host lower-casing loop has another way out", f.line_of(bad[0], 0),
                     "the loop that lower-cases u_hostname (store at line %s) can be left at line %s on an edge that is not the "
                     "end of the string: the characters after that point keep their case" % (t.line, f.line_of(bad[0], 0)))
        else:
            r.ob(f, "lower-casing loop at line %s ends only at the NUL" % t.line)


# ---------------------------------------------------------------------------
# R12: an unsigned cursor is stepped back only where it is known to be above zero


def rule_r12(ctx):
    r = ctx.rule("C19.R12", "T1", "the write cursor of the canonicaliser never steps below the start of the string: in core/url.c every `--` of "
                 "an unsigned local that indexes the buffer is reached, after the last change of that local, only through an edge "
                 "on which the local is known to be non-zero -- a path whose first segment is `..` otherwise wraps the cursor and "
                 "the scan for the previous '/' reads and writes in front of the buffer", floor=1)
    prog = ctx.prog
    n = 0
    for f in prog.fns_in("core/url.c"):
        if f.cfg_failed:
            continue
        for t in f.sites():
            nd = t.node
            if nd.get("k") != "un" or nd.get("op") != "--" or nd["e"].get("k") != "var":
                continue
            v = nd["e"]["n"]
            ty = (f.locals().get(v) or {}).get("t") or ""
            if not any(x in ty for x in ("size_t", "unsigned", "uint")):
                continue
            if not any(m.get("k") == "idx" and f.expand(m["i"]).get("k") == "var" and f.expand(m["i"])["n"] == v for s_ in f.sites() for m in walk(s_.node)):
                continue
            n += 1
            nz = dict(G.nz_edges(f, lambda x, v=v: x.get("k") == "var" and x["n"] == v))
            for bid, k, atom, val in G.edge_facts(f):
                if atom.get("k") == "var" and atom["n"] == v and val:
                    nz[bid] = k
                if atom.get("k") != "bin" or atom.get("op") not in (">", ">=", "<", "<=", "!=", "=="):
                    continue
                l, rr, op = atom["lhs"], atom["rhs"], atom["op"]
                if rr.get("k") == "var" and rr["n"] == v and const_of(l) is not None:
                    l, rr, op = rr, l, {">": "<", "<": ">", ">=": "<=", "<=": ">="}.get(op, op)
                if l.get("k") != "var" or l["n"] != v or const_of(rr) is None:
                    continue
                cv = const_of(rr)
                pos = (op == ">" and cv >= 0) or (op == ">=" and cv >= 1) or (op == "!=" and cv == 0)
                neg = (op == "<" and cv <= 1) or (op == "<=" and cv <= 0) or (op == "==" and cv == 0)
                if (pos and val) or (neg and not val):
                    nz[bid] = k
            writes = [(f.entry, 0)]
            for w in f.sites():
                wn = w.node
                if (wn.get("k") == "asg" and wn["lhs"].get("k") == "var" and wn["lhs"]["n"] == v) or \
                        (wn.get("k") == "un" and wn.get("op") in ("++", "--") and wn["e"].get("k") == "var" and wn["e"]["n"] == v):
                    writes.append((w.b, w.i + 1))
                if wn.get("k") == "decls" and any(d["n"] == v for d in wn["d"]):
                    writes.append((w.b, w.i + 1))
            bad = None
            for w in writes:
                if (t.b, t.i) in f.reach(w, edge_ok=lambda b, k: not (b in nz and nz[b] == k)):
                    bad = w
            if bad:
                ctx.fail(r, f, "%s-- without knowing %s > 0" % (v, v), t.line,
                         "%s decrements the unsigned cursor %s at line %s on a path (from line %s) that has not tested it against "
                         "zero since its last change: at 0 it wraps, and the accesses indexed by it leave the buffer"
                         % (f.name, v, t.line, f.line_of(*bad) if bad != (f.entry, 0) else f.line))
            else:
                r.ob(f, "%s-- at line %s only where %s is known to be non-zero" % (v, t.line, v))
    if n < 1:
        raise AnalysisBroken("no unsigned cursor is stepped back in core/url.c any more")


# ---------------------------------------------------------------------------
# R13: the number a conversion returns is range-checked at the width it was returned in


def rule_r13(ctx):
    import re
    r = ctx.rule("C19.R13", "T11", "a converted number is range-checked at full width: the result of strtol / strtoul / strtoll / "
                 "strtoull is kept in a local of the function's own result type (long / unsigned long / long long / a 64-bit "
                 "type) with no narrowing cast between the call and the store -- narrowed to int first, 4294967376 is 80 and "
                 "passes the test `<= 0xffff` that is still there: http://host:4294967376/ is accepted as port 80", floor=1)
    prog = ctx.prog
    WIDE = {"strtol": r"^(const )?(long|long int|int64_t|ssize_t|intptr_t|long long)$",
            "strtoul": r"^(const )?(unsigned long|unsigned long int|uint64_t|size_t|uintptr_t|unsigned long long)$",
            "strtoll": r"^(const )?(long long|long long int|int64_t)$",
            "strtoull": r"^(const )?(unsigned long long|unsigned long long int|uint64_t|size_t)$"}
    n = 0
    for f in prog.functions:
        if f.cfg_failed or f.file.endswith("_test.c"):
            continue
        for s_ in f.sites():
            if f.blocks[s_.b].elems[s_.i] is not s_.node:
                continue
            for m in walk(f.expand(s_.node)):
                cands = []
                if m.get("k") == "asg" and m.get("op") == "=" and m["lhs"].get("k") == "var":
                    cands = [(m["lhs"]["n"], m["rhs"], (f.locals().get(m["lhs"]["n"]) or {}).get("t") or "")]
                elif m.get("k") == "decls":
                    cands = [(d["n"], d["init"], d.get("t") or "") for d in m["d"] if d.get("init") is not None]
                for name, rhs, ty in cands:
                    casts = []
                    rr = f.expand(rhs) if rhs is not None else None
                    while rr is not None and rr.get("k") == "cast":
                        casts.append(rr.get("t") or "")
                        rr = f.expand(rr["e"])
                    if rr is None or rr.get("k") != "call" or rr.get("fn") not in WIDE:
                        continue
                    n += 1
                    pat = re.compile(WIDE[rr["fn"]])
                    narrow = [c for c in casts if c and not pat.match(c.strip())]
                    if not pat.match(ty.strip()) or narrow:
                        ctx.fail(r, f, "result of %s narrowed to %s before it is checked" % (rr["fn"], narrow[0] if narrow else ty), s_.line,
                                 "%s keeps the result of %s in %s (%s%s) at line %s: the range test that follows sees only the "
                                 "low bits, so a number far out of range is accepted as the small number it wraps to"
                                 % (f.name, rr["fn"], name, ty, (", cast to " + narrow[0]) if narrow else "", s_.line))
                    else:
                        r.ob(f, "%s = %s(...) kept as %s" % (name, rr["fn"], ty))
    if n < 1:
        raise AnalysisBroken("no strto* conversion kept in a local found")


# ---------------------------------------------------------------------------
# R14: every component of a clone points into the clone's own storage


def rule_r14(ctx):
    r = ctx.rule("C19.R14", "T11", "a clone is independent of its source: in nni_url_clone_inline every pointer component of the "
                 "destination that addresses the text (u_buffer in the inline case, u_path, u_hostname, u_userinfo, u_query, "
                 "u_fragment) is computed from a base inside the destination (dst->u_buffer / dst->u_static) plus an offset taken "
                 "from the source -- based on the source's buffer the component has the right text while the source lives and "
                 "dangles once it is freed (u_scheme points into the static scheme table and is shared on purpose)", floor=4)
    f = ctx.prog.need("nni_url_clone_inline", "core/url.c")
    if len(f.params) < 2:
        raise AnalysisBroken("nni_url_clone_inline lost its parameters")
    dst, src = f.params[0]["n"], f.params[1]["n"]
    TEXT = ("u_buffer", "u_path", "u_hostname", "u_userinfo", "u_query", "u_fragment")
    n = 0
    for t in f.assigns():
        l = t.node["lhs"]
        if l.get("k") != "mem" or l["f"] not in TEXT or not (l["b"].get("k") == "var" and l["b"]["n"] == dst):
            continue
        rhs = f.expand(t.node["rhs"])
        while rhs is not None and rhs.get("k") == "cast":
            rhs = rhs["e"]
        if rhs is None or rhs.get("k") == "call" or (rhs.get("k") == "asg"):
            continue        # a fresh allocation
        n += 1
        base = rhs
        while base is not None and base.get("k") == "bin" and base.get("op") in ("+", "-"):
            base = base["lhs"]
        while base is not None and base.get("k") in ("cast",):
            base = base["e"]
        bvar = base
        while bvar is not None and bvar.get("k") in ("mem", "idx", "un"):
            bvar = bvar.get("b") if bvar.get("k") in ("mem", "idx") else bvar.get("e")
        if bvar is not None and bvar.get("k") == "var" and bvar["n"] == dst:
            r.ob(f, "%s based on the destination's storage" % show(l))
        else:
            ctx.fail(r, f, "%s of the clone points into the source" % l["f"], t.line,
                     "nni_url_clone_inline sets %s = %s (line %s): the base of that address is not the destination's own buffer, "
                     "so the clone shares storage with its source and dangles when the source is released" % (show(l), show(rhs)[:70], t.line))
    if n < 4:
        raise AnalysisBroken("only %d rebased components found in nni_url_clone_inline" % n)


# ---------------------------------------------------------------------------
# R15: an escape is decoded into a raw byte only when that byte is known not to be NUL




def _pred_false_at_zero(prog, f, call, v):
    """the call is g(.., v, ..) of a helper whose only return statement yields an expression over that parameter and constants
    which is 0 for the value 0"""
    g = prog.resolve(f, call["fn"])
    if g is None or g.cfg_failed:
        return False
    pi = None
    for i, a in enumerate(call["args"]):
        a = f.expand(a)
        while a is not None and a.get("k") in ("cast",) or (a is not None and a.get("k") == "un" and a.get("op") in ("(cast)", "()")):
            a = a["e"]
        if a is not None and a.get("k") == "var" and a["n"] == v:
            pi = i
    if pi is None or pi >= len(g.params):
        return False
    pn = g.params[pi]["n"]
    rets = [s for s in g.sites() if s.node.get("k") == "ret"]
    if len(rets) != 1 or any(s.node.get("k") in ("asg", "call", "incdec") for s in g.sites()):
        return False

    def ev(x, d=0):
        if x is None or d > 40:
            return None
        k = x.get("k")
        if const_of(x) is not None:
            return const_of(x)
        if k == "var":
            return 0 if x["n"] == pn else None
        if k == "cast" or (k == "un" and x.get("op") in ("(cast)", "()")):
            return ev(x["e"], d + 1)
        if k == "un" and x.get("op") == "!":
            t = ev(x["e"], d + 1)
            return None if t is None else int(not t)
        if k == "bin":
            a, b = ev(x["lhs"], d + 1), ev(x["rhs"], d + 1)
            op = x["op"]
            if op == "&&":
                return 0 if (a == 0 or b == 0) else (None if a is None or b is None else 1)
            if op == "||":
                return 1 if ((a is not None and a != 0) or (b is not None and b != 0)) else (None if a is None or b is None else 0)
            if a is None or b is None:
                return None
            return {"==": int(a == b), "!=": int(a != b), "<": int(a < b), "<=": int(a <= b), ">": int(a > b), ">=": int(a >= b)}.get(op)
        return None
    return ev(g.expand(rets[0].node.get("e"))) == 0


def rule_r15(ctx):
    r = ctx.rule("C19.R15", "T1", "%00 stays escaped: in nni_url_canonify_uri the value decoded from %XX is written into the string as "
                 "a raw byte only over an edge that excludes 0 (a comparison c >= k with k > 0, c == k with k != 0, or a "
                 "character-class test that 0 does not pass) -- a membership test with strchr(set, c) is true for c == 0 (it "
                 "finds the set's own terminator), so %00 would be decoded into a NUL that silently cuts the URL short: path, "
                 "query and fragment behind it vanish and are no longer validated", floor=1)
    r.follows_values = True      # a character-class helper is looked into through the helpers-inlined view
    f = ctx.prog.need("nni_url_canonify_uri", "core/url.c")
    n = 0
    for t in f.assigns():
        rhs = f.expand(t.node["rhs"])
        if not (t.node["lhs"].get("k") == "var" and t.node.get("op") == "+=" and any(
                m.get("k") == "call" and m.get("fn") == "url_hex_val" for m in walk(rhs))):
            continue
        v = t.node["lhs"]["n"]
        nonzero = {}
        for bid, k, atom, val in G.edge_facts(f):
            a = atom
            if a.get("k") == "bin" and a["lhs"].get("k") == "var" and a["lhs"]["n"] == v and const_of(a["rhs"]) is not None:
                cv, op = const_of(a["rhs"]), a["op"]
                est = (op == ">=" and cv > 0 and val) or (op == ">" and cv >= 0 and val) or (op == "==" and cv != 0 and val) or \
                      (op == "!=" and cv == 0 and val) or (op == "<" and cv > 0 and not val) or (op == "<=" and cv >= 0 and not val)
                if est:
                    nonzero[bid] = k
            elif val and a.get("k") == "call" and a.get("fn") and _pred_false_at_zero(ctx.prog, f, a, v):
                nonzero[bid] = k          # a character-class helper that 0 does not pass
            elif val and "__ctype_b_loc" in show(a) and any(m.get("k") == "var" and m["n"] == v for m in walk(a)) and \
                    any(x in show(a) for x in ("_ISalnum", "_ISalpha", "_ISdigit", "_ISxdigit", "_ISupper", "_ISlower")):
                nonzero[bid] = k

        def redef(b, i, e, v=v):
            return e is not None and any(m.get("k") == "asg" and m.get("op") == "=" and m["lhs"].get("k") == "var" and m["lhs"]["n"] == v
                                         for m in walk(f.expand(e)))
        seen = f.reach((t.b, t.i + 1), blocked=redef, edge_ok=lambda b, k: not (b in nonzero and nonzero[b] == k))
        for w in f.assigns():
            l = w.node["lhs"]
            wr = f.expand(w.node["rhs"])
            while wr is not None and wr.get("k") == "cast":
                wr = wr["e"]
            if l.get("k") == "idx" and wr is not None and wr.get("k") == "var" and wr["n"] == v:
                if not (w.b, w.i) in f.reach((t.b, t.i + 1), blocked=redef):
                    continue
                n += 1
                if (w.b, w.i) in seen:
                    ctx.fail(r, f, "decoded escape written raw without excluding NUL", w.line,
                             "nni_url_canonify_uri writes the decoded value of an escape into the string (line %s) on a path that "
                             "has not established that the value is not 0: %%00 becomes a terminator in the middle of the URL"
                             % w.line)
                else:
                    r.ob(f, "decoded escape written raw (line %s) only when known not to be NUL" % w.line)
    if n < 1:
        raise AnalysisBroken("nni_url_canonify_uri: no raw write of a decoded escape found")


def run(ctx):
    ctx.guard(rule_r1)
    ctx.guard(rule_r2)
    ctx.guard(rule_r3)
    ctx.guard(rule_r5)
    ctx.guard(rule_r6)
    ctx.guard(rule_r7)
    ctx.guard(rule_r8)
    ctx.guard(rule_r9)
    ctx.guard(rule_r10)
    ctx.guard(rule_r11)
    ctx.guard(rule_r12)
    ctx.guard(rule_r13)
    ctx.guard(rule_r14)
    ctx.guard(rule_r15)
