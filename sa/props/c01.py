"""C01 -- whole-message integrity on every transport, under any segmentation.

What is decided here is the *shape* of the mechanisms the property depends on
(resume-on-partial loops, framing agreement between writer and reader, header in
front of body, FIFO hand-off, exclusive copy on the inproc hand-off, websocket
fragmentation/reassembly, byte accounting of the posix back ends).  Payload
equality itself is a runtime quantity and is not decided."""
from ..core import (walk, show, const_of, last_field, truth_of, same_expr, strip_addr, apath, AnalysisBroken)
from .. import guards as G
from ..guards import var_defs, reaching_defs, resolve
from . import c16

EXPLANATION = ("C01: per stream transport (tcp, ipc, socket-fd) the completion callbacks resubmit the inner aio until its iov is "
               "drained and only then complete the user's operation or advance the receive state machine; the length prefix "
               "is written and read with the same width, offset and byte order, equals body+header length on the sending "
               "side and is the allocation and read size on the receiving side; the iov carries prefix, header, body in that "
               "order; queues are tail-append / head-consume with one transfer in flight; the aio's iov is private to "
               "core/aio.c; the inproc hand-off passes every message through nni_msg_pull_up, which returns the caller's "
               "object only when it is not shared; websocket fragments complete the user's send only on the final frame and "
               "reassembly copies the frames in list order into a message of the summed size; the posix back ends account "
               "exactly the byte count the system call returned.")

TRANSPORTS = [
    ("tcp", "transport/tcp/tcp.c", "tcptran_pipe"),
    ("ipc", "transport/ipc/ipc.c", "ipc_pipe"),
    ("sockfd", "transport/socket/sockfd.c", "sfd_tran_pipe"),
]


# ---------------------------------------------------------------------------
# helpers


def is_call(n, name):
    return n is not None and n.get("k") == "call" and n.get("fn") == name


def nz_edges(fn, match):
    """{block: succ index on which the matched sub-expression is non-zero}.  Knows X, !X, X != 0, X == 0, X > 0
    (unsigned), 0 < X, X >= 1."""
    out = {}
    for b in fn.blocks.values():
        if not b.term or len(b.succs) != 2:
            continue
        c = fn.cond(b.id)
        if c is None:
            continue
        t = truth_of(c, match)
        if t:
            out[b.id] = 0 if t > 0 else 1
            continue
        c = resolve(fn, c, (b.id, len(b.elems)))
        t = truth_of(c, match)
        if t:
            out[b.id] = 0 if t > 0 else 1
            continue
        neg = 0
        while c is not None and c.get("k") == "un" and c.get("op") == "!":
            c = c["e"]
            neg ^= 1
        if c is None or c.get("k") != "bin":
            continue
        op, l, r = c["op"], c["lhs"], c["rhs"]
        if match(l) and ((op == ">" and const_of(r) == 0) or (op == ">=" and const_of(r) == 1)):
            out[b.id] = 0 ^ neg
        elif match(r) and ((op == "<" and const_of(l) == 0) or (op == "<=" and const_of(l) == 1)):
            out[b.id] = 0 ^ neg
        elif match(l) and ((op == "<=" and const_of(r) == 0) or (op == "<" and const_of(r) == 1)):
            out[b.id] = 1 ^ neg
    return out


def strip_casts(n):
    while n is not None and n.get("k") in ("cast",):
        n = n["e"]
    return n


def aio_key(fn, n):
    """identity of an aio expression: local initialised with &p->F counts as p->F"""
    n = fn.expand(n)
    if n is None:
        return None
    if n.get("k") == "var":
        ds = var_defs(fn, n["n"])
        if len(ds) == 1 and ds[0][1] is not None and ds[0][1].get("k") == "un" and ds[0][1].get("op") == "&":
            return last_field(ds[0][1]) or show(ds[0][1])
        return n["n"]
    return last_field(n) or show(n)


def be_terms(fn, expr):
    """big-endian composition  (B[o+0] << 56) + ... + B[o+7]  ->  (base-field, [(offset, shift)...])"""
    terms = []
    base = [None]

    def one(n):
        n = fn.expand(n)
        sh = 0
        if n.get("k") == "bin" and n["op"] == "<<":
            sh = const_of(n["rhs"])
            n = fn.expand(n["lhs"])
        while n.get("k") == "cast":
            n = n["e"]
        if n.get("k") != "idx":
            return False
        off = const_of(n["i"])
        b = fn.expand(n["b"])
        if b.get("k") == "bin" and b["op"] == "+" and const_of(b["rhs"]) is not None:
            off += const_of(b["rhs"])
            b = b["lhs"]
        if b.get("k") == "un" and b.get("op") == "&" and b["e"].get("k") == "idx":
            # &p->rxlen[4]
            off += const_of(b["e"]["i"]) or 0
            b = b["e"]["b"]
        lf = last_field(b)
        if lf is None or off is None or sh is None:
            return False
        if base[0] is None:
            base[0] = lf
        elif base[0] != lf:
            return False
        terms.append((off, sh))
        return True

    def rec(n):
        n = fn.expand(n)
        if n.get("k") == "bin" and n["op"] in ("+", "|"):
            return rec(n["lhs"]) and rec(n["rhs"])
        return one(n)
    if not rec(expr) or not terms:
        return None, []
    return base[0], sorted(terms)


def put_terms(fn, macro):
    """stores  B[o+k] = v >> s  generated by NNI_PUT64 -> (base-field, value-expr, [(offset, shift)])"""
    out = []
    base = None
    val = None
    for s in fn.assigns():
        n = s.node
        if macro not in (n.get("m") or []):
            continue
        lhs = n["lhs"]
        if lhs.get("k") != "idx":
            continue
        off = const_of(lhs["i"])
        b = fn.expand(lhs["b"])
        if b.get("k") == "bin" and b["op"] == "+" and const_of(b["rhs"]) is not None:
            off += const_of(b["rhs"])
            b = b["lhs"]
        rhs = fn.expand(n["rhs"])
        while rhs.get("k") == "cast":
            rhs = rhs["e"]
        sh = 0
        if rhs.get("k") == "bin" and rhs["op"] == ">>":
            sh = const_of(rhs["rhs"])
            rhs = fn.expand(rhs["lhs"])
        while rhs.get("k") == "cast":
            rhs = rhs["e"]
        lf = last_field(b)
        if base is None:
            base, val = lf, rhs
        if lf != base or not same_expr(val, rhs):
            return None, None, []
        out.append((off, sh, (s.b, s.i)))
    return base, val, sorted(out)


def field_size(prog, recfield):
    rec, fld = recfield.split(".", 1)
    r = prog.records.get(rec)
    if not r:
        return None
    for f in r.get("fields", []):
        if f["n"] == fld:
            return f.get("size")
    return None


# ---------------------------------------------------------------------------
# R1: resume until drained


def check_resume(ctx, r, fn, send):
    stream_call = "nng_stream_send" if send else "nng_stream_recv"
    other_call = "nng_stream_recv" if send else "nng_stream_send"
    advs = list(fn.calls("nni_aio_iov_advance"))
    if len(advs) != 1:
        if not advs:
            ctx.fail(r, fn, "no nni_aio_iov_advance", fn.line,
                     "the completion callback no longer advances the inner aio's iov by the transferred count: a partial "
                     "transfer is treated as complete (or re-sent from the start)")
            return
        raise AnalysisBroken("%s: %d nni_aio_iov_advance calls, rule expects one" % (fn.name, len(advs)))
    adv = advs[0]
    X = aio_key(fn, adv.node["args"][0])
    amount = fn.expand(adv.node["args"][1])
    ok_amount = False
    if is_call(amount, "nni_aio_count") and aio_key(fn, amount["args"][0]) == X:
        ok_amount = True
    elif amount.get("k") == "var":
        rd = reaching_defs(fn, amount["n"], (adv.b, adv.i))
        ok_amount = bool(rd) and all(is_call(x, "nni_aio_count") and aio_key(fn, x["args"][0]) == X for _, x in rd)
    if not ok_amount:
        ctx.fail(r, fn, "iov advanced by something other than the transferred count", adv.line,
                 "nni_aio_iov_advance(%s, %s): the amount is not nni_aio_count() of the same aio" % (X, show(amount)))
    else:
        r.ob(fn, "iov of %s advanced by its own nni_aio_count" % X)
    more = nz_edges(fn, lambda n: is_call(n, "nni_aio_iov_count") and aio_key(fn, n["args"][0]) == X)
    if not more:
        ctx.fail(r, fn, "no nni_aio_iov_count test", adv.line,
                 "after advancing the iov nothing tests nni_aio_iov_count(%s): a partial transfer completes the operation" % X)
        return
    # the count test comes after the advance
    for b in more:
        if not fn.dominated_by((b, len(fn.blocks[b].elems)), blocked=lambda bb, i, e: (bb, i) == (adv.b, adv.i)):
            ctx.fail(r, fn, "iov count tested before the advance", fn.line_of(b, 0),
                     "nni_aio_iov_count(%s) can be tested without first advancing the iov by the transferred count" % X)
    drained = {b: 1 - k for b, k in more.items()}   # the edge on which count == 0
    # on the residual edge: resubmit the same aio in the same direction, complete nothing
    progress = []
    for name in ("nni_aio_finish", "nni_aio_finish_sync", "nni_aio_finish_msg", "nni_aio_list_remove", "nni_msg_alloc",
                 "nni_aio_set_msg", "nni_aio_set_iov", "nni_msg_free", fn.name.replace("_cb", "_start")):
        progress += list(fn.calls(name))
    rx_reads = [s for s in fn.assigns() if any(m in ("NNI_GET64",) for m in (s.node.get("m") or []))]
    for b, k in more.items():
        tgt = fn.blocks[b].succs[k]
        if tgt is None:
            continue
        resub = [s for s in fn.calls(stream_call) if aio_key(fn, s.node["args"][1]) == X]
        wrong = [s for s in fn.calls(other_call) if G.reaches(fn, (tgt, 0), [(s.b, s.i)], cut=drained)]
        if wrong:
            ctx.fail(r, fn, "partial transfer resumed in the wrong direction", wrong[0].line,
                     "the residual edge of the iov count test reaches %s" % other_call)
        bad = G.must_pass(fn, (tgt, 0), G.positions(resub), cut=drained)
        if bad:
            ctx.fail(r, fn, "residual iov not resubmitted", fn.line_of(tgt, 0),
                     "with bytes still outstanding (nni_aio_iov_count(%s) != 0) the callback can return without "
                     "%s(conn, %s): the rest of the frame is never transferred" % (X, stream_call, X),
                     G.path_lines(fn, (tgt, 0), (fn.exit, 0), cut=drained, blocked=G.positions(resub)))
        else:
            r.ob(fn, "residual edge resubmits %s via %s" % (X, stream_call))
        hit = G.reaches(fn, (tgt, 0), G.positions(progress), cut=drained)
        if hit:
            ctx.fail(r, fn, "progress on a partial transfer", fn.line_of(*hit),
                     "with bytes still outstanding the callback reaches line %s (completion / state change of the transfer): "
                     "the peer or the user sees a truncated message" % fn.line_of(*hit),
                     G.path_lines(fn, (tgt, 0), hit, cut=drained))
        else:
            r.ob(fn, "residual edge completes nothing")
    # success completions and state-machine progress only over the drained edge, after the advance
    succ = []
    for name in ("nni_aio_finish", "nni_aio_finish_sync"):
        for s in fn.calls(name):
            if len(s.node["args"]) > 1 and const_of(fn.expand(s.node["args"][1])) == 0:
                succ.append(s)
    if not succ:
        raise AnalysisBroken("%s: no successful completion found" % fn.name)
    guarded = succ + list(fn.calls("nni_msg_alloc")) + list(fn.calls("nni_aio_set_msg")) + \
        list(fn.calls(fn.name.replace("_cb", "_start")))
    for s in guarded:
        what = s.node["fn"]
        if not G.dominated(fn, (s.b, s.i), drained):
            ctx.fail(r, fn, "%s without drained iov" % what, s.line,
                     "%s at line %s is reachable without passing the edge on which nni_aio_iov_count(%s) is zero" % (what, s.line, X),
                     G.path_lines(fn, (fn.entry, 0), (s.b, s.i), cut=drained))
        elif not fn.dominated_by((s.b, s.i), blocked=lambda bb, i, e: (bb, i) == (adv.b, adv.i)):
            ctx.fail(r, fn, "%s without iov advance" % what, s.line,
                     "%s at line %s is reachable without nni_aio_iov_advance" % (what, s.line))
        else:
            r.ob(fn, "%s line %s only after the iov is drained" % (what, s.line))
    for s in rx_reads:
        if not G.dominated(fn, (s.b, s.i), drained):
            ctx.fail(r, fn, "length prefix decoded before it is complete", s.line,
                     "the length prefix is decoded on a path that has not seen nni_aio_iov_count(%s) == 0" % X)
        else:
            r.ob(fn, "prefix decoded only after the iov is drained")
    # error result of the inner aio never reaches a success completion
    res = [s for s in fn.calls("nni_aio_result") if aio_key(fn, s.node["args"][0]) == X]
    if not res:
        ctx.fail(r, fn, "inner aio result not examined", fn.line, "nni_aio_result(%s) is not consulted any more" % X)
    for s in res:
        ve = fn.value_edges(s)
        if not ve:
            ctx.fail(r, fn, "inner aio result unchecked", s.line, "the result of the inner transfer is not tested")
            continue
        for b, (nz, z) in ve.items():
            tgt = fn.blocks[b].succs[nz]
            hit = G.reaches(fn, (tgt, 0), G.positions(succ))
            if hit:
                ctx.fail(r, fn, "failed transfer completes successfully", s.line,
                         "the error edge of nni_aio_result(%s) reaches the successful completion at line %s" % (X, fn.line_of(*hit)))
            else:
                r.ob(fn, "failed inner transfer never completes the user aio with success")


def check_nego(ctx, r, fn):
    """handshake: got += count; got < want => resubmit want-got bytes at &buf[got]; validation only when both are complete"""
    counters = {}
    for s in fn.assigns():
        n = s.node
        if n.get("op") == "+=" and n["lhs"].get("k") == "mem":
            rhs = fn.expand(n["rhs"])
            if is_call(rhs, "nni_aio_count"):
                counters[n["lhs"]["f"]] = s
    if len(counters) != 2:
        ctx.fail(r, fn, "handshake progress counters", fn.line,
                 "expected two `got += nni_aio_count(aio)` accumulations (tx then rx), found %d" % len(counters))
        return
    less = {}
    for got in counters:
        less[got] = G.cmp_edges(fn, lambda l, got=got: l.get("k") == "mem" and l["f"] == got, {"<": 0, ">=": 1})
    done_cut = {}
    for got, edges in less.items():
        # blocks that *resubmit* are those whose `<` true-edge leads to a stream call
        resub_blocks = {}
        for b, k in edges.items():
            tgt = fn.blocks[b].succs[k]
            calls = [s for s in list(fn.calls("nng_stream_send")) + list(fn.calls("nng_stream_recv"))
                     if s.b == tgt]
            if calls:
                resub_blocks[b] = (k, calls[0])
        if not resub_blocks:
            ctx.fail(r, fn, "no resume branch for %s" % got, fn.line,
                     "no `%s < want` branch resubmits the rest of the handshake header" % got)
            continue
        for b, (k, call) in resub_blocks.items():
            done_cut[b] = 1 - k
            tgt = fn.blocks[b].succs[k]
            blk = fn.blocks[tgt]
            want_len = want_buf = False
            cond = fn.cond(b)
            want_f = cond["rhs"]["f"] if cond.get("k") == "bin" and cond["rhs"].get("k") == "mem" else None
            for i, e in enumerate(blk.elems):
                n = fn.expand(e)
                if n.get("k") != "asg" or n["lhs"].get("k") != "mem":
                    continue
                rhs = fn.expand(n["rhs"])
                if n["lhs"]["f"] == "iov_len":
                    if rhs.get("k") == "bin" and rhs["op"] == "-" and rhs["lhs"].get("k") == "mem" and rhs["lhs"]["f"] == want_f \
                            and rhs["rhs"].get("k") == "mem" and rhs["rhs"]["f"] == got:
                        want_len = True
                if n["lhs"]["f"] == "iov_buf":
                    e2 = rhs
                    if e2.get("k") == "un" and e2["op"] == "&" and e2["e"].get("k") == "idx":
                        ix = fn.expand(e2["e"]["i"])
                        if ix.get("k") == "mem" and ix["f"] == got:
                            want_buf = True
            is_tx = "tx" in got
            dir_ok = call.node["fn"] == ("nng_stream_send" if is_tx else "nng_stream_recv")
            if not (want_len and want_buf):
                ctx.fail(r, fn, "handshake resume for %s does not continue at the cut" % got, call.line,
                         "the resumed transfer is not (want - got) bytes at &buf[got]: part of the handshake header is "
                         "repeated or skipped after a partial transfer")
            elif not dir_ok:
                ctx.fail(r, fn, "handshake resume for %s in the wrong direction" % got, call.line,
                         "%s resumes with %s" % (got, call.node["fn"]))
            else:
                r.ob(fn, "partial handshake (%s) resumes with want-got bytes at &buf[got]" % got)
    # validation (reads of the rx header compared with constants, peer id decode, list moves) only when both complete
    sinks = list(fn.calls("nni_list_append"))
    for b in fn.blocks.values():
        c = fn.cond(b.id) if b.term and len(b.succs) == 2 else None
        if c is not None and c.get("k") == "bin" and c["lhs"].get("k") == "idx" and const_of(c["rhs"]) is not None:
            class _S:  # minimal site-like
                pass
            s = _S()
            s.b, s.i, s.line, s.node = b.id, len(b.elems), fn.line_of(b.id, max(0, len(b.elems) - 1)), {"fn": "header validation"}
            sinks.append(s)
    if len(done_cut) < 2 or not sinks:
        return
    for s in sinks:
        if not G.dominated(fn, (s.b, s.i), done_cut):
            ctx.fail(r, fn, "handshake validated before it is complete", s.line,
                     "%s at line %s is reachable while the header exchange is still partial" % (s.node["fn"], s.line))
        else:
            r.ob(fn, "%s line %s only after both headers are complete" % (s.node["fn"], s.line))


def rule_r1(ctx):
    r = ctx.rule("C01.R1", "T2", "resume until drained: stream-transport completion callbacks advance the inner aio's iov by "
                 "its own count, resubmit it while nni_aio_iov_count() != 0 and only over the drained edge complete the user's "
                 "operation, allocate/deliver the message or decode the prefix; handshake callbacks resume at &buf[got] for "
                 "want-got bytes", floor=75)
    prog = ctx.prog
    for name, file, pfx in TRANSPORTS:
        for suffix, send in (("_send_cb", True), ("_recv_cb", False)):
            fn = prog.need(pfx + suffix, file)
            check_resume(ctx, r, fn, send)
        check_nego(ctx, r, prog.need(pfx + "_nego_cb", file))


# ---------------------------------------------------------------------------
# R2: framing agreement


def rule_r2(ctx):
    r = ctx.rule("C01.R2", "T11", "framing agreement: tx and rx prefix buffers have the same size and are transferred whole; "
                 "the 64-bit length is written and read big-endian at the same offset; the written value is body+header "
                 "length of the message at the head of the send queue; the value read is the allocation size and the body "
                 "read length", floor=31)
    prog = ctx.prog
    for name, file, pfx in TRANSPORTS:
        ss = prog.need(pfx + "_send_start", file)
        rs = prog.need(pfx + "_recv_start", file)
        rc = prog.need(pfx + "_recv_cb", file)
        # --- writer
        txf, val, puts = put_terms(ss, "NNI_PUT64")
        if not puts:
            ctx.fail(r, ss, "no NNI_PUT64 of the length", ss.line, "the length prefix is not written with NNI_PUT64 any more")
            continue
        tx_off = puts[0][0]
        if [(o - tx_off, s) for o, s, _ in puts] != [(k, 56 - 8 * k) for k in range(8)]:
            ctx.fail(r, ss, "length prefix not 8 octets big-endian", ss.line_of(*puts[0][2]),
                     "the stores that write the prefix are %s" % [(o, s) for o, s, _ in puts])
        else:
            r.ob(ss, "prefix written big-endian into %s[%d..%d]" % (txf, tx_off, tx_off + 7))
        # value = nni_msg_len(msg) + nni_msg_header_len(msg)
        ok_val = False
        if val is not None:
            e = resolve(ss, val, puts[0][2])
            if e is not None and e.get("k") == "bin" and e["op"] == "+":
                a, b = e["lhs"], e["rhs"]
                fns = {a.get("fn"), b.get("fn")}
                if fns == {"nni_msg_len", "nni_msg_header_len"} and same_expr(a["args"][0], b["args"][0]):
                    ok_val = True
                    msgvar = a["args"][0]
        if not ok_val:
            ctx.fail(r, ss, "prefix value is not body+header length", ss.line_of(*puts[0][2]),
                     "the value written into the length prefix is not nni_msg_len(msg) + nni_msg_header_len(msg): the "
                     "receiver allocates and reads a different number of bytes than are sent")
        else:
            r.ob(ss, "prefix value = nni_msg_len(msg) + nni_msg_header_len(msg)")
            # msg is the message of the head of the send queue
            good = False
            mv = resolve(ss, msgvar, puts[0][2])
            if is_call(mv, "nni_aio_get_msg"):
                a = ss.expand(mv["args"][0])
                if is_call(a, "nni_list_first"):
                    good = True
                elif a.get("k") == "var":
                    rd2 = reaching_defs(ss, a["n"], puts[0][2])
                    good = bool(rd2) and all(is_call(x, "nni_list_first") for _, x in rd2)
            if good:
                r.ob(ss, "message measured is the one at the head of the send queue")
            else:
                ctx.fail(r, ss, "measured message is not the head of the send queue", ss.line,
                         "the message whose length is written is not nni_aio_get_msg(nni_list_first(&sendq))")
        tx_size = field_size(prog, txf)
        # iov[0] = whole tx prefix
        iov0 = None
        for s in ss.assigns():
            n = s.node
            if n["lhs"].get("k") == "mem" and n["lhs"]["f"] == "iov_len" and n["lhs"]["b"].get("k") == "idx" and \
                    const_of(n["lhs"]["b"]["i"]) == 0:
                iov0 = (s, const_of(ss.expand(n["rhs"])))
        buf0 = None
        for s in ss.assigns():
            n = s.node
            if n["lhs"].get("k") == "mem" and n["lhs"]["f"] == "iov_buf" and n["lhs"]["b"].get("k") == "idx" and \
                    const_of(n["lhs"]["b"]["i"]) == 0:
                buf0 = last_field(ss.expand(n["rhs"]))
        if iov0 is None or buf0 is None:
            raise AnalysisBroken("%s: iov[0] stores vanished" % ss.name)
        if buf0 != txf or iov0[1] != tx_size or tx_size != tx_off + 8:
            ctx.fail(r, ss, "iov[0] is not the whole prefix buffer", iov0[0].line,
                     "iov[0] = (%s, %s) but the prefix is %s (%s bytes, length at offset %s)" % (buf0, iov0[1], txf, tx_size, tx_off))
        else:
            r.ob(ss, "iov[0] covers the %d-byte prefix %s" % (tx_size, txf))
        # --- reader
        gets = [s for s in rc.assigns() if "NNI_GET64" in (s.node.get("m") or [])]
        if len(gets) != 1:
            ctx.fail(r, rc, "no NNI_GET64 of the length", rc.line, "the length prefix is not decoded with NNI_GET64 any more")
            continue
        g = gets[0]
        rxf, terms = be_terms(rc, g.node["rhs"])
        if not terms:
            raise AnalysisBroken("%s: cannot decompose the NNI_GET64 expression" % rc.name)
        rx_off = terms[-1][0] - 7 if terms else None
        if sorted((o - rx_off, s) for o, s in terms) != sorted((k, 56 - 8 * k) for k in range(8)):
            ctx.fail(r, rc, "length prefix not read as 8 octets big-endian", g.line, "terms: %s" % terms)
        elif rx_off != tx_off:
            ctx.fail(r, rc, "length read at a different offset than it is written", g.line,
                     "%s writes the length at offset %d of the prefix, %s reads it at offset %d" % (ss.name, tx_off, rc.name, rx_off))
        else:
            r.ob(rc, "prefix read big-endian from %s[%d..%d], same offset as the writer" % (rxf, rx_off, rx_off + 7))
        rx_size = field_size(prog, rxf)
        if rx_size != tx_size:
            ctx.fail(r, rc, "tx and rx prefix buffers differ in size", g.line,
                     "%s is %s bytes, %s is %s bytes" % (txf, tx_size, rxf, rx_size), file=rc.file)
        else:
            r.ob(rc, "%s and %s are both %d bytes" % (txf, rxf, tx_size))
        # recv_start reads the whole rx prefix
        ln = bf = None
        for s in rs.assigns():
            n = s.node
            if n["lhs"].get("k") == "mem" and n["lhs"]["f"] == "iov_len":
                ln = (s, const_of(rs.expand(n["rhs"])))
            if n["lhs"].get("k") == "mem" and n["lhs"]["f"] == "iov_buf":
                bf = last_field(rs.expand(n["rhs"]))
        if ln is None or bf is None:
            raise AnalysisBroken("%s: iov stores vanished" % rs.name)
        if bf != rxf or ln[1] != rx_size:
            ctx.fail(r, rs, "prefix read is not the whole prefix buffer", ln[0].line,
                     "%s reads %s bytes into %s; the prefix is %s (%s bytes)" % (rs.name, ln[1], bf, rxf, rx_size))
        else:
            r.ob(rs, "prefix read covers %s (%d bytes)" % (rxf, rx_size))
        setiov = [s for s in rs.calls("nni_aio_set_iov")]
        if not setiov or const_of(rs.expand(setiov[0].node["args"][1])) != 1:
            ctx.fail(r, rs, "prefix read iov count", rs.line, "nni_aio_set_iov in %s does not install exactly one vector" % rs.name)
        # type octet (ipc): written constant == compared constant
        if tx_off > 0:
            wrote = [const_of(ss.expand(s.node["rhs"])) for s in ss.assigns()
                     if s.node["lhs"].get("k") == "idx" and last_field(s.node["lhs"]) == txf and const_of(s.node["lhs"]["i"]) == 0
                     and "NNI_PUT64" not in (s.node.get("m") or [])]
            tested = []
            for b in rc.blocks.values():
                c = rc.cond(b.id) if b.term and len(b.succs) == 2 else None
                if c is not None and c.get("k") == "bin" and c["op"] in ("!=", "==") and c["lhs"].get("k") == "idx" and \
                        last_field(c["lhs"]) == rxf and const_of(c["lhs"]["i"]) == 0:
                    tested.append((const_of(c["rhs"]), b.id, c["op"]))
            if len(wrote) != 1 or len(tested) != 1 or wrote[0] != tested[0][0]:
                ctx.fail(r, rc, "message type octet disagrees", rc.line,
                         "the sender writes %s into octet 0 of the prefix, the receiver accepts %s" % (wrote, [t[0] for t in tested]))
            else:
                # mismatch edge must not reach the allocation
                c, b, op = tested[0]
                bad_edge = 0 if op == "!=" else 1
                tgt = rc.blocks[b].succs[bad_edge]
                if G.reaches(rc, (tgt, 0), G.positions(rc.calls("nni_msg_alloc"))):
                    ctx.fail(r, rc, "unknown message type accepted", rc.line_of(b, 0),
                             "a prefix whose type octet is not %s still reaches nni_msg_alloc" % c)
                else:
                    r.ob(rc, "type octet: written %s, anything else rejected" % c)
        # len -> nni_msg_alloc(&p->rxmsg, len); iov_len = len; iov_buf = nni_msg_body(p->rxmsg)
        lenvar = g.node["lhs"]
        allocs = list(rc.calls("nni_msg_alloc"))
        if len(allocs) != 1:
            raise AnalysisBroken("%s: expected one nni_msg_alloc" % rc.name)
        al = allocs[0]
        a1 = strip_casts(rc.expand(al.node["args"][1]))
        dst = last_field(rc.expand(al.node["args"][0]))
        gpos = (g.b, g.i)

        def redefined_between(pos):
            ds = reaching_defs(rc, lenvar["n"], pos)
            return not (len(ds) == 1 and ds[0][0] == gpos)
        if not same_expr(a1, lenvar) or redefined_between((al.b, al.i)):
            ctx.fail(r, rc, "allocation size is not the decoded prefix", al.line,
                     "nni_msg_alloc is called with %s, not with the length decoded from the prefix" % show(a1))
        else:
            r.ob(rc, "message allocated with the decoded length")
        body_ok = len_ok = False
        for s in rc.assigns():
            n = s.node
            if n["lhs"].get("k") != "mem" or not rc.dominated_by((s.b, s.i), blocked=lambda bb, i, e: (bb, i) == (al.b, al.i)):
                continue
            rhs = strip_casts(rc.expand(n["rhs"]))
            if n["lhs"]["f"] == "iov_len":
                len_ok = same_expr(rhs, lenvar) and not redefined_between((s.b, s.i))
                if not len_ok:
                    ctx.fail(r, rc, "body read length is not the decoded prefix", s.line,
                             "the body read is sized %s instead of the decoded length" % show(rhs))
            if n["lhs"]["f"] == "iov_buf":
                body_ok = is_call(rhs, "nni_msg_body") and last_field(rc.expand(rhs["args"][0])) == dst
                if not body_ok:
                    ctx.fail(r, rc, "body read does not target the new message's body", s.line,
                             "iov_buf = %s; expected nni_msg_body(%s)" % (show(rhs), dst))
        if body_ok and len_ok:
            r.ob(rc, "body read = decoded length into nni_msg_body(%s)" % dst)
        elif not (body_ok or len_ok):
            raise AnalysisBroken("%s: body iov stores not found" % rc.name)
        # delivered message is that very object
        for s in rc.calls("nni_aio_set_msg"):
            a = rc.expand(s.node["args"][1])
            good = False
            if a.get("k") == "var":
                rd = reaching_defs(rc, a["n"], (s.b, s.i))
                good = bool(rd) and all(last_field(x) == dst for _, x in rd)
            if good:
                r.ob(rc, "delivered message is %s" % dst)
            else:
                ctx.fail(r, rc, "delivered message is not the one that was filled", s.line,
                         "nni_aio_set_msg(aio, %s) does not hand over %s" % (show(a), dst))


# ---------------------------------------------------------------------------
# R3: header in front of body


def iov_order(ctx, r, fn, first_index_is_prefix):
    """stores iov[..].iov_buf = nni_msg_header(m) / nni_msg_body(m): pairing with their lengths, order, and that the
    only way round each is the zero edge of its length test"""
    hdr = body = None
    for s in fn.assigns():
        n = s.node
        if n["lhs"].get("k") != "mem" or n["lhs"]["f"] != "iov_buf":
            continue
        rhs = fn.expand(n["rhs"])
        if is_call(rhs, "nni_msg_header"):
            hdr = (s, rhs)
        elif is_call(rhs, "nni_msg_body"):
            body = (s, rhs)
    if hdr is None or body is None:
        ctx.fail(r, fn, "header or body vector missing", fn.line,
                 "%s no longer puts both nni_msg_header() and nni_msg_body() into the iov" % fn.name)
        return
    for (s, rhs), lenfn in ((hdr, ("nni_msg_header_len", "nng_msg_header_len")), (body, ("nni_msg_len", "nng_msg_len"))):
        mate = None
        for t in fn.assigns():
            n = t.node
            if t.b == s.b and n["lhs"].get("k") == "mem" and n["lhs"]["f"] == "iov_len" and \
                    same_expr(n["lhs"]["b"], s.node["lhs"]["b"]):
                mate = resolve(fn, n["rhs"], (t.b, t.i))
        if mate is None or mate.get("fn") not in lenfn or not same_expr(mate["args"][0], rhs["args"][0]):
            ctx.fail(r, fn, "%s paired with the wrong length" % rhs["fn"], s.line,
                     "the vector for %s has length %s" % (show(rhs), show(mate)))
        else:
            r.ob(fn, "%s paired with %s" % (rhs["fn"], mate["fn"]))
    hs, bs = hdr[0], body[0]
    if G.reaches(fn, (bs.b, bs.i), [(hs.b, hs.i)]):
        ctx.fail(r, fn, "body vector before header vector", bs.line,
                 "the header vector can be stored after the body vector: protocol header bytes arrive behind the payload")
    else:
        r.ob(fn, "header vector is stored before the body vector")
    # index of header vector < index of body vector: both use the running counter; counter incremented after header
    idx_h = fn.expand(hs.node["lhs"]["b"]["i"]) if hs.node["lhs"]["b"].get("k") == "idx" else None
    idx_b = fn.expand(bs.node["lhs"]["b"]["i"]) if bs.node["lhs"]["b"].get("k") == "idx" else None
    if idx_h is not None and idx_b is not None:
        ch, cb = const_of(idx_h), const_of(idx_b)
        if ch is not None and cb is not None:
            if not ch < cb:
                ctx.fail(r, fn, "header vector index not below body vector index", hs.line, "iov[%s] header, iov[%s] body" % (ch, cb))
        elif idx_h.get("k") == "var" and idx_b.get("k") == "var" and idx_h["n"] == idx_b["n"]:
            v = idx_h["n"]
            incs = set()
            for s in fn.sites():
                n = s.node
                if n.get("k") == "un" and n.get("op") == "++" and n["e"].get("k") == "var" and n["e"]["n"] == v:
                    incs.add((s.b, s.i))
            if G.reaches(fn, (hs.b, hs.i + 1), [(bs.b, bs.i)], blocked=incs):
                ctx.fail(r, fn, "vector counter not advanced after the header", hs.line,
                         "the body vector can overwrite the header vector (%s is not incremented in between)" % v)
            else:
                r.ob(fn, "%s++ between header and body vectors" % v)
            if first_index_is_prefix:
                # counter is past the prefix when the header is stored: every way to the header store passes `v++`, or an
                # assignment v = K with K >= 1 that no later v = 0 undoes
                past = set(incs)
                zero = set()
                for s in fn.assigns():
                    if s.node["lhs"].get("k") == "var" and s.node["lhs"]["n"] == v and s.node.get("op") == "=":
                        kv = const_of(fn.expand(s.node["rhs"]))
                        if kv is not None and kv >= 1:
                            past.add((s.b, s.i))
                        else:
                            zero.add((s.b, s.i))
                after_zero = any(G.reaches(fn, (z[0], z[1] + 1), [(hs.b, hs.i)], blocked=past) for z in zero)
                if after_zero or not fn.dominated_by((hs.b, hs.i), blocked=lambda b, i, e: (b, i) in past):
                    ctx.fail(r, fn, "header vector may overwrite the prefix vector", hs.line,
                             "%s is not incremented between the prefix vector and the header vector" % v)
                else:
                    r.ob(fn, "%s++ between prefix and header vectors" % v)
        else:
            ctx.fail(r, fn, "vector indices not comparable", hs.line, "header index %s, body index %s" % (show(idx_h), show(idx_b)))
    # the only way round a vector is the zero edge of its own length test
    sets = G.positions(fn.calls("nni_aio_set_iov"))
    if not sets:
        raise AnalysisBroken("%s: nni_aio_set_iov vanished" % fn.name)
    for (s, rhs), lenfn in ((hdr, ("nni_msg_header_len", "nng_msg_header_len")), (body, ("nni_msg_len", "nng_msg_len"))):
        zero = {b: 1 - k for b, k in nz_edges(fn, lambda n: n.get("k") == "call" and n.get("fn") in lenfn).items()}
        start = (fn.entry, 0)
        bad = None
        seen = fn.reach(start, blocked=lambda b, i, e: (b, i) == (s.b, s.i),
                        edge_ok=lambda b, k: not (b in zero and k == zero[b]))
        for p in sets:
            if p in seen:
                bad = p
        if bad:
            ctx.fail(r, fn, "%s vector can be skipped for a non-empty part" % rhs["fn"], s.line,
                     "nni_aio_set_iov at line %s is reachable without the %s vector on a path that did not see its length "
                     "equal to zero" % (fn.line_of(*bad), rhs["fn"]))
        else:
            r.ob(fn, "%s vector present whenever its length is non-zero" % rhs["fn"])
    # the installed count is the running counter / covers all vectors
    return hdr, body


def rule_r3(ctx):
    r = ctx.rule("C01.R3", "T3", "header in front of body: send paths put prefix, nni_msg_header, nni_msg_body into the iov in "
                 "that order, each paired with its own length, and a part is left out only when its length is zero; "
                 "nni_msg_pull_up copies/insert the header in front of the body", floor=29)
    prog = ctx.prog
    for name, file, pfx in TRANSPORTS:
        iov_order(ctx, r, prog.need(pfx + "_send_start", file), True)
    iov_order(ctx, r, prog.need("ws_str_send", "websocket/websocket.c"), False)
    # nni_msg_pull_up
    pu = prog.need("nni_msg_pull_up", "core/message.c")
    cps = list(pu.calls("memcpy"))
    hcp = [s for s in cps if is_call(pu.expand(s.node["args"][1]), "nni_msg_header")]
    bcp = [s for s in cps if is_call(pu.expand(s.node["args"][1]), "nni_msg_body")]
    if len(hcp) != 1 or len(bcp) != 1:
        raise AnalysisBroken("nni_msg_pull_up: copy of header / body not found")
    h, b = hcp[0], bcp[0]
    if not pu.dominated_by((b.b, b.i), blocked=lambda bb, i, e: (bb, i) == (h.b, h.i)):
        ctx.fail(r, pu, "body copied before header", b.line, "the duplicate is not built header first")
    else:
        # dst advanced by header length between the copies
        adv = [s for s in pu.assigns() if s.node.get("op") == "+=" and same_expr(s.node["lhs"], pu.expand(h.node["args"][0]))]
        hl = pu.expand(h.node["args"][2])
        okadv = any(same_expr(pu.expand(s.node["rhs"]), hl) and pu.site_dominates((h.b, h.i), (s.b, s.i))
                    and pu.site_dominates((s.b, s.i), (b.b, b.i)) for s in adv)
        hl_ok = hl.get("k") == "var" and all(is_call(x, "nni_msg_header_len") for _, x in reaching_defs(pu, hl["n"], (h.b, h.i))) \
            or is_call(hl, "nni_msg_header_len")
        bl = pu.expand(b.node["args"][2])
        if okadv and hl_ok and is_call(bl, "nni_msg_len"):
            r.ob(pu, "duplicate: header copied first, destination advanced by the header length, then the body")
        else:
            ctx.fail(r, pu, "duplicate layout", h.line,
                     "the duplicate is not header (header_len bytes) followed by body (len bytes) at dst + header_len")
    ins = list(pu.calls("nni_msg_insert"))
    clr = list(pu.calls("nni_msg_header_clear"))
    if len(ins) != 1 or len(clr) != 1:
        ctx.fail(r, pu, "in-place merge", pu.line, "the in-place path no longer inserts the header and clears it")
    else:
        i0 = ins[0]
        a = [pu.expand(x) for x in i0.node["args"]]
        if is_call(a[1], "nni_msg_header") and is_call(a[2], "nni_msg_header_len") and \
                pu.dominated_by((clr[0].b, clr[0].i), blocked=lambda bb, i, e: (bb, i) == (i0.b, i0.i)):
            r.ob(pu, "in place: header inserted in front of the body, then cleared")
        else:
            ctx.fail(r, pu, "in-place merge", i0.line, "nni_msg_insert(m, header, header_len) must precede nni_msg_header_clear")


# ---------------------------------------------------------------------------
# R4: FIFO, one transfer in flight


def rule_r4(ctx):
    r = ctx.rule("C01.R4", "T10", "queue discipline: per-pipe send/receive queues are appended at the tail and served from the "
                 "head; a new transfer is started only when the submitted aio is the head (nothing in flight) or, in the "
                 "callback, after the finished head was removed over the drained edge", floor=29)
    prog = ctx.prog
    for name, file, pfx in TRANSPORTS:
        fns = [f for f in prog.functions if f.file.endswith(file)]
        # which list fields are the queues: arg of nni_list_append in <pfx>_send / _recv
        for op in ("send", "recv"):
            sub = prog.need("%s_%s" % (pfx, op), file)
            start_name = "%s_%s_start" % (pfx, op)
            apps = list(sub.calls("nni_list_append")) + list(sub.calls("nni_aio_list_append"))
            if len(apps) != 1:
                ctx.fail(r, sub, "queue append", sub.line, "%s does not append the aio to exactly one queue" % sub.name)
                continue
            q = last_field(sub.expand(apps[0].node["args"][0]))
            r.ob(sub, "aio appended at the tail of %s" % q)
            # start guarded by head == aio
            heads = G.cmp_edges(sub, lambda l: is_call(l, "nni_list_first") and last_field(sub.expand(l["args"][0])) == q,
                                {"==": 0, "!=": 1})
            for s in sub.calls(start_name):
                if not G.dominated(sub, (s.b, s.i), heads):
                    ctx.fail(r, sub, "transfer started while another may be in flight", s.line,
                             "%s is called without nni_list_first(&%s) == aio: the inner aio and the prefix buffer of the "
                             "transfer in progress are overwritten" % (start_name, q))
                elif not sub.dominated_by((s.b, s.i), blocked=lambda b, i, e: (b, i) == (apps[0].b, apps[0].i)):
                    ctx.fail(r, sub, "transfer started before the aio is queued", s.line, "%s before the append" % start_name)
                else:
                    r.ob(sub, "%s only when the new aio is the head of %s" % (start_name, q))
            if not list(sub.calls(start_name)):
                ctx.fail(r, sub, "submission never starts a transfer", sub.line, "%s no longer calls %s" % (sub.name, start_name))
            # nobody inserts elsewhere
            for f in fns:
                for nm in ("nni_list_prepend", "nni_list_insert_before", "nni_list_insert_after"):
                    for s in f.calls(nm):
                        if last_field(f.expand(s.node["args"][0])) == q:
                            ctx.fail(r, f, "%s on %s" % (nm, q), s.line,
                                     "the queue %s is not tail-append only: messages can overtake each other" % q)
                for nm in ("nni_list_append", "nni_aio_list_append"):
                    for s in f.calls(nm):
                        if last_field(f.expand(s.node["args"][0])) == q and f.name != sub.name:
                            ctx.fail(r, f, "second writer of %s" % q, s.line, "%s is appended outside %s" % (q, sub.name))
                # consumers take the head
                for s in f.calls("nni_list_last"):
                    if last_field(f.expand(s.node["args"][0])) == q:
                        ctx.fail(r, f, "nni_list_last on %s" % q, s.line, "the queue %s is served from the tail" % q)
            # callback / start: the aio they work on is the head of q
            cb = prog.need("%s_%s_cb" % (pfx, op), file)
            st = prog.need(start_name, file)
            for f in (cb, st):
                uses = []
                for nm in ("nni_aio_get_msg", "nni_aio_set_msg", "nni_aio_finish_sync", "nni_aio_list_remove"):
                    uses += [s for s in f.calls(nm)]
                okc = 0
                for s in uses:
                    a = f.expand(s.node["args"][0])
                    if a.get("k") != "var":
                        continue
                    rd = reaching_defs(f, a["n"], (s.b, s.i))
                    if rd and all(is_call(x, "nni_list_first") and last_field(f.expand(x["args"][0])) == q for _, x in rd):
                        okc += 1
                    else:
                        ctx.fail(r, f, "works on an aio that is not the head of %s" % q, s.line,
                                 "%s(%s, ...) in %s: %s does not come from nni_list_first(&%s)" % (s.node["fn"], a["n"], f.name, a["n"], q))
                if okc:
                    r.ob(f, "%d uses of the user aio all take the head of %s" % (okc, q))
            # in the callback the next transfer starts only after the finished head left the queue
            rem = G.positions(cb.calls("nni_aio_list_remove"))
            for s in cb.calls(start_name):
                if not cb.dominated_by((s.b, s.i), blocked=lambda b, i, e: (b, i) in rem):
                    ctx.fail(r, cb, "next transfer started with the finished aio still queued", s.line,
                             "%s runs before nni_aio_list_remove(aio): the message just sent/received is transferred again" % start_name)
                else:
                    r.ob(cb, "%s after the finished head was removed" % start_name)
    # inproc
    run = prog.need("inproc_queue_run", "inproc/inproc.c")
    for nm, q in (("rd", "inproc_queue.readers"), ("wr", "inproc_queue.writers")):
        ds = var_defs(run, nm)
        if ds and all(is_call(x, "nni_list_first") and last_field(run.expand(x["args"][0])) == q for _, x in ds):
            r.ob(run, "%s is the head of %s" % (nm, q))
        else:
            ctx.fail(r, run, "%s is not the head of %s" % (nm, q), run.line, "inproc pairs readers and writers out of order")
    for f in prog.functions:
        if not f.file.endswith("inproc/inproc.c"):
            continue
        for nm in ("nni_list_prepend", "nni_list_insert_before", "nni_list_insert_after", "nni_list_last"):
            for s in f.calls(nm):
                if last_field(f.expand(s.node["args"][0])) in ("inproc_queue.readers", "inproc_queue.writers"):
                    ctx.fail(r, f, "%s on an inproc queue" % nm, s.line, "inproc queues are no longer FIFO")


# ---------------------------------------------------------------------------
# R5: iov ownership


def rule_r5(ctx):
    r = ctx.rule("C01.R5", "T10", "iov ownership: nng_aio.a_iov / a_nio are touched only inside core/aio.c, and written only by "
                 "nni_aio_set_iov, nni_aio_iov_advance and the initialisers", floor=9)
    prog = ctx.prog
    WRITERS = {"nni_aio_set_iov", "nni_aio_iov_advance", "nni_aio_init", "nni_aio_reset", "nng_aio_set_iov"}
    inside = 0
    for f in prog.functions:
        if f.cfg_failed:
            continue
        for s in f.sites():
            for n in walk(s.node):
                if n.get("k") == "mem" and n.get("rec") == "nng_aio" and n["f"] in ("a_iov", "a_nio"):
                    if not f.file.endswith("core/aio.c"):
                        ctx.fail(r, f, "nng_aio.%s accessed outside core/aio.c" % n["f"], s.line,
                                 "%s reaches into the aio's scatter/gather state directly" % f.name)
                    else:
                        inside += 1
            n = s.node
            if n.get("k") == "asg" or (n.get("k") == "un" and n.get("op") in ("++", "--")):
                tgt = n["lhs"] if n.get("k") == "asg" else n["e"]
                lf = None
                for m in walk(tgt):
                    if m.get("k") == "mem" and m.get("rec") == "nng_aio" and m["f"] in ("a_iov", "a_nio"):
                        lf = m["f"]
                if lf and f.name not in WRITERS:
                    ctx.fail(r, f, "nng_aio.%s written by %s" % (lf, f.name), s.line,
                             "only nni_aio_set_iov / nni_aio_iov_advance may change the vector of a transfer in progress")
                elif lf:
                    r.ob(f, "writer of %s" % lf)
    if inside < 10:
        raise AnalysisBroken("only %d accesses to nng_aio.a_iov/a_nio seen inside core/aio.c" % inside)
    r.ob(None, "%d accesses, all inside core/aio.c" % inside)


# ---------------------------------------------------------------------------
# R6: inproc hand-off: exclusive, merged copy


def rule_r6(ctx):
    r = ctx.rule("C01.R6", "T2", "inproc hand-off: the message given to the reader is the result of nni_msg_pull_up; "
                 "nni_msg_pull_up returns the caller's object only over an edge that established m_refcnt == 1, and then only "
                 "after the header was merged (or is empty)", floor=5)
    prog = ctx.prog
    run = prog.need("inproc_queue_run", "inproc/inproc.c")
    sets = [s for s in run.calls("nni_aio_set_msg") if not (const_of(run.expand(s.node["args"][1])) == 0)]
    if not sets:
        raise AnalysisBroken("inproc_queue_run: delivery site vanished")

    def from_pull_up(f, e, pos, depth=0):
        e = f.expand(e)
        if is_call(e, "nni_msg_pull_up"):
            return True
        if e.get("k") == "var" and depth < 3:
            rd = reaching_defs(f, e["n"], pos)
            return bool(rd) and all(from_pull_up(f, x, p, depth + 1) for p, x in rd)
        return False
    for s in sets:
        if from_pull_up(run, s.node["args"][1], (s.b, s.i)):
            r.ob(run, "reader receives the result of nni_msg_pull_up")
        else:
            ctx.fail(r, run, "reader receives a message that did not pass nni_msg_pull_up", s.line,
                     "nni_aio_set_msg(rd, %s): a message shared with other pipes, or with its header still detached, is "
                     "handed to the receiving protocol" % show(run.expand(s.node["args"][1])))
    # NULL result (allocation failure) is not delivered
    for s in run.calls("nni_msg_pull_up"):
        ve = run.value_edges(s)
        if not ve:
            ctx.fail(r, run, "nni_msg_pull_up result unchecked", s.line, "a failed duplicate would be delivered as NULL")
            continue
        for b, (nz, z) in ve.items():
            tgt = run.blocks[b].succs[z]
            if G.reaches(run, (tgt, 0), G.positions(sets), blocked={(s.b, s.i)}):
                ctx.fail(r, run, "NULL from nni_msg_pull_up delivered", s.line, "the failure edge reaches the delivery")
            else:
                r.ob(run, "failed pull-up is dropped, not delivered")
    pu = prog.need("nni_msg_pull_up", "core/message.c")
    param = pu.params[0] if getattr(pu, "params", None) else "m"
    if isinstance(param, dict):
        param = param["n"]
    excl = {}
    for b in pu.blocks.values():
        c = pu.cond(b.id) if b.term and len(b.succs) == 2 else None
        if c is None:
            continue
        neg = 0
        while c.get("k") == "un" and c.get("op") == "!":
            c, neg = c["e"], neg ^ 1
        if is_call(c, "nni_msg_shared"):
            excl[b.id] = 1 ^ neg
        elif c.get("k") == "bin" and last_field(pu.expand(c["lhs"]).get("args", [None])[0] if is_call(pu.expand(c["lhs"]), "nni_atomic_get") else None) == "nng_msg.m_refcnt":
            k = const_of(c["rhs"])
            if c["op"] == "!=" and k == 1:
                excl[b.id] = 1 ^ neg
            elif c["op"] == "==" and k == 1:
                excl[b.id] = 0 ^ neg
            elif c["op"] == ">" and k == 1:
                excl[b.id] = 1 ^ neg
    if not excl:
        ctx.fail(r, pu, "no exclusivity test", pu.line, "nni_msg_pull_up no longer tests m_refcnt")
        return
    # edges that do NOT establish exclusivity are cut; a `return m` reachable then is a violation
    not_excl = {b: 1 - k for b, k in excl.items()}
    rets = []
    for s in pu.sites():
        n = s.node
        if n.get("k") == "ret" and n.get("e") is not None:
            e = pu.expand(n["e"])
            while e.get("k") in ("cast", "paren"):
                e = e["e"]
            rets.append((s, e))
    if not rets:
        raise AnalysisBroken("nni_msg_pull_up: no return sites")
    merged = G.positions(pu.calls("nni_msg_insert"))
    empty = {b: 1 - k for b, k in nz_edges(pu, lambda n: is_call(n, "nni_msg_header_len")).items()}
    n_self = 0
    for s, e in rets:
        if e.get("k") == "var" and e["n"] == param and not var_defs(pu, param):
            n_self += 1
            # every path to this return must cross an exclusivity edge
            seen = pu.reach((pu.entry, 0), edge_ok=lambda b, k: not (b in excl and k == excl[b]))
            if (s.b, s.i) in seen:
                ctx.fail(r, pu, "returns the caller's object without establishing exclusivity", s.line,
                         "`return m` at line %s is reachable without passing the edge on which m_refcnt == 1: a message that "
                         "other pipes still hold is handed to the receiver, who may modify it" % s.line,
                         G.path_lines(pu, (pu.entry, 0), (s.b, s.i), cut=excl))
            else:
                r.ob(pu, "return m line %s only with m_refcnt == 1" % s.line)
            seen = pu.reach((pu.entry, 0), blocked=lambda b, i, e2: (b, i) in merged,
                            edge_ok=lambda b, k: not (b in empty and k == empty[b]))
            if (s.b, s.i) in seen:
                ctx.fail(r, pu, "returns the caller's object with the header still detached", s.line,
                         "`return m` is reachable without nni_msg_insert of the header and without a header_len == 0 test")
            else:
                r.ob(pu, "return m line %s only after the header was merged" % s.line)
        elif const_of(e) == 0:
            continue
        else:
            # a fresh object: must come from nni_msg_alloc / nni_msg_dup out-parameter
            ok = False
            if e.get("k") == "var":
                for nm in ("nni_msg_alloc", "nni_msg_dup"):
                    for c in pu.calls(nm):
                        a = pu.expand(c.node["args"][0])
                        if a.get("k") == "un" and a["op"] == "&" and a["e"].get("k") == "var" and a["e"]["n"] == e["n"]:
                            ok = True
            if ok:
                r.ob(pu, "return %s line %s: freshly allocated duplicate" % (show(e), s.line))
            else:
                ctx.fail(r, pu, "returns an object of unknown provenance", s.line, "return %s" % show(e))
    if n_self == 0:
        r.ob(pu, "never returns the caller's object")


# ---------------------------------------------------------------------------
# R7: websocket fragmentation / reassembly


def rule_r7(ctx):
    r = ctx.rule("C01.R7", "T1", "websocket message mode: the user's send completes only after the final fragment, "
                 "non-final frames are re-prepared and re-queued with the iov advanced by the frame length, and reassembly "
                 "allocates the sum of the frame lengths and copies the frames head-first with the cursor advanced by each "
                 "frame's length", floor=12)
    prog = ctx.prog
    wcb = prog.need("ws_write_cb", "websocket/websocket.c")
    fin = nz_edges(wcb, lambda n: n.get("k") == "mem" and n["f"] == "final")
    if not fin:
        ctx.fail(r, wcb, "no frame->final test", wcb.line, "ws_write_cb no longer distinguishes final from non-final frames")
        return
    done = [s for s in wcb.calls("nni_aio_finish_sync")]
    if not done:
        raise AnalysisBroken("ws_write_cb: completion vanished")
    nonfinal = {b: 1 - k for b, k in fin.items()}
    # the user aio variable is nulled on the non-final edge and the completion is guarded by aio != NULL
    for s in done:
        a = wcb.expand(s.node["args"][0])
        if a.get("k") != "var":
            raise AnalysisBroken("ws_write_cb: completion argument is not a local")
        nonnull = nz_edges(wcb, lambda n: n.get("k") == "var" and n["n"] == a["n"])
        guarded = bool(nonnull) and G.dominated(wcb, (s.b, s.i), nonnull)
        nulls = [p for p, x in var_defs(wcb, a["n"]) if const_of(x) == 0]
        bad = None
        # no path that takes a non-final edge (inside the `aio != NULL` region, where aio may be live) reaches the
        # completion without passing `aio = NULL`
        for b, k in nonfinal.items():
            tgt = wcb.blocks[b].succs[k]
            if tgt is None:
                continue
            # is aio possibly non-NULL here?  yes if this test is dominated by the aio != NULL edge
            in_guard = G.dominated(wcb, (b, 0), nonnull)
            if not in_guard:
                continue
            seen = wcb.reach((tgt, 0), blocked=lambda bb, i, e: (bb, i) in nulls)
            if (s.b, s.i) in seen:
                bad = (b, tgt)
        if bad:
            ctx.fail(r, wcb, "send completed on a non-final fragment", s.line,
                     "the non-final edge of the frame->final test at line %s reaches nni_aio_finish_sync without `%s = NULL`: "
                     "the sender is told the message was sent after its first fragment" % (wcb.line_of(bad[0], 0), a["n"]))
        elif not guarded:
            ctx.fail(r, wcb, "completion not guarded", s.line, "nni_aio_finish_sync is not guarded by %s != NULL" % a["n"])
        else:
            r.ob(wcb, "user aio completed only for the final fragment")
    # non-final: re-prepare and re-queue at the tail before the next write is started
    prep = G.positions(wcb.calls("ws_frame_prep_tx"))
    requeue = [s for s in wcb.calls("nni_list_append") if last_field(wcb.expand(s.node["args"][0])) == "nni_ws.txq"]
    fini = G.positions(wcb.calls("ws_frame_fini"))
    starts = G.positions(wcb.calls("ws_start_write"))
    n_requeue = 0
    for b, k in nonfinal.items():
        tgt = wcb.blocks[b].succs[k]
        if tgt is None:
            continue
        # the re-queue decision is the test that is NOT nested in `aio != NULL`... decide per test: does its final edge fini?
        fe = wcb.blocks[b].succs[1 - k]
        if not any(p[0] == fe for p in fini):
            continue
        n_requeue += 1
        if G.must_pass(wcb, (tgt, 0), prep, stop=starts) or G.must_pass(wcb, (tgt, 0), G.positions(requeue), stop=starts):
            ctx.fail(r, wcb, "non-final frame not continued", wcb.line_of(b, 0),
                     "after a non-final fragment the frame is not re-prepared (ws_frame_prep_tx) and re-queued on txq before "
                     "the next write starts: the rest of the message is never sent")
        elif G.reaches(wcb, (tgt, 0), fini, blocked=starts):
            ctx.fail(r, wcb, "non-final frame released", wcb.line_of(b, 0), "ws_frame_fini on the non-final edge")
        else:
            r.ob(wcb, "non-final frame re-prepared and re-queued")
    if not n_requeue:
        ctx.fail(r, wcb, "no continuation branch", wcb.line, "no frame->final test chooses between ws_frame_fini and re-queueing")
    # iov advance and count bump by the frame length, on the success path only
    adv = list(wcb.calls("nni_aio_iov_advance"))
    bump = list(wcb.calls("nni_aio_bump_count"))
    if len(adv) != 1 or len(bump) != 1:
        ctx.fail(r, wcb, "fragment accounting", wcb.line, "expected one nni_aio_iov_advance and one nni_aio_bump_count")
    else:
        a1, b1 = wcb.expand(adv[0].node["args"][1]), wcb.expand(bump[0].node["args"][1])
        if same_expr(a1, b1) and a1.get("k") == "mem" and a1["f"] == "len" and \
                same_expr(wcb.expand(adv[0].node["args"][0]), wcb.expand(bump[0].node["args"][0])):
            r.ob(wcb, "iov advanced and count bumped by frame->len")
        else:
            ctx.fail(r, wcb, "fragment accounting", adv[0].line,
                     "iov advanced by %s, count bumped by %s" % (show(a1), show(b1)))
        res = [s for s in wcb.calls("nni_aio_result")]
        for s in res:
            for b, (nz, z) in wcb.value_edges(s).items():
                tgt = wcb.blocks[b].succs[nz]
                if G.reaches(wcb, (tgt, 0), G.positions(adv + done)):
                    ctx.fail(r, wcb, "failed write accounted as sent", s.line, "the error edge reaches the success accounting")
                else:
                    r.ob(wcb, "failed write neither advances nor completes")
    # continuation opcode: first frame iff nothing was sent yet
    prep_fn = prog.need("ws_frame_prep_tx", "websocket/websocket.c")
    first = G.cmp_edges(prep_fn, lambda l: is_call(l, "nni_aio_count"), {"==": 0, "!=": 1}, rhs_match=lambda x: const_of(x) == 0)
    conts = [s for s in prep_fn.assigns() if s.node["lhs"].get("k") == "mem" and s.node["lhs"]["f"] == "op"]
    if not first or len(conts) < 2:
        ctx.fail(r, prep_fn, "continuation opcode", prep_fn.line, "ws_frame_prep_tx no longer chooses the opcode by nni_aio_count(aio) == 0")
    else:
        for s in conts:
            v = const_of(prep_fn.expand(s.node["rhs"]))
            dom = G.dominated(prep_fn, (s.b, s.i), first)
            if v == 0 and dom:
                ctx.fail(r, prep_fn, "WS_CONT on the first fragment", s.line, "the first frame of a message is sent as a continuation")
            elif v != 0 and not dom:
                ctx.fail(r, prep_fn, "data opcode on a later fragment", s.line,
                         "a fragment after the first is sent with opcode %s instead of WS_CONT: the peer sees a new message" % v)
            else:
                r.ob(prep_fn, "opcode %s %s" % (v, "only on the first fragment" if v else "only on later fragments"))
    # reassembly
    fm = prog.need("ws_read_finish_msg", "websocket/websocket.c")
    allocs = list(fm.calls("nni_msg_alloc"))
    cps = list(fm.calls("memcpy"))
    if len(allocs) != 1 or len(cps) != 1:
        raise AnalysisBroken("ws_read_finish_msg: allocation / copy anchors vanished")
    lenv = fm.expand(allocs[0].node["args"][1])
    sums = [s for s in fm.assigns() if s.node.get("op") == "+=" and same_expr(s.node["lhs"], lenv)]
    cp = cps[0]
    cl = fm.expand(cp.node["args"][2])
    okk = (len(sums) == 1 and same_expr(fm.expand(sums[0].node["rhs"]), cl) and cl.get("k") == "mem" and cl["f"] == "len")
    zero = [p for p, x in var_defs(fm, lenv["n"]) if const_of(x) == 0] if lenv.get("k") == "var" else []
    if okk and zero and fm.dominated_by((allocs[0].b, allocs[0].i), blocked=lambda b, i, e: (b, i) in zero):
        r.ob(fm, "message allocated with the sum of frame->len over rxq")
    else:
        ctx.fail(r, fm, "reassembly size", allocs[0].line,
                 "the message is not allocated with the sum of the lengths that are copied (sum of %s, copy of %s)"
                 % ([show(fm.expand(s.node["rhs"])) for s in sums], show(cl)))
    dst = fm.expand(cp.node["args"][0])
    advs = [s for s in fm.assigns() if s.node.get("op") == "+=" and same_expr(s.node["lhs"], dst)]
    if len(advs) == 1 and same_expr(fm.expand(advs[0].node["rhs"]), cl) and advs[0].b == cp.b and advs[0].i > cp.i:
        r.ob(fm, "copy cursor advanced by the copied length")
    else:
        ctx.fail(r, fm, "reassembly cursor", cp.line, "after memcpy(body, frame->buf, frame->len) the cursor is not advanced by frame->len")
    src = fm.expand(cp.node["args"][1])
    fv = src["b"] if src.get("k") == "mem" else None
    okh = False
    if fv is not None and fv.get("k") == "var":
        rd = reaching_defs(fm, fv["n"], (cp.b, cp.i))
        okh = bool(rd) and all(is_call(x, "nni_list_first") and last_field(fm.expand(x["args"][0])) == "nni_ws.rxq" for _, x in rd)
    rm = [s for s in fm.calls("nni_list_remove") if s.b == cp.b]
    if okh and rm:
        r.ob(fm, "frames are consumed from the head of rxq")
    else:
        ctx.fail(r, fm, "reassembly order", cp.line, "the frame copied is not nni_list_first(&ws->rxq) removed in the same step")
    # delivery only when no fragment is outstanding
    inm = nz_edges(fm, lambda n: n.get("k") == "mem" and n["f"] == "inmsg")
    if inm and G.dominated(fm, (allocs[0].b, allocs[0].i), {b: 1 - k for b, k in inm.items()}):
        r.ob(fm, "no delivery while a fragmented message is incomplete (ws->inmsg)")
    else:
        ctx.fail(r, fm, "partial message delivered", fm.line, "the reassembly is reachable with ws->inmsg set")
    # rx frames are appended at the tail
    rf = prog.need("ws_read_frame_cb", "websocket/websocket.c")
    for f in prog.functions:
        if not f.file.endswith("supplemental/websocket/websocket.c"):
            continue
        for nm in ("nni_list_prepend", "nni_list_insert_before", "nni_list_insert_after"):
            for s in f.calls(nm):
                if last_field(f.expand(s.node["args"][0])) == "nni_ws.rxq":
                    ctx.fail(r, f, "%s on rxq" % nm, s.line, "received fragments are not kept in arrival order")
    apps = [s for s in rf.calls("nni_list_append") if last_field(rf.expand(s.node["args"][0])) == "nni_ws.rxq"]
    if len(apps) >= 2:
        r.ob(rf, "%d data-frame cases append to the tail of rxq" % len(apps))
    else:
        ctx.fail(r, rf, "data frames not queued", rf.line, "ws_read_frame_cb no longer appends data frames to rxq")


# ---------------------------------------------------------------------------
# R9: posix back ends account exactly what the system call transferred

BACKENDS = [
    ("platform/posix/posix_tcpconn.c", "tcp_dowrite", ("sendmsg", "send")), ("platform/posix/posix_tcpconn.c", "tcp_doread", ("readv",)),
    ("platform/posix/posix_ipcconn.c", "ipc_dowrite", ("sendmsg", "send")), ("platform/posix/posix_ipcconn.c", "ipc_doread", ("readv",)),
    ("platform/posix/posix_sockfd.c", "sfd_dowrite", ("writev",)), ("platform/posix/posix_sockfd.c", "sfd_doread", ("readv",)),
]


def rule_r9(ctx):
    r = ctx.rule("C01.R9", "T2", "posix back ends: the byte count given to nni_aio_bump_count is the value the system call "
                 "returned, on the edge where it is not negative (and not zero for reads); the successful completion follows "
                 "it and reports nni_aio_count; the gather list copies (buf, len) pairs of the same aio vector index in order",
                 floor=33)
    prog = ctx.prog
    for file, name, syscalls in BACKENDS:
        f = prog.need(name, file)
        read = name.endswith("doread")
        sc = []
        for nm in syscalls:
            sc += list(f.calls(nm))
        if len(sc) != 1:
            raise AnalysisBroken("%s: expected exactly one of %s" % (name, "/".join(syscalls)))
        sc = sc[0]
        bumps = list(f.calls("nni_aio_bump_count"))
        if len(bumps) != 1:
            ctx.fail(r, f, "byte accounting", f.line, "%s must call nni_aio_bump_count exactly once per transfer" % name)
            continue
        bp = bumps[0]
        nv = f.expand(bp.node["args"][1])
        while nv.get("k") == "cast":
            nv = nv["e"]
        ok = False
        if nv.get("k") == "var":
            rd = reaching_defs(f, nv["n"], (bp.b, bp.i))
            ok = bool(rd) and all(is_call(x, sc.node["fn"]) for _, x in rd)
        if not ok:
            ctx.fail(r, f, "accounted count is not the system call's result", bp.line,
                     "nni_aio_bump_count(aio, %s): not the value returned by %s" % (show(nv), sc.node["fn"]))
            continue
        r.ob(f, "count accounted = result of %s" % sc.node["fn"])
        neg = G.cmp_edges(f, lambda l: (l.get("k") == "var" and l["n"] == nv["n"]) or
                          (l.get("k") == "asg" and l["lhs"].get("k") == "var" and l["lhs"]["n"] == nv["n"]),
                          {"<": 1, ">=": 0}, rhs_match=lambda x: const_of(x) == 0)
        if not neg or not G.dominated(f, (bp.b, bp.i), neg):
            ctx.fail(r, f, "negative result accounted", bp.line, "nni_aio_bump_count is reachable with %s < 0" % nv["n"])
        else:
            r.ob(f, "error result never accounted")
        succ = [s for s in f.calls("nni_aio_finish") if const_of(f.expand(s.node["args"][1])) == 0]
        if read:
            eof = G.cmp_edges(f, lambda l: l.get("k") == "var" and l["n"] == nv["n"], {"==": 1, "!=": 0},
                              rhs_match=lambda x: const_of(x) == 0)
            if not eof or not all(G.dominated(f, (s.b, s.i), eof) for s in succ):
                ctx.fail(r, f, "end of stream completes a read successfully", bp.line,
                         "a zero-byte read (peer closed) can reach the successful completion: the transport would wait for "
                         "the rest of a frame forever or deliver a short one")
            else:
                r.ob(f, "zero-byte read is an error, not a completion")
        for s in succ:
            cnt = f.expand(s.node["args"][2])
            if not f.dominated_by((s.b, s.i), blocked=lambda b, i, e: (b, i) == (bp.b, bp.i)):
                ctx.fail(r, f, "completion without accounting", s.line, "nni_aio_finish(aio, 0, ..) is reachable without nni_aio_bump_count")
            elif not (is_call(cnt, "nni_aio_count") and same_expr(cnt["args"][0], f.expand(s.node["args"][0]))):
                ctx.fail(r, f, "completion reports a different count", s.line, "reports %s instead of nni_aio_count(aio)" % show(cnt))
            else:
                r.ob(f, "completion reports nni_aio_count after the bump")
        if not succ:
            raise AnalysisBroken("%s: successful completion vanished" % name)
        # gather list
        bufs = [s for s in f.assigns() if s.node["lhs"].get("k") == "mem" and s.node["lhs"]["f"] == "iov_base"]
        lens = [s for s in f.assigns() if s.node["lhs"].get("k") == "mem" and s.node["lhs"]["f"] == "iov_len"
                and s.node["lhs"].get("rec") == "iovec"]
        if len(bufs) != 1 or len(lens) != 1:
            raise AnalysisBroken("%s: gather list stores not found (%d/%d)" % (name, len(bufs), len(lens)))
        bb, ll = bufs[0], lens[0]
        rb, rl = f.expand(bb.node["rhs"]), f.expand(ll.node["rhs"])
        if bb.b == ll.b and rb.get("k") == "mem" and rb["f"] == "iov_buf" and rl.get("k") == "mem" and rl["f"] == "iov_len" and \
                same_expr(rb["b"], rl["b"]) and same_expr(bb.node["lhs"]["b"], ll.node["lhs"]["b"]):
            r.ob(f, "gather entry copies buf and len of the same source vector")
        else:
            ctx.fail(r, f, "gather entry mixes vectors", bb.line, "iov_base = %s, iov_len = %s" % (show(rb), show(rl)))
        # source index and destination index both increase
        si = f.expand(rb["b"]["i"]) if rb.get("k") == "mem" and rb["b"].get("k") == "idx" else None
        di = f.expand(bb.node["lhs"]["b"]["i"]) if bb.node["lhs"]["b"].get("k") == "idx" else None
        okinc = True
        for v in (si, di):
            if v is None or v.get("k") != "var":
                okinc = False
                continue
            incs = [s for s in f.sites() if s.node.get("k") == "un" and s.node.get("op") == "++" and s.node["e"].get("k") == "var"
                    and s.node["e"]["n"] == v["n"]]
            decs = [s for s in f.sites() if s.node.get("k") == "un" and s.node.get("op") == "--" and s.node["e"].get("k") == "var"
                    and s.node["e"]["n"] == v["n"]]
            if not incs or decs:
                okinc = False
            elif G.reaches(f, (bb.b, bb.i + 1), [(bb.b, bb.i)], blocked=G.positions(incs)):
                okinc = False
        if okinc:
            r.ob(f, "source and destination indices advance together, ascending")
        else:
            ctx.fail(r, f, "gather list order", bb.line, "the gather list is not filled in ascending vector order")


def run(ctx):
    ctx.guard(rule_r1)
    ctx.guard(rule_r2)
    ctx.guard(rule_r3)
    ctx.guard(rule_r4)
    ctx.guard(rule_r5)
    ctx.guard(rule_r6)
    ctx.guard(rule_r7)
    ctx.guard(c16.rule_r7)
    for rr in ctx.rules:
        if rr.id == "C16.R7":
            rr.id = "C01.R8"
    ctx.guard(rule_r9)
