"""C12 -- REQ keeps retrying; no hang when retry is disabled (structure of the retry machinery)."""
from ..core import walk, show, const_of, last_field, truth_of, apath, is_null, AnalysisBroken, same_expr
from .. import guards as G
from . import c04

EXPLANATION = ("C12 (narrow): req0_pipe_close drains the pipe's contexts and either fails / latches them (retry disabled) or "
               "re-queues them; req0_run_send_queue records the context on the pipe it sends on before the send; the retry "
               "timer callback re-arms itself or clears retry_active on every non-terminal path and req0_ctx_send arms an idle "
               "timer; the retry queue and the retained clone are used only when ctx->retry > 0. Liveness under faults and the "
               "timing of resends are not decided."
               " Also: a policy field that exists in both the socket and the context record is read from the socket only by initialisers and option functions (R4).")
EXPLANATION += ' Round 3: the retry timer is started only with a context on the retry queue (R6).'
EXPLANATION += " Round 6: the socket's own context is not a source of per-context policy (R4b); a scan that acts on every element visits every element -- the resend scan, the fan-outs (R9)."


def rule_r1(ctx):
    r = ctx.rule("C12.R1", "T2", "pipe loss re-queues: req0_pipe_close removes every context from p->contexts; a context with retry "
                 "disabled has its pending receive failed with NNG_ECONNRESET or the reset latched, every other context with a "
                 "request is put on the send queue and the queue is run", floor=3)
    f = ctx.prog.need("req0_pipe_close", "reqrep0/req.c")
    takes = [t for t in f.assigns() if "contexts" in show(f.expand(t.node["rhs"])) and "nni_list_first" in show(f.expand(t.node["rhs"]))]
    rem = [s for s in f.calls("nni_list_remove") if "contexts" in show(f.expand(s.node["args"][0]))]
    if not takes or not rem:
        ctx.fail(r, f, "contexts not drained", f.line, "req0_pipe_close no longer walks p->contexts")
        return
    # loop: the take's NULL edge is the only way past the loop
    r.ob(f, "loop over nni_list_first(&p->contexts) with removal")
    nore = G.cmp_edges(f, lambda n: n.get("k") == "mem" and n["f"] == "retry", {"<=": 0, ">": 1, "<": 0, ">=": 1})
    if not nore:
        ctx.fail(r, f, "retry test missing", f.line, "req0_pipe_close no longer distinguishes contexts with retry disabled")
        return
    fins = [s for s in f.calls("nni_aio_finish_error") if "NNG_ECONNRESET" in show(f.expand(s.node["args"][1]))]
    latch = G.stores(f, "conn_reset", "nonnull")
    resets = G.positions(f.calls("req0_ctx_reset"))
    for b, k in nore.items():
        tgt = f.blocks[b].succs[k]
        if tgt is None:
            continue
        if G.must_pass(f, (tgt, 0), G.positions(fins) | G.positions(latch), stop=[(t.b, t.i) for t in takes]) or \
                G.must_pass(f, (tgt, 0), resets, stop=[(t.b, t.i) for t in takes]):
            ctx.fail(r, f, "retry-disabled context left hanging", f.line_of(b, 0),
                     "with retry disabled a context on the lost pipe is neither failed with NNG_ECONNRESET / latched nor reset: "
                     "its receive waits forever")
        else:
            r.ob(f, "retry <= 0: receive failed with NNG_ECONNRESET or reset latched, context reset")
        other = f.blocks[b].succs[1 - k]
        app = G.positions([s for s in f.calls("nni_list_append") if "send_queue" in show(f.expand(s.node["args"][0]))])
        run = G.positions(f.calls("req0_run_send_queue"))
        if other is not None and app and run and G.reaches(f, (other, 0), app) and G.reaches(f, (other, 0), run):
            r.ob(f, "retry > 0: re-queued and the send queue is run")
        else:
            ctx.fail(r, f, "lost request not re-queued", f.line_of(b, 0), "a retriable request on the lost pipe is not put back on the send queue")


def rule_r2(ctx):
    r = ctx.rule("C12.R2", "T3", "req0_run_send_queue appends the context to p->contexts (so pipe loss finds it) and, when retry > 0, "
                 "to the retry queue, all before nni_pipe_send; the retry queue is used only under ctx->retry > 0", floor=3)
    prog = ctx.prog
    f = prog.need("req0_run_send_queue", "reqrep0/req.c")
    sends = G.need_sites([s for s in f.calls("nni_pipe_send")], "nni_pipe_send", f)
    book = [s for s in f.calls("nni_list_append") if "contexts" in show(f.expand(s.node["args"][0]))]
    for s in sends:
        if book and not G.reaches(f, (f.entry, 0), [(s.b, s.i)], blocked=G.positions(book)):
            r.ob(f, "context recorded on the pipe before the send")
        else:
            ctx.fail(r, f, "send without pipe bookkeeping", s.line, "a request is sent on a pipe without being recorded in p->contexts: "
                     "if that pipe is lost the request is never resent")
    on = G.cmp_edges(f, lambda n: n.get("k") == "mem" and n["f"] == "retry", {">": 0, "<=": 1})
    for g in (f, prog.need("req0_ctx_send", "reqrep0/req.c")):
        on_g = G.cmp_edges(g, lambda n: n.get("k") == "mem" and n["f"] == "retry", {">": 0, "<=": 1})
        # (whether the context keeps a reference of its own to the request is an ownership matter -- C03.O3 -- and not
        # what makes a request single-shot: only the retry queue and the re-queueing in req0_pipe_close resend)
        guarded = [s for s in g.calls("nni_list_append") if "retry_queue" in show(g.expand(s.node["args"][0]))]
        for s in guarded:
            if on_g and G.dominated(g, (s.b, s.i), on_g):
                r.ob(g, "%s line %s only when retry > 0" % (s.node["fn"], s.line))
            else:
                ctx.fail(r, g, "%s with retry disabled" % s.node["fn"], s.line,
                         "%s is reachable with ctx->retry <= 0: a single-shot request would be kept / resent" % s.node["fn"])


def rule_r3(ctx):
    r = ctx.rule("C12.R3", "T2", "the retry timer keeps running: every path through req0_retry_cb that is not terminal (socket "
                 "closed / timer aio failed) re-arms nni_sleep_aio on retry_aio or clears retry_active; req0_ctx_send arms the "
                 "timer when it finds it idle; expired requests with a message are appended to the send queue", floor=3)
    prog = ctx.prog
    f = prog.need("req0_retry_cb", "reqrep0/req.c")
    rearm = G.positions([s for s in f.calls(("nni_sleep_aio", "nng_sleep_aio")) if "retry_aio" in show(f.expand(s.node["args"][1]))])
    idle = G.positions(G.stores(f, "retry_active", "null"))
    term = {}
    term.update(G.cond_edges(f, lambda n: n.get("k") == "mem" and n["f"] == "closed", want_nonzero=True))
    term.update(G.cond_edges(f, c04.is_call("nni_aio_result"), want_nonzero=True))
    if not rearm:
        ctx.fail(r, f, "timer never re-armed", f.line, "req0_retry_cb no longer calls nni_sleep_aio(s->retry_tick, &s->retry_aio)")
    else:
        bad = G.must_pass(f, (f.entry, 0), rearm | idle, cut=term)
        if bad:
            ctx.fail(r, f, "timer stops while marked active", f.line,
                     "req0_retry_cb can return on a non-terminal path without re-arming the retry timer and without clearing "
                     "retry_active: req0_ctx_send then never restarts it and no later request is ever resent",
                     G.path_lines(f, (f.entry, 0), (f.exit, 0), term, rearm | idle))
        else:
            r.ob(f, "every non-terminal path re-arms or clears retry_active")
    app = [s for s in f.calls("nni_list_append") if "send_queue" in show(f.expand(s.node["args"][0]))]
    if app:
        r.ob(f, "expired requests appended to the send queue")
    else:
        ctx.fail(r, f, "expired requests not re-queued", f.line, "req0_retry_cb no longer appends expired contexts to send_queue")
    g = prog.need("req0_ctx_send", "reqrep0/req.c")
    idle_edge = G.cond_edges(g, lambda n: n.get("k") == "mem" and n["f"] == "retry_active", want_nonzero=False)
    arm = [s for s in g.calls(("nni_sleep_aio", "nng_sleep_aio")) if "retry_aio" in show(g.expand(s.node["args"][1]))]
    act = G.stores(g, "retry_active", "nonnull")
    ok = bool(idle_edge and arm and act)
    for b, k in idle_edge.items():
        tgt = g.blocks[b].succs[k]
        if tgt is None or G.must_pass(g, (tgt, 0), G.positions(arm)) or G.must_pass(g, (tgt, 0), G.positions(act)):
            ok = False
    if ok:
        r.ob(g, "idle timer armed (and marked active) when a request is queued for retry")
    else:
        ctx.fail(r, g, "idle retry timer not armed", g.line, "req0_ctx_send does not start the retry timer when retry_active is false")



def rule_r4(ctx):
    r = ctx.rule("C12.R4", "T10", "per-context policy is read from the context: where a protocol keeps a default in its socket record "
                 "and a copy of the same name in its context record (resend time, prefer-new, ...), the socket's copy is read only "
                 "by the context initialiser and the option functions; every decision about one exchange reads the context's "
                 "copy", floor=2)
    prog = ctx.prog
    setget = set()
    for g in prog.globals:
        if "option" in (g.get("type") or "") or "option" in (g.get("name") or ""):
            for n in walk_global(g):
                if n.get("k") == "fnref":
                    setget.add(n["n"])
    init = set()
    for slot in ("nni_proto_ctx_ops.ctx_init", "nni_proto_sock_ops.sock_init"):
        for f in prog.slot_fns(slot):
            init.add(f.name)
    n = 0
    recs = prog.records
    for sname, srec in recs.items():
        if not sname.endswith("_sock"):
            continue
        cname = sname[:-5] + "_ctx"
        if cname not in recs:
            continue
        cf = {f_["n"] for f_ in recs[cname].get("fields", [])}
        shared = {f_["n"] for f_ in srec.get("fields", []) if f_["n"] in cf and not f_.get("rec") and
                  (f_.get("t") or "") in ("nng_duration", "nni_duration", "bool", "_Bool", "int", "size_t")}
        for fld in sorted(shared):
            for f in prog.functions:
                if f.cfg_failed or "/protocol/" not in f.file:
                    continue
                for s_ in f.sites():
                    nd = s_.node
                    if nd.get("k") == "mem" and nd.get("rec") == sname and nd["f"] == fld:
                        # a store to the socket's copy is the option setter's business
                        if any(t.node["lhs"] is nd for t in f.assigns()):
                            continue
                        n += 1
                        if f.name in init or f.name in setget or f.name.endswith(("_sock_init", "_ctx_init")):
                            r.ob(f, "%s.%s read by an initialiser / option function" % (sname, fld))
                        else:
                            ctx.fail(r, f, "%s.%s read outside the initialiser and option functions" % (sname, fld), s_.line,
                                     "%s decides with the socket's default %s.%s although every context carries its own %s.%s: a "
                                     "context configured differently from the socket gets the wrong behaviour"
                                     % (f.name, sname, fld, cname, fld))
    # (b) the socket's own (master) context is just another context: its copy of a per-context option is the default a new
    #     context starts from, not a value to decide another context's exchange with
    nb = 0
    for sname, srec in recs.items():
        if not sname.endswith("_sock"):
            continue
        cname = sname[:-5] + "_ctx"
        if cname not in recs:
            continue
        pol = set()
        for f in prog.functions:
            if f.name in setget and not f.cfg_failed:
                for s_ in f.sites():
                    for m in walk(s_.node):
                        if m.get("k") == "mem" and m.get("rec") == cname and not (m.get("t") or "").endswith("*"):
                            pol.add(m["f"])
        for f in prog.functions:
            if f.cfg_failed or "/protocol/" not in f.file:
                continue
            seen_lines = set()
            for s_ in f.sites():
                for m in walk(s_.node):
                    if m.get("k") == "mem" and m.get("rec") == cname and m["f"] in pol and m["b"].get("k") == "mem" and \
                            m["b"].get("rec") == sname and (f.name, s_.line, m["f"]) not in seen_lines:
                        seen_lines.add((f.name, s_.line, m["f"]))
                        nb += 1
                        if f.name in init or f.name in setget or f.name.endswith(("_sock_init", "_ctx_init")):
                            r.ob(f, "%s read by an initialiser / option function" % show(m))
                        else:
                            ctx.fail(r, f, "%s.%s of the socket's own context read outside the initialiser and option functions" % (cname, m["f"]),
                                     s_.line, "%s decides with %s, the option value of the socket's own context, although the "
                                     "context it works for carries its own %s.%s: a context configured differently from the "
                                     "socket gets the wrong behaviour" % (f.name, show(m), cname, m["f"]))
    if n < 2 or nb < 2:
        raise AnalysisBroken("only %d / %d reads of socket-level defaults that contexts shadow" % (n, nb))


# ---------------------------------------------------------------------------
# R9: a scan that acts on every element visits every element


def list_scans(f):
    """(header block, loop variable, list field, body entry, after block, step positions) for every
    `for (v = nni_list_first(L); v != NULL; v = nni_list_next(L, v))` loop of f"""
    out = []
    for b in f.blocks.values():
        c = f.cond(b.id) if b.term and len(b.succs) == 2 else None
        if c is None or b.term.get("kind") not in ("ForStmt", "WhileStmt"):
            continue
        if not (c.get("k") == "bin" and c["op"] == "!=" and c["lhs"].get("k") == "var" and const_of(c["rhs"]) == 0):
            continue
        var = c["lhs"]["n"]
        steps, lf = set(), None
        for t in f.assigns():
            if t.node["lhs"].get("k") == "var" and t.node["lhs"]["n"] == var:
                for m in walk(f.expand(t.node["rhs"])):
                    if m.get("k") == "call" and m.get("fn") == "nni_list_next" and m["args"]:
                        steps.add((t.b, t.i))
                        lf = last_field(f.expand(m["args"][0]))
        if steps and lf and b.succs[0] is not None:
            out.append((b.id, var, lf, (b.succs[0], 0), b.succs[1], steps))
    return out


def rule_r9(ctx):
    r = ctx.rule("C12.R9", "T2", "a scan that acts on every element visits every element: in the protocols, a loop over a list "
                 "(NNI_LIST_FOREACH) whose loop variable is not used after the loop -- the resend scan of the REQ timer, the "
                 "fan-out of PUB / BUS / SURVEYOR to every pipe, the delivery of SUB to every context, the option setters that "
                 "resize every pipe's queue -- is left only when the list is exhausted: no path through its body reaches the "
                 "code after the loop without passing the step to the next element. The resend queue is in transmission "
                 "order, not in expiry order (the resend time is per context): stopping at the first request that is not yet due "
                 "leaves a due request behind it unsent", floor=6)
    prog = ctx.prog
    n = 0
    for f in prog.functions:
        if f.cfg_failed or "/sp/protocol/" not in "/" + f.file or f.file.endswith("_test.c"):
            continue
        for hb, var, lf, body, after, steps in list_scans(f):
            if after is None:
                continue
            # is the loop variable read after the loop (a search), before it is assigned again?
            def redefines(b, i, e, var=var):
                return e is not None and any(m.get("k") == "asg" and m["lhs"].get("k") == "var" and m["lhs"]["n"] == var
                                             for m in walk(f.expand(e))) and not any(
                    m.get("k") == "var" and m["n"] == var and m is not None for m in walk(f.expand(e).get("rhs") or {}))
            later = f.reach((after, 0), blocked=redefines)
            used = False
            for (b, i) in later:
                if b == hb or i >= len(f.blocks[b].elems):
                    continue
                e = f.blocks[b].elems[i]
                if e is not None and any(m.get("k") == "var" and m["n"] == var for m in walk(f.expand(e))):
                    used = True
                    break
            if used:
                continue      # a search: the element found is what the code after the loop works on
            n += 1
            # giving up because an operation on an element failed (rv = f(..) != 0: out of memory) is not "skipping"
            failed = {}
            for c in f.calls():
                if c.node.get("fn") and c.node["fn"] not in ("nni_list_first", "nni_list_next", "nni_list_empty", "nni_list_node_active"):
                    g = prog.resolve(f, c.node["fn"])
                    if g is not None and g.ret in ("int", "nng_err"):
                        for b, (nz, z) in f.value_edges(c).items():
                            failed[b] = nz
            ok_edge = lambda b, k: not (b in failed and failed[b] == k)      # noqa: E731
            seen = f.reach(body, blocked=lambda b, i, e: (b, i) in steps or b == hb, edge_ok=ok_edge)
            if (after, 0) in seen:
                path = f.find_path(body, lambda b, i: (b, i) == (after, 0), blocked=lambda b, i, e: (b, i) in steps or b == hb,
                                   edge_ok=ok_edge)
                ctx.fail(r, f, "scan over %s left before the list is exhausted" % lf, f.line_of(hb, 0),
                         "%s: a path through the body of the loop over %s leaves the loop (break / goto) without moving on to the "
                         "next element: the elements behind it are not served in this pass" % (f.name, lf), f.path_lines(path))
            else:
                r.ob(f, "loop over %s: every element is visited" % lf)
    if n < 6:
        raise AnalysisBroken("only %d exhaustive list scans found in the protocols" % n)


# ---------------------------------------------------------------------------
# R10: the resend timer is interrupted only by teardown


def rule_r10(ctx):
    r = ctx.rule("C12.R10", "T10", "the resend timer is interrupted only by teardown: req0_retry_cb takes a failed result of its aio as "
                 "'the socket is going away' and returns without re-arming (retry_active stays set, so nothing starts the timer "
                 "again); therefore nni_aio_abort / nni_aio_cancel / nni_aio_close / nni_aio_stop on req0_sock.retry_aio are "
                 "called only from the socket's close / fini path -- an option handler that 'wakes' the timer to apply a new "
                 "tick ends time-based resending for good", floor=1)
    prog = ctx.prog
    teardown = set()
    for slot in ("nni_proto_sock_ops.sock_close", "nni_proto_sock_ops.sock_fini"):
        teardown |= {f.name for f in prog.slot_fns(slot)}
    n = 0
    for f in prog.fns_in("reqrep0/req.c"):
        if f.cfg_failed:
            continue
        for c in f.calls(("nni_aio_abort", "nni_aio_cancel", "nni_aio_close", "nni_aio_stop", "nng_aio_cancel", "nng_aio_abort")):
            a0 = f.expand(c.node["args"][0]) if c.node["args"] else None
            if a0 is None or last_field(a0) != "req0_sock.retry_aio":
                continue
            n += 1
            if f.name in teardown:
                r.ob(f, "%s(&s->retry_aio) in the socket's teardown" % c.node["fn"])
            else:
                ctx.fail(r, f, "resend timer interrupted outside teardown", c.line,
                         "%s calls %s on the resend timer (line %s): req0_retry_cb sees the failed result, returns without "
                         "re-arming and leaves retry_active set -- no request of this socket is retransmitted on its resend time "
                         "any more" % (f.name, c.node["fn"], c.line))
    cb = prog.need("req0_retry_cb", "reqrep0/req.c")
    if not any(True for _ in cb.calls("nni_aio_result")):
        raise AnalysisBroken("req0_retry_cb no longer tests the result of its aio (the premise of this rule)")
    if n < 1:
        raise AnalysisBroken("no stop / abort of req0_sock.retry_aio found (the teardown had one)")


def walk_global(g):
    import json as _j
    stack = [g]
    while stack:
        x = stack.pop()
        if isinstance(x, dict):
            yield x
            stack.extend(x.values())
        elif isinstance(x, list):
            stack.extend(x)


def rule_r6(ctx):
    r = ctx.rule("C12.R6", "T2", "the retry timer is started only for a queued request: req0_retry_cb stops the timer as soon as it finds "
                 "retry_queue empty, so every store retry_active = true (with the nni_sleep_aio it announces) is dominated by an "
                 "append of a context to retry_queue or by a test that the queue is not empty -- otherwise the first tick "
                 "stops the timer and the request that armed it is never retransmitted on NNG_OPT_REQ_RESENDTIME", floor=1)
    prog = ctx.prog
    n = 0
    for f in prog.fns_in("reqrep0/req.c"):
        if f.cfg_failed:
            continue
        sets = G.stores(f, "retry_active", "nonnull")
        if not sets:
            continue
        apps = G.positions([c for c in f.calls(("nni_list_append", "nni_list_prepend")) if c.node["args"] and
                            last_field(f.expand(c.node["args"][0])) == "req0_sock.retry_queue"])
        nonempty = {}
        for bid, k, atom, val in G.edge_facts(f):
            if atom.get("k") == "call" and atom.get("fn") == "nni_list_empty" and atom["args"] and \
                    last_field(f.expand(atom["args"][0])) == "req0_sock.retry_queue" and not val:
                nonempty[bid] = k
        for t in sets:
            n += 1
            if (apps and f.dominated_by((t.b, t.i), blocked=lambda b, i, e: (b, i) in apps)) or \
                    (nonempty and G.dominated(f, (t.b, t.i), nonempty)):
                r.ob(f, "retry_active = true line %s: a context is on retry_queue" % t.line)
            else:
                ctx.fail(r, f, "retry timer started with nothing on retry_queue", t.line,
                         "%s marks the retry timer active at line %s on a path that did not put a context on retry_queue: "
                         "req0_retry_cb finds the queue empty on its first tick and stops the timer; when the request later "
                         "reaches a pipe nothing re-arms it, so it is sent once and never resent" % (f.name, t.line))
    if n < 1:
        raise AnalysisBroken("no store retry_active = true found in req.c")


def rule_r7(ctx):
    r = ctx.rule("C12.R7", "T2", "an answered request is no longer tied to its connection: either req0_recv_cb takes the context off the "
                 "pipe's list on every path on which it accepts the reply, or req0_pipe_close acts (ECONNRESET, reset, latch, "
                 "re-queue) only on contexts that still hold a request -- otherwise, with resending disabled, losing the "
                 "connection after the reply arrived discards the reply and fails the receive", floor=1)
    prog = ctx.prog
    f = prog.need("req0_recv_cb", "reqrep0/req.c")
    g = prog.need("req0_pipe_close", "reqrep0/req.c")
    # (A) the accept path of the receive callback: from the retirement of the id to the exit
    retire = [c for c in f.calls("nni_id_remove") if c.node["args"] and last_field(f.expand(c.node["args"][0])) == "req0_sock.requests"]
    G.need_sites(retire, "nni_id_remove(&s->requests, id)", f)
    unlink = G.positions([c for c in f.calls(("nni_list_node_remove", "nni_list_remove")) if any(
        a is not None and (last_field(f.expand(a)) or "").endswith(("req0_ctx.pipe_node", "req0_pipe.contexts")) for a in c.node["args"])])
    a_ok = bool(unlink) and all((f.exit, 0) not in f.reach((c.b, c.i + 1), blocked=lambda b, i, e: (b, i) in unlink) or
                                f.dominated_by((c.b, c.i), blocked=lambda b, i, e: (b, i) in unlink) for c in retire)
    # (B) the actions of pipe_close on a context are under a test that it still has a request
    acts = [c for c in g.calls(("req0_ctx_reset", "nni_aio_finish_error"))] + G.stores(g, "conn_reset", "nonnull")
    G.need_sites(acts, "actions of req0_pipe_close on a context", g)
    has_req = {}
    for bid, k, atom, val in G.edge_facts(g):
        if val and any(m.get("k") == "mem" and m.get("f") in ("req_msg", "request_id") for m in walk(atom)):
            has_req[bid] = k
    for b, k in G.nz_edges(g, lambda m: m.get("k") == "mem" and m.get("f") in ("req_msg", "request_id")).items():
        has_req.setdefault(b, k)
    b_ok = bool(has_req) and all(G.dominated(g, (t.b, t.i), has_req) for t in acts)
    if a_ok:
        r.ob(f, "the accepted reply takes the context off its pipe")
        r.ob(g, "(pipe loss cannot find an answered context)")
    elif b_ok:
        r.ob(g, "pipe loss acts only on contexts that still hold a request")
        r.ob(f, "(the context may stay on the pipe's list)")
    else:
        ctx.fail(r, g, "pipe loss acts on an answered context", g.line,
                 "req0_recv_cb leaves a context whose reply it accepted on p->contexts, and req0_pipe_close resets / fails every "
                 "context it finds there when resending is disabled, without looking whether a request is still outstanding: a "
                 "reply that arrived before the connection was lost is discarded and the receive fails with NNG_ECONNRESET")


def rule_r8(ctx):
    r = ctx.rule("C12.R8", "T3", "the socket's resend time reaches new contexts: where a socket-level option function updates the master "
                 "context and then copies the value into the socket's default (the one req0_ctx_init reads), the copy is made on "
                 "the path on which the update succeeded -- a copy made only on failure leaves every context opened later on "
                 "the old default (60 s, or resending enabled although the socket disabled it)", floor=1)
    prog = ctx.prog
    n = 0
    for f in prog.fns_in("reqrep0/req.c", "survey0/survey.c"):
        if f.cfg_failed:
            continue
        for t in f.assigns():
            l, e = t.node["lhs"], f.expand(t.node["rhs"])
            if l.get("k") != "mem" or e is None or e.get("k") != "mem" or l.get("f") != e.get("f"):
                continue
            if (last_field(l) or ".").split(".")[0].endswith("_sock") and (last_field(e) or ".").split(".")[0].endswith("_ctx"):
                n += 1
                fails = {}
                for bid, k, atom, val in G.edge_facts(f):
                    # an edge on which the result of the update is known to be an error
                    if atom.get("k") == "bin" and atom.get("op") in ("!=", "==") and const_of(atom["rhs"]) == 0 and atom["lhs"].get("k") == "var":
                        if (atom["op"] == "!=") == bool(val):
                            fails[bid] = k
                for b, k in G.nz_edges(f, lambda m: m.get("k") == "var" and m.get("n") == "rv").items():
                    fails.setdefault(b, k)
                if fails and G.dominated(f, (t.b, t.i), fails):
                    ctx.fail(r, f, "%s updated only when the option call failed" % show(l), t.line,
                             "%s copies %s into %s at line %s only on the edge on which the update returned an error: after a "
                             "successful nng_socket_set the socket's default keeps its old value, and contexts opened afterwards do "
                             "not get the configured resend time" % (f.name, show(e), show(l), t.line))
                else:
                    r.ob(f, "%s follows %s on the success path" % (show(l), show(e)))
    if n < 1:
        raise AnalysisBroken("no socket default shadowing a context option found")


def run(ctx):
    ctx.guard(rule_r4)
    ctx.guard(rule_r1)
    ctx.guard(rule_r2)
    ctx.guard(rule_r3)
    from . import c14
    c14.rule_r4(ctx)          # R5: a lost or rejected connection is redialled (shared with C14)
    for rr in ctx.rules:
        if rr.id == "C14.R4":
            rr.id = "C12.R5"
    ctx.guard(rule_r6)
    ctx.guard(rule_r7)
    ctx.guard(rule_r8)
    ctx.guard(rule_r9)
    ctx.guard(rule_r10)
