"""C09 -- BUS: fan-out once per peer, never echoed."""
from ..core import walk, show, const_of, last_field, truth_of, apath, is_null, AnalysisBroken, same_expr
from .. import guards as G
from ..locks import lockinfo, LOCK
from . import c04

EXPLANATION = ("C09: in bus0_sock_send every per-peer action is guarded by the raw-mode origin test; sending never writes the "
               "receive side; raw receive records the receiving pipe before delivery; the send path never parks; a full "
               "receive buffer frees the whole message; and (all protocols) a pipe's next receive is armed under the socket "
               "lock or after the current message was disposed of, so two messages of one peer cannot overtake each other."
               " Also: waiting operations are never prepended or served from the tail (R8); a reflector device runs a single forwarder (R9).")
EXPLANATION += ' Round 6: a send that can still be refused has not taken anything out of the message (R10); a transport masks only storage of its own, never the shared message (R11 = C16.R17); the fan-out loop visits every pipe (R12 = C12.R9).'


def rule_r1(ctx):
    r = ctx.rule("C09.R1", "T1", "origin skipped: inside the fan-out loop of bus0_sock_send every per-peer action (clone, direct "
                 "send, queue, busy flag) is reached only through the comparison of the peer's pipe id with the sender recorded "
                 "in the raw header", floor=5)
    f = ctx.prog.need("bus0_sock_send", "bus0/bus.c")
    acts = [s for s in f.calls(("nni_msg_clone", "nni_pipe_send", "nni_lmq_put"))] + G.stores(f, "busy", "nonnull")
    G.need_sites(acts, "per-peer actions", f)
    raw_true = G.cond_edges(f, lambda n: n.get("k") == "mem" and n["f"] == "raw", want_nonzero=True)
    cmp_blocks = {}
    for b in f.blocks.values():
        c = f.cond(b.id) if b.term and len(b.succs) == 2 else None
        if c is not None and c.get("k") == "bin" and c["op"] in ("==", "!=") and "nni_pipe_id" in show(c) and "sender" in show(c):
            cmp_blocks[b.id] = 0 if c["op"] == "==" else 1    # edge: peer IS the sender
    if not cmp_blocks or not raw_true:
        ctx.fail(r, f, "origin test missing", f.line, "bus0_sock_send no longer compares nni_pipe_id(pipe->pipe) with sender under s->raw")
        return
    # the origin compared with is the one recorded in the raw header: every non-zero definition of `sender` is the word
    # taken off the header (the message's pipe attribute is the same value only for a message that is passed on as received)
    sdefs = [(pos, d) for pos, d in G.var_defs(f, "sender")]
    for pos, d in sdefs:
        if d is None or const_of(d) is not None:
            continue
        dd = d
        while dd is not None and dd.get("k") == "cast":
            dd = dd["e"]
        if dd is not None and dd.get("k") == "call" and dd.get("fn") in ("nni_msg_header_trim_u32", "nni_msg_header_peek_u32"):
            r.ob(f, "sender is the word taken off the raw header")
        else:
            ctx.fail(r, f, "origin not taken from the raw header", f.line_of(*pos) if pos else f.line,
                     "bus0_sock_send sets sender = %s: the origin a forwarder wrote into the raw header is ignored, so a message it "
                     "built afresh (pipe attribute 0) is sent back to the peer it came from" % show(d)[:60])
    # loop-iteration entry: the block(s) holding the s->raw test that precedes the comparison
    heads = {b for b in raw_true if any(f.blocks[b].succs[raw_true[b]] == cb for cb in cmp_blocks)}
    if not heads:
        ctx.fail(r, f, "origin test not under s->raw", f.line, "the sender comparison is no longer the continuation of the s->raw test")
        return
    head_pos = {(b, 0) for b in heads}
    for s in acts:
        pos = (s.b, s.i)
        # (a) in raw mode the action is not reachable from the iteration entry without evaluating the comparison
        bypass = False
        for b in heads:
            tgt = f.blocks[b].succs[raw_true[b]]
            # tgt is the comparison block: fine.  Any other way from the head's raw edge?
            if tgt not in cmp_blocks:
                bypass = True
        # paths from the iteration entry to the action that avoid the head altogether (guard moved elsewhere)
        pre = f.reach((f.entry, 0), blocked=lambda bb, ii, e: (bb, ii) in head_pos)
        if pos in pre:
            bypass = True
        # (b) not reachable from the "peer is the sender" edge within the same iteration
        echo = False
        for cb, k in cmp_blocks.items():
            tgt = f.blocks[cb].succs[k]
            if tgt is not None and pos in f.reach((tgt, 0), blocked=lambda bb, ii, e: (bb, ii) in head_pos):
                echo = True
        if bypass or echo:
            ctx.fail(r, f, "%s not guarded by the origin test" % (s.node.get("fn") or "busy store"), s.line,
                     "%s at line %s can be reached for a peer without passing (or after failing) the raw-mode comparison of its "
                     "pipe id with the sender: a forwarded message can be sent back to the peer it came from"
                     % (s.node.get("fn") or show(s.node["lhs"]), s.line))
        else:
            r.ob(f, "%s line %s behind the origin test" % (s.node.get("fn") or "busy store", s.line))


def rule_r3(ctx):
    r = ctx.rule("C09.R3", "T10", "no loop-back and no blocking: the send side (bus0_sock_send, bus0_pipe_send_cb) never touches "
                 "recv_msgs / recv_wait; bus0_sock_send parks nothing; raw receive appends the receiving pipe's id before "
                 "delivery; a full receive buffer frees the message whole", floor=5)
    prog = ctx.prog
    for name in ("bus0_sock_send", "bus0_pipe_send_cb"):
        f = prog.need(name, "bus0/bus.c")
        bad = [s for s in f.sites() if s.node.get("k") == "mem" and s.node["f"] in ("recv_msgs", "recv_wait")]
        if bad:
            ctx.fail(r, f, "send path touches %s" % bad[0].node["f"], bad[0].line, "%s touches the socket's receive side" % name)
        else:
            r.ob(f, "does not touch recv_msgs / recv_wait")
    f = prog.need("bus0_sock_send", "bus0/bus.c")
    parks = [s for s in f.calls(("nni_aio_list_append", "nni_list_append")) if len(s.node["args"]) > 1 and
             (f.expand(s.node["args"][1]) or {}).get("t") in ("nni_aio *", "nng_aio *")]
    if parks:
        ctx.fail(r, f, "bus send parks", parks[0].line, "bus0_sock_send parks the user's aio: a BUS send must never block")
    else:
        r.ob(f, "no park in bus0_sock_send")
    g = prog.need("bus0_pipe_recv_cb", "bus0/bus.c")
    raw_true = G.cond_edges(g, lambda n: n.get("k") == "mem" and n["f"] == "raw", want_nonzero=True)
    push = [s for s in g.calls("nni_msg_header_append_u32") if "nni_pipe_id" in show(g.expand(s.node["args"][1]))]
    deliver = [s for s in g.calls(("nni_aio_set_msg", "nni_lmq_put")) if "aio_recv" not in show(g.expand(s.node["args"][0]))]
    if not raw_true or not push:
        ctx.fail(r, g, "origin not recorded", g.line, "raw receive no longer appends nni_pipe_id(p->pipe) to the header")
    else:
        ok = True
        for b, k in raw_true.items():
            tgt = g.blocks[b].succs[k]
            if tgt is not None and G.must_pass(g, (tgt, 0), G.positions(push), stop=[(s.b, s.i) for s in deliver]):
                ok = False
        if ok:
            r.ob(g, "raw receive records the receiving pipe before delivery")
        else:
            ctx.fail(r, g, "origin recorded too late", push[0].line, "in raw mode a message can be delivered before the receiving pipe's id is appended")
    puts = [s for s in g.calls("nni_lmq_put")]
    frees = G.positions(g.calls("nni_msg_free"))
    for s in puts:
        ve = g.value_edges(s)
        okf = bool(ve)
        for b, (nz, z) in ve.items():
            tgt = g.blocks[b].succs[nz]
            if tgt is None or G.must_pass(g, (tgt, 0), frees):
                okf = False
        if okf:
            r.ob(g, "full receive buffer: message freed")
        else:
            ctx.fail(r, g, "full buffer does not free", s.line, "when recv_msgs is full the new message is not freed on every path")


def helper_rearms(prog, f):
    """file-local helpers whose only effect is nni_pipe_recv on the pipe's aio_recv."""
    out = set()
    for g in prog.functions:
        if g.file != f.file or not g.static:
            continue
        cs = [s for s in g.calls()]
        if cs and all(s.node.get("fn") == "nni_pipe_recv" for s in cs):
            out.add(g.name)
    return out


def rule_r7(ctx):
    r = ctx.rule("C09.R7", "T3", "receive re-arm ordering (all protocols): in a pipe's receive callback the next nni_pipe_recv on "
                 "that pipe is issued with the socket lock held, or no lock is taken afterwards (the message has been disposed "
                 "of): otherwise the next message's callback can overtake this one at the lock", floor=15)
    prog = ctx.prog
    seen = set()
    for (ifn, aioexpr, cb, arg, site) in prog.aio_callbacks():
        lf = last_field(ifn.expand(aioexpr)) or ""
        if not lf.endswith((".aio_recv", ".aio")) or "/sp/protocol/" not in "/" + ifn.file:
            continue
        f = prog.fn(cb, ifn.file)
        if f is None or f.name in seen:
            continue
        # only receive-type callbacks (the aio is submitted to nni_pipe_recv somewhere)
        if not any(True for g in prog.functions if g.file == f.file for s in g.calls("nni_pipe_recv")
                   if last_field(g.expand(s.node["args"][1])) == lf):
            continue
        seen.add(f.name)
        helpers = helper_rearms(prog, f)
        rearms = [s for s in f.calls("nni_pipe_recv")] + [s for s in f.calls(tuple(helpers))] if helpers else [s for s in f.calls("nni_pipe_recv")]
        info = lockinfo(f)
        locks = G.positions(f.calls(LOCK))
        for s in rearms:
            vis = info.visits.get((s.b, s.i), [])
            unlocked = (not vis) or any(len(h) == 0 for h in vis)
            if not unlocked:
                r.ob(f, "re-arm line %s under the socket lock" % s.line)
                continue
            later = G.reaches(f, (s.b, s.i + 1), locks)
            if later:
                ctx.fail(r, f, "re-arm before the lock", s.line,
                         "the pipe's next receive is armed at line %s without the socket lock, and the lock is taken afterwards "
                         "(line %s) to deliver the current message: the callback for the next message can win the lock and "
                         "deliver first" % (s.line, f.line_of(*later)))
            else:
                r.ob(f, "re-arm line %s after the message was disposed of" % s.line)


def rule_r8(ctx):
    r = ctx.rule("C09.R8", "T10", "waiting operations are served in arrival order: a user aio is never put into a wait list with "
                 "nni_list_prepend / nni_list_insert_before / nni_list_insert_after, and never taken with nni_list_last "
                 "(tail append, head service everywhere)", floor=40)
    prog = ctx.prog
    n_app = 0
    for f in prog.functions:
        if f.cfg_failed:
            continue
        for c in f.calls(("nni_list_append", "nni_aio_list_append")):
            a = f.expand(c.node["args"][-1])
            if a is not None and "aio" in (a.get("t") or ""):
                n_app += 1
        for c in f.calls(("nni_list_prepend", "nni_list_insert_before", "nni_list_insert_after")):
            a = f.expand(c.node["args"][1]) if len(c.node["args"]) > 1 else None
            if a is not None and "aio" in (a.get("t") or ""):
                ctx.fail(r, f, "%s of a waiting aio" % c.node["fn"], c.line,
                         "%s puts the operation %s in front of (or inside) the wait list %s: operations that were posted earlier "
                         "are served later, so one peer's messages are handed out in the wrong order"
                         % (c.node["fn"], show(a), show(f.expand(c.node["args"][0]))))
        for t in f.sites():
            n = t.node
            rhs = None
            if n.get("k") == "asg":
                rhs, ty = f.expand(n["rhs"]), n["lhs"].get("t") or ""
            elif n.get("k") == "decls":
                for d in n["d"]:
                    if d.get("init") is not None and "aio" in (d.get("t") or ""):
                        x = f.expand(d["init"])
                        if x is not None and x.get("k") == "call" and x.get("fn") == "nni_list_last":
                            rhs, ty = x, d.get("t") or ""
            if rhs is not None and rhs.get("k") == "call" and rhs.get("fn") == "nni_list_last" and "aio" in ty:
                ctx.fail(r, f, "waiting aio taken from the tail", t.line,
                         "%s serves the wait list %s from its tail: operations that were posted earlier are served later"
                         % (f.name, show(f.expand(rhs["args"][0]))))
    if n_app < 40:
        raise AnalysisBroken("only %d tail appends of user aios seen" % n_app)
    r.obligations += n_app
    r.discharged += n_app
    r.samples.append("%d tail appends of aios, no prepend/insert of an aio anywhere" % n_app)


# ---------------------------------------------------------------------------
# R10: a send that can still be refused has not taken anything out of the message


def rule_r10(ctx):
    r = ctx.rule("C09.R10", "T3", "a refused send hands the message back as it was given: in a function stored in a sock_send / ctx_send "
                 "slot, protocol data is taken out of the user's message (nni_msg_header_trim* / nni_msg_trim* / *_chop*) only "
                 "where the operation can no longer be refused -- no nni_aio_start on the user's aio is reachable afterwards. A "
                 "raw BUS forwarder that retries a refused send (NNG_FLAG_NONBLOCK, zero timeout, aborted aio) otherwise sends "
                 "the message without its origin header, and the originator gets its own message back", floor=1)
    prog = ctx.prog
    TAKE = ("nni_msg_header_trim_u32", "nni_msg_header_trim", "nni_msg_trim_u32", "nni_msg_trim", "nni_msg_header_chop_u32",
            "nni_msg_header_chop", "nni_msg_chop_u32", "nni_msg_chop", "nni_msg_header_trim_u16", "nni_msg_header_trim_u64")
    n = 0
    seen = set()
    for slot in ("nni_proto_sock_ops.sock_send", "nni_proto_ctx_ops.ctx_send"):
        for f in prog.slot_fns(slot):
            if f.cfg_failed or f.name in seen:
                continue
            seen.add(f.name)
            starts = {(c.b, c.i) for c in f.calls("nni_aio_start")}
            for c in f.calls(TAKE):
                n += 1
                after = f.reach((c.b, c.i + 1))
                late = sorted(p_ for p_ in starts if p_ in after)
                if late:
                    ctx.fail(r, f, "message taken apart before the send can still be refused", c.line,
                             "%s calls %s on the user's message at line %s and reaches nni_aio_start at line %s afterwards: when "
                             "that refuses the operation (non-blocking, stopped or aborted aio) the caller keeps a message that "
                             "has lost its protocol header" % (f.name, c.node["fn"], c.line, f.line_of(*late[0])))
                else:
                    r.ob(f, "%s at line %s: the operation has been accepted (no nni_aio_start can follow)" % (c.node["fn"], c.line))
    if n < 1:
        raise AnalysisBroken("no send slot takes protocol data out of the user's message any more (bus0_sock_send did)")


# ---------------------------------------------------------------------------
# R13: a receive function delivers the message as it was queued


def rule_r13(ctx):
    r = ctx.rule("C09.R13", "T10", "a receive function delivers the message as it was queued: the functions in the sock_recv / ctx_recv "
                 "slots of sockets that run raw and cooked through the same code apply no header mutator (nni_msg_header_clear / _trim / _chop / _append / _insert) to the "
                 "message they hand to the application -- what the receive callback prepared (for a raw socket: the header that "
                 "names the origin / the route) is what the application gets. bus0_sock_recv serves cooked and raw sockets: a "
                 "header cleared there takes the origin off every message a raw forwarder reads from the buffer, and the "
                 "forwarder echoes it to the peer it came from", floor=1)
    prog = ctx.prog
    MUT = ("nni_msg_header_clear", "nni_msg_header_trim", "nni_msg_header_trim_u32", "nni_msg_header_chop", "nni_msg_header_chop_u32",
           "nni_msg_header_append", "nni_msg_header_append_u32", "nni_msg_header_insert", "nni_msg_header_insert_u32")
    n = 0
    seen = set()
    for slot in ("nni_proto_sock_ops.sock_recv", "nni_proto_ctx_ops.ctx_recv"):
        for f in prog.slot_fns(slot):
            if f.cfg_failed or f.name in seen:
                continue
            seen.add(f.name)
            # only the sockets that run raw and cooked through the same receive function (their record has a `raw` flag):
            # a cooked-only receive function may well consume the header it is about to remember (rep0, resp0)
            recs = {d.get("rec") for t in f.sites() if t.node.get("k") == "decls" for d in t.node["d"] if d.get("rec")}
            if not any(any(fl["n"] == "raw" for fl in prog.records.get(rc, {}).get("fields", [])) for rc in recs):
                continue
            n += 1
            cs = list(f.calls(MUT))
            if cs:
                ctx.fail(r, f, "header changed on the way to the application", cs[0].line,
                         "%s calls %s (line %s) on the message it delivers: the receive callback is where a protocol shapes the "
                         "message; what is changed here is changed for cooked and raw sockets alike" % (f.name, cs[0].node["fn"], cs[0].line))
            else:
                r.ob(f, "no header mutator")
    if n < 1:
        raise AnalysisBroken("no receive slot function of a raw-and-cooked socket found (bus0_sock_recv was one)")


def run(ctx):
    ctx.guard(rule_r1)
    ctx.guard(rule_r3)
    ctx.guard(rule_r7)
    ctx.guard(rule_r8)
    ctx.guard(rule_r10)
    ctx.guard(rule_r13)
    from . import c16
    ctx.guard(c16.rule_r17)          # every other peer gets the message as it was sent: a transport does not write into it
    for rr in ctx.rules:
        if rr.id == "C16.R17":
            rr.id = "C09.R11"
    from . import c13
    ctx.guard(c13.rule_r6)
    for rr in ctx.rules:
        if rr.id == "C13.R6":
            rr.id = "C09.R9"
    from . import c12
    ctx.guard(c12.rule_r9)           # every other peer is offered the message: the fan-out loop has no early exit
    for rr in ctx.rules:
        if rr.id == "C12.R9":
            rr.id = "C09.R12"
