"""C20 -- a failed allocation yields a clean error."""
from collections import defaultdict

from ..core import (walk, apath, show, const_of, is_null, last_field, strip_addr, truth_of, AnalysisBroken, same_expr)
from ..pathsim import Sim, Client

EXPLANATION = ("C20: every allocation result is NULL-tested before it is dereferenced; results of functions that can "
               "return NNG_ENOMEM are tested, propagated or explicitly discarded; init functions do not finalize "
               "themselves; no (rv = f() != K) precedence slips; out-parameters are not read after the callee failed; "
               "local allocations are released on the exits taken when a later step fails."
               " Also: a destroyer that runs the fini slot is called only after the init slot (R8); an object a failing constructor step left registered is not freed (R9); transport teardown slots tolerate the state p_init leaves (R10); init slots do not release what fini releases again (R11); container growth is failure-atomic (R12); half-built reference-counted objects are released with the raw free (R13).")
EXPLANATION += " Round 8: no error return after a fresh allocation was stored in the caller's out-parameter unless it is released on the way (R26)."
EXPLANATION += ' Round 3: a local allocation or delivered object is released or handed on along every path (R6); an owned field is released only after its replacement was allocated (R14).'
EXPLANATION += " Round 5: a constructor that hands its half-built object to the reaper has stored every field the reap function dereferences (R18)."
EXPLANATION += " A failed step does not leave NULL in a field that other calls on the object use (R19); a receive buffer cut down for one datagram is restored on every way out (R20)."
EXPLANATION += " Round 6: a counter of table entries follows the table (R23); what the caller releases on failure the failing callee has not released (R24); an error code kept in a local is looked at before the local is used again (R25); the NULL-field rule for teardown slots also covers the protocols' pipe slots (R10); nni_msg_pull_up's discarded insert is no longer exempt (R2)."

ALLOC = ("nni_alloc", "nni_zalloc", "nng_alloc", "nng_zalloc", "nni_strdup", "nng_strdup", "nni_strndup")
# callees that dereference their pointer arguments (argument indexes)
DEREF_ARGS = {
    "memcpy": (0, 1), "memset": (0,), "memmove": (0, 1), "strlen": (0,), "strcpy": (0, 1), "strncpy": (0, 1),
    "snprintf": (0,), "strcmp": (0, 1), "strncmp": (0, 1), "memcmp": (0, 1), "nni_strlcpy": (0, 1),
    "nni_list_append": (0, 1), "nni_list_prepend": (0, 1), "nni_mtx_init": (0,), "nni_cv_init": (0,),
    "nni_aio_init": (0,), "nni_lmq_init": (0,), "strcat": (0, 1), "nni_strcasecmp": (0, 1),
}


# ---------------------------------------------------------------------------
# R1 null check before dereference

def lpath(n):
    """Like apath, but an explicit dereference is part of the name: `*data`
    and `data` are different objects."""
    out = []
    while n is not None:
        k = n.get("k")
        if k == "un" and n.get("op") == "*":
            out.append("*")
            n = n["e"]
        elif k == "un" and n.get("op") == "&":
            n = n["e"]
        elif k == "mem":
            out.append(n["f"])
            n = n["b"]
        elif k == "idx":
            out.append("[]")
            n = n["b"]
        elif k == "var":
            out.append(n["n"])
            return tuple(reversed(out))
        else:
            return None
    return None


class _NullClient(Client):
    """state: frozenset of unchecked access paths holding an allocation result."""

    def __init__(self, fn, report):
        self.fn = fn
        self.report = report
        self.sites = {}

    def init(self, sim):
        return frozenset()

    def alloc_rhs(self, e):
        e = self.fn.expand(e)
        return e is not None and e.get("k") == "call" and e.get("fn") in ALLOC

    def node(self, st, n, sim):
        fn = self.fn
        k = n.get("k")
        if k == "asg" and n.get("op") == "=":
            p = lpath(n["lhs"])
            if p is not None:
                st = frozenset(q for q in st if q[:len(p)] != p)
                if self.alloc_rhs(n["rhs"]) and "[]" not in p:
                    self.sites[p] = sim.here()
                    return st | {p}
                rhs = fn.expand(n["rhs"])
                q = lpath(rhs) if rhs is not None and rhs.get("k") in ("var", "mem") else None
                if q is not None and q in st:
                    self.sites[p] = self.sites.get(q, sim.here())
                    return st | {p}
            return st
        if k == "decls":
            for d in n["d"]:
                p = (d["n"],)
                st = frozenset(q for q in st if q[:1] != p)
                if d.get("init") is not None and self.alloc_rhs(d["init"]):
                    self.sites[p] = sim.here()
                    st = st | {p}
            return st
        if not st:
            return st
        bad = None
        if k == "mem" and n.get("arrow"):
            p = lpath(n["b"])
            if p in st:
                bad = (p, "field access %s" % show(n))
        elif k == "un" and n.get("op") == "*":
            p = lpath(n["e"])
            if p in st:
                bad = (p, "dereference %s" % show(n))
        elif k == "idx":
            p = lpath(n["b"])
            if p in st:
                bad = (p, "indexing %s" % show(n))
        elif k == "call" and n.get("fn") in DEREF_ARGS:
            for i in DEREF_ARGS[n["fn"]]:
                if i < len(n["args"]) and n["args"][i] is not None:
                    a = fn.expand(n["args"][i])
                    p = lpath(a) if a.get("k") in ("var", "mem") else None
                    if p in st:
                        bad = (p, "%s(...)" % n["fn"])
        if bad:
            p, what = bad
            self.report.append((sim.here(), "->".join(p), what, self.sites.get(p), sim.lines()))
            return st - {p}
        return st

    def branch(self, st, subj, val, sim):
        p = lpath(subj) if subj.get("k") in ("var", "mem") else None
        if p is not None and p in st:
            return st - {p}
        return st


def rule_r1(ctx):
    r = ctx.rule("C20.R1", "T12", "the result of every nni_alloc/nni_zalloc/NNI_ALLOC_STRUCT/nni_strdup is NULL-tested "
                 "before it is dereferenced, indexed or passed to a dereferencing callee", floor=100)
    for fn in ctx.prog.functions:
        if fn.cfg_failed:
            continue
        sites = [s for s in fn.calls(ALLOC)]
        if not sites:
            continue
        rep = []
        cl = _NullClient(fn, rep)
        sim = Sim(fn, cl, max_states=20000)
        sim.run()
        if sim.truncated:
            raise AnalysisBroken("null-check simulation truncated in %s" % fn.name)
        seen = set()
        for line, path, what, site, lines in rep:
            if path in seen:
                continue
            seen.add(path)
            ctx.fail(r, fn, "unchecked %s then %s" % (path, what.split(" ")[0]), line,
                     "allocation result %s (line %s) reaches %s without a NULL test" % (path, site, what), lines)
        for s in sites:
            r.ob(fn, "%s line %s" % (s.node["fn"], s.line))


# ---------------------------------------------------------------------------
# R2 error discipline

def enomem_functions(prog):
    """Functions that can return NNG_ENOMEM (directly or by returning the
    result of such a function)."""
    enomem = prog.enum_value.get("NNG_ENOMEM", 2)
    may = set()
    rets = {}
    for f in prog.functions:
        if f.ret not in ("int", "nng_err"):
            continue
        direct = False
        via = set()
        assigned = defaultdict(set)
        for s in f.sites():
            n = s.node
            if n.get("k") == "asg" and n["lhs"].get("k") == "var":
                rhs = f.expand(n["rhs"])
                if rhs is not None and rhs.get("k") == "call" and rhs.get("fn"):
                    assigned[n["lhs"]["n"]].add(rhs["fn"])
                if rhs is not None and const_of(rhs) == enomem and rhs.get("k") == "enum":
                    assigned[n["lhs"]["n"]].add("<ENOMEM>")
            if n.get("k") == "decls":
                for d in n["d"]:
                    rhs = f.expand(d["init"]) if d.get("init") else None
                    if rhs is not None and rhs.get("k") == "call" and rhs.get("fn"):
                        assigned[d["n"]].add(rhs["fn"])
        for s in f.sites():
            n = s.node
            if n.get("k") == "ret" and n.get("e") is not None:
                e = f.expand(n["e"])
                if e is None:
                    continue
                if e.get("k") == "enum" and e.get("cv") == enomem:
                    direct = True
                elif e.get("k") == "call" and e.get("fn"):
                    via.add(e["fn"])
                elif e.get("k") == "var":
                    for g in assigned.get(e["n"], ()):
                        if g == "<ENOMEM>":
                            direct = True
                        else:
                            via.add(g)
                elif e.get("k") == "asg":
                    rhs = f.expand(e["rhs"])
                    if rhs is not None and rhs.get("k") == "call" and rhs.get("fn"):
                        via.add(rhs["fn"])
        rets[f.name] = via
        if direct:
            may.add(f.name)
    changed = True
    while changed:
        changed = False
        for name, via in rets.items():
            if name not in may and via & may:
                may.add(name)
                changed = True
    return may


def rule_r2(ctx):
    r = ctx.rule("C20.R2", "T12", "the result of every call to a function that can return NNG_ENOMEM is tested, returned, "
                 "stored, or discarded under an explicit (void) listed in the table with its reason", floor=200)
    prog = ctx.prog
    may = enomem_functions(prog)
    # explicit (void) discards accepted: (caller, callee) -> reason
    # Accepted discards: (caller, callee) -> (reason, structural guard or None).  A guard is re-checked on
    # every run; when it fails the discard is reported like any other.
    def lmq_init_guard(fn):
        # the exception relies on: nni_lmq_init publishes a capacity above the 2-slot inline ring only
        # through a successful nni_lmq_resize, i.e. no store of the requested capacity into lmq_cap /
        # lmq_alloc / lmq_mask is reachable on the path that calls (and may fail in) nni_lmq_resize
        rs = [s for s in fn.calls("nni_lmq_resize")]
        if not rs:
            return False
        for t in fn.assigns():
            lf = last_field(t.node["lhs"])
            if lf not in ("nni_lmq.lmq_cap", "nni_lmq.lmq_alloc", "nni_lmq.lmq_mask"):
                continue
            rhs = fn.expand(t.node["rhs"])
            if const_of(rhs) is not None:
                continue          # the constants describing the inline ring
            for s in rs:
                before = fn.reach((t.b, t.i + 1))
                after = fn.reach((s.b, s.i + 1))
                if (s.b, s.i) in before or (t.b, t.i) in after:
                    return False
        return True

    VOID_OK = {
        ("nni_lmq_init", "nni_lmq_resize"): ("best-effort growth: the queue keeps its inline 2-slot ring when the resize "
                                             "fails; capacity fields describe that ring unless a resize succeeded", lmq_init_guard),
        ("http_sconn_cbdone", "nni_http_set_header"): ("'Connection' is a known header stored without allocation "
                                                       "(http_set_known_header)", None),
        ("http_handle_static", "nni_http_set_header"): ("'Content-Type' is a known header stored without allocation", None),
        ("nni_id_remove", "id_resize"): ("shrinking the table is optional; the entry is already removed", None),
        ("ws_write_cb", "ws_frame_prep_tx"): ("re-preparation of a continuation frame allocates nothing (allocation happens "
                                              "at initial scheduling)", None),
        ("udp_start_rx", "nni_msg_insert"): ("best effort: when the insert cannot make room (a receive limit that is a power of two >= 1024 gives the buffer no headroom, and the growth failed) the transfer is set up from the message as it is -- 20 bytes short for this one datagram, memory-safe", None),
        ("udp_recv_data", "nni_msg_realloc"): ("restoring the receive buffer size is best effort; a shorter buffer only "
                                               "truncates the next datagram", None),
        ("http_conn_set_error", "nni_http_copy_body"): ("error pages are best effort: no body when out of memory", None),
    }
    r.notes.append("%d functions may return NNG_ENOMEM" % len(may))
    for fn in prog.functions:
        if fn.cfg_failed:
            continue
        # which elements are referenced by another element (value used)?
        used = set()
        voided = set()
        for b in fn.blocks.values():
            for e in b.elems:
                if e is None:
                    continue
                for n in walk(e):
                    for c in (n.get(k2) for k2 in ("e", "lhs", "rhs", "b", "i", "c", "a", "ind")):
                        if isinstance(c, dict) and c.get("k") == "ref":
                            (voided if (n.get("k") == "un" and n.get("op") == "(void)") else used).add((c["b"], c["i"]))
                    if n.get("k") == "call":
                        for a in n["args"]:
                            if isinstance(a, dict) and a.get("k") == "ref":
                                used.add((a["b"], a["i"]))
                    if n.get("k") == "decls":
                        for d in n["d"]:
                            c = d.get("init")
                            if isinstance(c, dict) and c.get("k") == "ref":
                                used.add((c["b"], c["i"]))
            if b.term and isinstance(b.term.get("cond"), dict) and b.term["cond"].get("k") == "ref":
                used.add((b.term["cond"]["b"], b.term["cond"]["i"]))
        for b in fn.blocks.values():
            for i, e in enumerate(b.elems):
                if e is None or e.get("k") != "call" or e.get("fn") not in may:
                    continue
                callee = prog.resolve(fn, e["fn"])
                if callee is None or callee.ret not in ("int", "nng_err"):
                    continue
                pos = (b.id, i)
                if pos in used:
                    r.ob(fn, "%s line %s: result used" % (e["fn"], fn.line_of(b.id, i, e)))
                else:
                    key = (fn.name, e["fn"])
                    how = "(void)" if pos in voided else "silently"
                    if key in VOID_OK and (VOID_OK[key][1] is None or VOID_OK[key][1](fn)):
                        r.exception("%s: discards %s" % key, VOID_OK[key][0])
                        r.ob(fn, "%s line %s: discard tabled (%s)" % (e["fn"], fn.line_of(b.id, i, e), how))
                    elif key in VOID_OK:
                        ctx.fail(r, fn, "discarded %s (guard of the exception no longer holds)" % e["fn"],
                                 fn.line_of(b.id, i, e),
                                 "result of %s is discarded and the invariant that made this discard acceptable is gone: %s"
                                 % (e["fn"], VOID_OK[key][0]))
                    else:
                        ctx.fail(r, fn, "discarded %s" % e["fn"], fn.line_of(b.id, i, e),
                                 "result of %s (may be NNG_ENOMEM) is discarded (%s) and the discard is not in the table "
                                 "of accepted discards" % (e["fn"], how))


# ---------------------------------------------------------------------------
# R3 no self-fini on init failure

def rule_r3(ctx):
    r = ctx.rule("C20.R3", "T9", "a function stored in an init slot of an ops table does not call the function stored in the "
                 "fini slot of the same table (the framework finalizes after a failed init)", floor=30)
    prog = ctx.prog
    PAIRS = (("nni_proto_pipe_ops", "pipe_init", "pipe_fini"), ("nni_proto_sock_ops", "sock_init", "sock_fini"),
             ("nni_proto_ctx_ops", "ctx_init", "ctx_fini"), ("nni_sp_pipe_ops", "p_init", "p_fini"),
             ("nni_sp_dialer_ops", "d_init", "d_fini"), ("nni_sp_listener_ops", "l_init", "l_fini"))
    for rec, i_slot, f_slot in PAIRS:
        for g, fields in prog.tables(rec):
            ini = strip_addr(fields.get(i_slot))
            fin = strip_addr(fields.get(f_slot))
            if not ini or not fin or ini.get("k") != "fnref" or fin.get("k") != "fnref":
                continue
            f = prog.fn(ini["n"], g["file"]) or prog.fn(ini["n"])
            if f is None:
                continue
            calls = [s for s in f.calls(fin["n"])]
            if calls:
                ctx.fail(r, f, "self-fini on init failure", calls[0].line,
                         "%s (slot %s of %s) calls %s, the fini slot of the same table; the framework calls it again"
                         % (f.name, i_slot, g["name"], fin["n"]))
            else:
                r.ob(f, "%s.%s does not call %s" % (g["name"], i_slot, fin["n"]))


# ---------------------------------------------------------------------------
# R4 (rv = f(...) != K)

def rule_r4(ctx):
    r = ctx.rule("C20.R4", "AST", "no assignment whose right-hand side is a comparison of a call result is used as an "
                 "error code: (rv = f(...) != K) stores 0/1 instead of the error", floor=1)
    n_asg = 0
    for fn in ctx.prog.functions:
        for s in fn.assigns():
            n = s.node
            if n.get("op") != "=":
                continue
            lhs = n["lhs"]
            if lhs.get("k") != "var" or lhs.get("t") not in ("int", "nng_err"):
                continue
            rhs = fn.expand(n["rhs"])
            n_asg += 1
            if rhs is not None and rhs.get("k") == "bin" and rhs.get("op") in ("==", "!="):
                l, rr = rhs["lhs"], rhs["rhs"]
                if (l.get("k") == "call" or rr.get("k") == "call") and (const_of(l) is not None or const_of(rr) is not None):
                    c = l if l.get("k") == "call" else rr
                    cal = ctx.prog.resolve(fn, c.get("fn")) if c.get("fn") else None
                    if cal is not None and cal.ret in ("int", "nng_err"):
                        ctx.fail(r, fn, "%s = (%s %s K)" % (lhs["n"], c.get("fn"), rhs["op"]), s.line,
                                 "error variable %s receives the truth value of a comparison, not the error code of %s"
                                 % (lhs["n"], c.get("fn")))
    r.obligations += 1
    r.discharged += 1
    r.samples.append("%d assignments to int/nng_err variables inspected" % n_asg)
    r.notes.append("%d assignments inspected" % n_asg)


# ---------------------------------------------------------------------------
# R7 out-parameters not read after the callee failed

def writes_out_on_failure(prog, g, idx, depth=0):
    """True if callee g stores through parameter idx on every path that
    returns a (possibly) non-zero value; False if some failing path leaves it
    unwritten; None if unknown."""
    if g is None or g.cfg_failed or idx >= len(g.params):
        return None
    pname = g.params[idx]["n"]
    writes = set()
    for s in g.sites():
        n = s.node
        if n.get("k") == "asg" and n["lhs"].get("k") == "un" and n["lhs"].get("op") == "*":
            e = n["lhs"]["e"]
            if e.get("k") == "var" and e["n"] == pname:
                writes.add((s.b, s.i))
        if n.get("k") == "call" and depth < 2:
            for j, a in enumerate(n["args"]):
                a = g.expand(a) if a is not None else None
                if a is not None and a.get("k") == "var" and a["n"] == pname and n.get("fn"):
                    h = prog.resolve(g, n["fn"])
                    if writes_out_on_failure(prog, h, j, depth + 1):
                        writes.add((s.b, s.i))
    # is there a path entry -> a return of non-zero that avoids all writes?
    for s in g.sites():
        n = s.node
        if n.get("k") != "ret" or n.get("e") is None:
            continue
        e = g.expand(n["e"])
        if const_of(e) == 0 and e.get("k") in ("int", "enum"):
            continue
        seen = g.reach((g.entry, 0), blocked=lambda b, i, el: (b, i) in writes)
        if (s.b, s.i) in seen:
            # for `return rv`: only a failure if rv can be non-zero there; conservative: yes unless
            # the only reaching definitions are the constant 0
            return False
    return True


class _OutClient(Client):
    """state: frozenset of (var, call id) meaning var is written only if that call succeeded."""

    def __init__(self, fn, prog, report):
        self.fn = fn
        self.prog = prog
        self.report = report

    def init(self, sim):
        return frozenset()

    def node(self, st, n, sim):
        fn = self.fn
        k = n.get("k")
        if k == "call" and n.get("fn"):
            g = self.prog.resolve(fn, n["fn"])
            if g is not None and g.ret in ("int", "nng_err"):
                for j, a in enumerate(n["args"]):
                    a = fn.expand(a) if a is not None else None
                    if a is not None and a.get("k") == "un" and a.get("op") == "&" and a["e"].get("k") == "var":
                        v = a["e"]["n"]
                        if v in self.uninit and writes_out_on_failure(self.prog, g, j) is False:
                            st = st | {(v, n["_id"], n["fn"])}
            return st
        if k == "asg":
            p = apath(n["lhs"])
            if p is not None and len(p) == 1:
                st = frozenset(x for x in st if x[0] != p[0])
            return st
        if k == "var" and st:
            for x in st:
                if x[0] == n["n"]:
                    # a read (address-of is handled through the parent node order: & comes after var)
                    self.pending = (x, sim.here(), sim.lines())
            return st
        if k == "un" and n.get("op") == "&" and n["e"].get("k") == "var":
            self.pending = None
            return st
        return st

    def branch(self, st, subj, val, sim):
        if subj.get("k") == "call":
            cid = subj.get("_id")
            if val[0] == "Z":
                return frozenset(x for x in st if x[1] != cid)   # success: written
            return st
        return st


def rule_r7(ctx):
    r = ctx.rule("C20.R7", "T12", "a local passed as out-parameter to a callee that leaves it unwritten when it fails is not "
                 "read on a path where that callee may have failed", floor=20)
    prog = ctx.prog
    for fn in prog.functions:
        if fn.cfg_failed:
            continue
        # locals declared without initialiser
        uninit = set()
        for s in fn.sites():
            if s.node.get("k") == "decls":
                for d in s.node["d"]:
                    if d.get("init") is None and not d.get("static") and "[" not in d["t"]:
                        uninit.add(d["n"])
        if not uninit:
            continue
        cands = []
        for s in fn.calls():
            n = s.node
            if not n.get("fn"):
                continue
            for j, a in enumerate(n["args"]):
                a = fn.expand(a) if a is not None else None
                if a is not None and a.get("k") == "un" and a.get("op") == "&" and a["e"].get("k") == "var" \
                        and a["e"]["n"] in uninit:
                    g = prog.resolve(fn, n["fn"])
                    if g is not None and g.ret in ("int", "nng_err"):
                        cands.append((s, j, a["e"]["n"], g))
        if not cands:
            continue
        for s, j, var, g in cands:
            w = writes_out_on_failure(prog, g, j)
            ve0 = fn.value_edges(s)

            def assigns_var(b, i, e, var=var):
                for n in walk(e):
                    if n.get("k") == "asg" and n["lhs"].get("k") == "var" and n["lhs"]["n"] == var:
                        return True
                return False
            # a call whose result is thrown away is the "guarded call" idiom (cannot fail here)
            discarded = True
            top = fn.blocks[s.b].elems[s.i]
            if top is not s.node:
                discarded = False      # nested in an assignment / condition / return
            else:
                for b2 in fn.blocks.values():
                    for e2 in b2.elems:
                        if e2 is None:
                            continue
                        for n2 in walk(e2):
                            if n2.get("k") == "ref" and (n2["b"], n2["i"]) == (s.b, s.i):
                                par_void = False
                                discarded = False
                    if b2.term and isinstance(b2.term.get("cond"), dict) and b2.term["cond"].get("k") == "ref" and \
                            (b2.term["cond"]["b"], b2.term["cond"]["i"]) == (s.b, s.i):
                        discarded = False
                # (void) f(&x): still a discard
                for b2 in fn.blocks.values():
                    for e2 in b2.elems:
                        if e2 is not None and e2.get("k") == "un" and e2.get("op") == "(void)" and \
                                isinstance(e2.get("e"), dict) and e2["e"].get("k") == "ref" and \
                                (e2["e"]["b"], e2["e"]["i"]) == (s.b, s.i):
                            discarded = True
            if w is False and (discarded or fn.dominated_by((s.b, s.i), blocked=assigns_var)):
                r.ob(fn, "%s(&%s) line %s: result untested (guarded call) or variable assigned before the call"
                     % (g.name, var, s.line))
                continue
            if w is not False:
                r.ob(fn, "%s(&%s) line %s: callee writes it on every failing path or is unknown" % (g.name, var, s.line))
                continue
            # reads of var reachable from the call along edges where the call may have failed,
            # before any re-assignment
            ve = fn.value_edges(s)

            def blocked(b, i, e, var=var, s=s):
                if (b, i) == (s.b, s.i):
                    return False
                for n in walk(e):
                    if n.get("k") == "asg" and n["lhs"].get("k") == "var" and n["lhs"]["n"] == var:
                        return True
                    if n.get("k") == "call":
                        for a in n["args"]:
                            a = fn.expand(a) if a is not None else None
                            if a is not None and a.get("k") == "un" and a.get("op") == "&" and \
                                    a["e"].get("k") == "var" and a["e"]["n"] == var:
                                return True     # handed to another writer
                return False
            seen = fn.reach((s.b, s.i + 1), blocked=blocked,
                            edge_ok=lambda b, k, ve=ve: not (b in ve and k == ve[b][1]))
            bad = None
            for (b, i) in sorted(seen):
                blk = fn.blocks[b]
                if i >= len(blk.elems) or blk.elems[i] is None:
                    continue
                nodes = list(walk(blk.elems[i]))
                for idx, n in enumerate(nodes):
                    if n.get("k") == "var" and n["n"] == var:
                        # skip &var
                        parent_addr = any(m.get("k") == "un" and m.get("op") == "&" and m["e"] is n for m in nodes)
                        if not parent_addr:
                            bad = (b, i, n)
                            break
                if bad:
                    break
            if bad:
                b, i, n = bad
                ctx.fail(r, fn, "%s read after failed %s" % (var, g.name), fn.line_of(b, i, n),
                         "%s is written by %s only when it succeeds, but is read at line %s on a path where it may have "
                         "failed (uninitialised value)" % (var, g.name, fn.line_of(b, i, n)))
            else:
                r.ob(fn, "%s(&%s) line %s: not read on failing paths" % (g.name, var, s.line))


# ---------------------------------------------------------------------------
# R8: a constructor's failure path does not finalize what was never initialized
# R9: ... and does not free an object that a registration still points to

INIT_FINI = (("nni_proto_sock_ops.sock_init", "nni_proto_sock_ops.sock_fini"),
             ("nni_sp_dialer_ops.d_init", "nni_sp_dialer_ops.d_fini"),
             ("nni_sp_listener_ops.l_init", "nni_sp_listener_ops.l_fini"),
             ("nni_proto_ctx_ops.ctx_init", "nni_proto_ctx_ops.ctx_fini"),
             ("nni_proto_pipe_ops.pipe_init", "nni_proto_pipe_ops.pipe_fini"),
             ("nni_sp_pipe_ops.p_init", "nni_sp_pipe_ops.p_fini"))


def slot_calls(f, slot):
    out = []
    for s in f.sites():
        n = s.node
        if n.get("k") == "call" and n.get("ind") is not None and last_field(f.expand(n["ind"])) == slot:
            out.append(s)
    return out


def must_call_slot(prog, f, slot, depth=0):
    """positions in f after which the init slot has certainly run: direct slot calls, and calls to functions that
    call the slot on every path to their exit"""
    pos = {(s.b, s.i) for s in slot_calls(f, slot)}
    if depth < 2:
        for s in f.calls():
            g = prog.resolve(f, s.node.get("fn")) if s.node.get("fn") else None
            if g is None or g is f or g.cfg_failed:
                continue
            inner = must_call_slot(prog, g, slot, depth + 1)
            if inner and not g.reaches_exit((g.entry, 0), blocked=lambda b, i, e: (b, i) in inner):
                pos.add((s.b, s.i))
    return pos


def allocates(f, var):
    from .c01 import var_defs
    for p, e in var_defs(f, var):
        while e is not None and e.get("k") == "cast":
            e = e["e"]
        if e is not None and e.get("k") == "call" and e.get("fn") in ("nni_zalloc", "nni_alloc"):
            return True
    return False


def rule_r8(ctx):
    from .. import guards as G
    r = ctx.rule("C20.R8", "T3", "a constructor that allocates an object calls the object's destroyer (which invokes the fini slot) "
                 "only after the matching init slot has run, or after clearing the field the destroyer tests before finalizing",
                 floor=5)
    prog = ctx.prog
    for islot, fslot in INIT_FINI:
        destroyers = [f for f in prog.functions if not f.cfg_failed and slot_calls(f, fslot)]
        for D in destroyers:
            fin = slot_calls(D, fslot)[0]
            # guard field of the fini call inside D (e.g. `if (s->s_data != NULL)`)
            gfield = None
            for b in D.blocks.values():
                c = D.cond(b.id) if b.term and len(b.succs) == 2 else None
                if c is None:
                    continue
                for fld in [n for n in walk(c) if n.get("k") == "mem"]:
                    t = truth_of(c, lambda n, fld=fld: n is fld)
                    if t and D.dominated_by((fin.b, fin.i), edge_ok=lambda bb, k, b=b, t=t: not (bb == b.id and k == (0 if t > 0 else 1))):
                        gfield = last_field(fld)
            for F in prog.functions:
                if F.cfg_failed or F is D:
                    continue
                for c in F.calls(D.name):
                    a = F.expand(c.node["args"][0]) if c.node["args"] else None
                    if a is None or a.get("k") != "var" or not allocates(F, a["n"]):
                        continue
                    inits = must_call_slot(prog, F, islot)
                    clears = set()
                    if gfield:
                        clears = G.positions(x for x in G.stores(F, gfield.split(".", 1)[1], value="null"))
                    seen = F.reach((F.entry, 0), blocked=lambda b, i, e: (b, i) in inits or (b, i) in clears)
                    if (c.b, c.i) in seen:
                        ctx.fail(r, F, "%s before %s" % (D.name, islot.split(".")[1]), c.line,
                                 "%s(%s) at line %s is reachable before the %s slot has run%s: the %s slot is then invoked on "
                                 "memory its init never saw (a failed allocation turns into a crash instead of NNG_ENOMEM)"
                                 % (D.name, a["n"], c.line, islot.split(".")[1],
                                    (" and without clearing %s" % gfield) if gfield else "", fslot.split(".")[1]),
                                 F.path_lines(F.find_path((F.entry, 0), lambda b, i: (b, i) == (c.b, c.i),
                                                          blocked=lambda b, i, e: (b, i) in inits or (b, i) in clears)))
                    else:
                        r.ob(F, "%s line %s: after %s%s" % (D.name, c.line, islot.split(".")[1],
                                                             " or with %s cleared" % gfield if clears else ""))


REGISTER = {
    # callee: (index of the registered object, undo callee, index of the object in the undo call or None = any)
    "nni_sock_add_dialer": (1, ("nni_sock_remove_dialer",)),
    "nni_sock_add_listener": (1, ("nni_sock_remove_listener",)),
    "nni_id_alloc32": (2, ("nni_id_remove",)),
    "nni_id_alloc": (2, ("nni_id_remove",)),
    "nni_id_set": (2, ("nni_id_remove",)),
    "nni_pipe_add": (0, ("nni_pipe_remove",)),
}


def frees_param(f):
    """index of the parameter that f releases with nni_free(param, ..) itself (a raw destroyer)"""
    for s in f.calls("nni_free"):
        a = f.expand(s.node["args"][0])
        if a.get("k") == "var":
            for i, prm in enumerate(f.params):
                if prm["n"] == a["n"]:
                    return i
            # local initialised from a parameter (void *arg idiom)
            from .c01 import var_defs
            for p, e in var_defs(f, a["n"]):
                if e is not None and e.get("k") == "var":
                    for i, prm in enumerate(f.params):
                        if prm["n"] == e["n"]:
                            return i
    return None


def reaches_undo(prog, f, undo, depth=0):
    for s in f.calls():
        if s.node.get("fn") in undo:
            return True
        if depth < 2 and s.node.get("fn"):
            g = prog.resolve(f, s.node["fn"])
            if g is not None and g is not f and not g.cfg_failed and reaches_undo(prog, g, undo, depth + 1):
                return True
    return False


def rule_r9(ctx):
    from .. import guards as G
    from .c01 import reaching_defs
    r = ctx.rule("C20.R9", "T2", "an object that a failing constructor step leaves registered (socket endpoint list, id map) is "
                 "not freed by the caller: between a successful registration and a failing return the registration is undone, "
                 "or the destroyer the caller uses undoes it", floor=6)
    prog = ctx.prog
    raw = {}
    for f in prog.functions:
        if not f.cfg_failed:
            i = frees_param(f)
            if i is not None:
                raw[f.name] = (f, i)
    n_seen = 0
    for C in prog.functions:
        if C.cfg_failed:
            continue
        for d in C.calls():
            if d.node.get("fn") not in raw:
                continue
            D, di = raw[d.node["fn"]]
            if di >= len(d.node["args"]):
                continue
            obj = C.expand(d.node["args"][di])
            if obj.get("k") != "var":
                continue
            # constructor steps S(obj..) whose failure edge dominates this destroy
            for sc in C.calls():
                g = prog.resolve(C, sc.node.get("fn")) if sc.node.get("fn") else None
                if g is None or g.cfg_failed or g is D:
                    continue
                qi = None
                for i, a in enumerate(sc.node["args"]):
                    a = C.expand(a) if a is not None else None
                    if a is not None and a.get("k") == "var" and a["n"] == obj["n"]:
                        qi = i
                if qi is None or qi >= len(g.params):
                    continue
                ve = C.value_edges(sc)
                fail_cut = {b: nz for b, (nz, z) in ve.items()}
                if not ve or not G.dominated(C, (d.b, d.i), {b: fail_cut[b] for b in fail_cut}) is True:
                    # destroy must be reachable only over the failure edge
                    if not ve:
                        continue
                    seen = C.reach((C.entry, 0), edge_ok=lambda b, k: not (b in fail_cut and k == fail_cut[b]))
                    if (d.b, d.i) in seen:
                        continue
                q = g.params[qi]["n"]
                for R in g.calls():
                    spec = REGISTER.get(R.node.get("fn"))
                    if not spec:
                        continue
                    oi, undo = spec
                    if oi >= len(R.node["args"]):
                        continue
                    ra = g.expand(R.node["args"][oi])
                    if not (ra.get("k") == "var" and ra["n"] == q):
                        continue
                    n_seen += 1
                    if reaches_undo(prog, D, undo):
                        r.ob(g, "%s: %s undoes it" % (R.node["fn"], D.name))
                        continue
                    rve = g.value_edges(R)
                    starts = []
                    if rve:
                        for b, (nz, z) in rve.items():
                            if g.blocks[b].succs[z] is not None:
                                starts.append((g.blocks[b].succs[z], 0))
                    else:
                        starts.append((R.b, R.i + 1))
                    undos = G.positions(x for x in g.calls() if x.node.get("fn") in undo)
                    # later may-fail steps: assignments of a call result to the variable that is returned
                    rets = [x for x in g.sites() if x.node.get("k") == "ret" and x.node.get("e") is not None]
                    rvn = {g.expand(x.node["e"])["n"] for x in rets if g.expand(x.node["e"]).get("k") == "var"}
                    bad = None
                    for st in starts:
                        after = g.reach(st)
                        for x in g.assigns():
                            if (x.b, x.i) not in after or x.node["lhs"].get("k") != "var" or x.node["lhs"]["n"] not in rvn:
                                continue
                            rhs = g.expand(x.node["rhs"])
                            if rhs.get("k") != "call":
                                continue
                            v = x.node["lhs"]["n"]
                            okedge = G.cmp_edges(g, lambda l: l.get("k") == "var" and l["n"] == v, {"==": 0, "!=": 1},
                                                 rhs_match=lambda y: const_of(y) == 0)
                            redefs = {(y.b, y.i) for y in g.assigns() if y.node["lhs"].get("k") == "var" and y.node["lhs"]["n"] == v
                                      and (y.b, y.i) != (x.b, x.i)}
                            seen = g.reach((x.b, x.i + 1), blocked=lambda b, i, e: (b, i) in undos or (b, i) in redefs,
                                           edge_ok=lambda b, k: not (b in okedge and k == okedge[b]))
                            if (g.exit, 0) in seen:
                                bad = (x, rhs)
                    if bad:
                        x, rhs = bad
                        ctx.fail(r, g, "%s not undone when %s fails" % (R.node["fn"], rhs.get("fn")), x.line,
                                 "%s registered %s (line %s); if %s at line %s then fails, %s returns the error without %s and "
                                 "its caller %s frees the object with %s, which does not undo it either: the registration keeps "
                                 "pointing at freed memory" % (R.node["fn"], q, R.line, rhs.get("fn"), x.line, g.name,
                                                               "/".join(undo), C.name, D.name))
                    else:
                        r.ob(g, "%s: every later failure undoes it before returning" % R.node["fn"])
    if n_seen < 4:
        raise AnalysisBroken("only %d registrations inside constructor steps found" % n_seen)


# ---------------------------------------------------------------------------
# R10: transport teardown slots tolerate the state p_init leaves


def rule_r10(ctx):
    from .. import guards as G
    r = ctx.rule("C20.R10", "T1", "the framework may close, stop and finalize a transport pipe right after p_init (pipe creation "
                 "failed later, e.g. the id map could not grow): p_close / p_stop / p_fini dereference a pointer field of the "
                 "pipe that p_init does not set only under a NULL test of it", floor=12)
    prog = ctx.prog
    for table, s_init, s_after in (("nni_sp_pipe_ops", "p_init", ("p_close", "p_stop", "p_fini")),
                                    ("nni_proto_pipe_ops", "pipe_init", ("pipe_close", "pipe_stop", "pipe_fini"))):
        for g, fields in prog.tables(table):
            ini = strip_addr(fields.get(s_init))
            if not ini or ini.get("k") != "fnref":
                continue
            finit = prog.fn(ini["n"], g["file"]) or prog.fn(ini["n"])
            if finit is None or finit.cfg_failed:
                continue
            # record type of the transport pipe: type of the local the void* argument is converted to
            rec = None
            for s in finit.sites():
                if s.node.get("k") == "decls":
                    for d in s.node["d"]:
                        if d.get("rec") and d.get("init") is not None:
                            rec = d["rec"]
            if rec is None or rec not in prog.records:
                continue
            ptr_fields = {f["n"] for f in prog.records[rec].get("fields", []) if f.get("t", "").rstrip().endswith("*")}
            set_in_init = set()
            for s in finit.assigns():
                l = s.node["lhs"]
                if l.get("k") == "mem" and l.get("rec") == rec and not finit.reaches_exit(
                        (finit.entry, 0), blocked=lambda b, i, e, s=s: (b, i) == (s.b, s.i)):
                    set_in_init.add(l["f"])
            late = ptr_fields - set_in_init
            for slot in s_after:
                t = strip_addr(fields.get(slot))
                if not t or t.get("k") != "fnref":
                    continue
                f0 = prog.fn(t["n"], g["file"]) or prog.fn(t["n"])
                if f0 is None or f0.cfg_failed:
                    continue
                def holders_of(f):
                    out = {}
                    for v in f.locals():
                        ds = G.var_defs(f, v)
                        if ds and all(x is not None and x.get("k") == "mem" and x.get("rec") == rec and x["f"] in late for _, x in ds):
                            out[v] = ds[0][1]["f"]
                    return out

                def assured_at(f, pos):
                    """late fields known to be non-NULL at pos in f (a dominating NULL test of the field or of a local holding it)"""
                    hs = holders_of(f)
                    out = set()
                    for fld in late:
                        def tests(x, fld=fld):
                            if x.get("k") == "var" and hs.get(x["n"]) == fld:
                                return True
                            return x.get("k") == "mem" and x.get("rec") == rec and x["f"] == fld
                        nn = G.cond_edges(f, tests, want_nonzero=True)
                        if nn and G.dominated(f, pos, nn):
                            out.add(fld)
                    return out
                todo = [(f0, set())]
                # same-object helpers one level down (fini calling stop, close calling a removal helper): what the caller has
                # established about the object at the call site holds in the helper
                for c in f0.calls():
                    h = prog.resolve(f0, c.node["fn"]) if c.node.get("fn") else None
                    if h is not None and h.file == f0.file and h.static and not h.cfg_failed and len(c.node["args"]) == 1:
                        known = assured_at(f0, (c.b, c.i))
                        prev = [t for t in todo if t[0] is h]
                        if prev:
                            todo.remove(prev[0])
                            known &= prev[0][1]
                        todo.append((h, known))
                for f, known in todo:
                    # locals that hold p->F for a late field F
                    holders = {}
                    for pos, rhs in [(pp, rr) for v in f.locals() for pp, rr in G.var_defs(f, v)]:
                        pass
                    for v in f.locals():
                        ds = G.var_defs(f, v)
                        if ds and all(x is not None and x.get("k") == "mem" and x.get("rec") == rec and x["f"] in late for _, x in ds):
                            holders[v] = ds[0][1]["f"]
                    n_deref = 0
                    for s in f.sites():
                        n = s.node
                        if n.get("k") != "mem" or not n.get("arrow"):
                            continue
                        b = f.expand(n["b"])
                        fld = None
                        if b.get("k") == "mem" and b.get("rec") == rec and b["f"] in late:
                            fld, what = b["f"], show(b)
                        elif b.get("k") == "var" and b["n"] in holders:
                            fld, what = holders[b["n"]], b["n"]
                        if fld is None or fld in known:
                            continue
                        n_deref += 1

                        def tests(x, fld=fld, b=b):
                            if x.get("k") == "var" and b.get("k") == "var" and x["n"] == b["n"]:
                                return True
                            return x.get("k") == "mem" and x.get("rec") == rec and x["f"] == fld
                        nonnull = G.cond_edges(f, tests, want_nonzero=True)
                        if nonnull and G.dominated(f, (s.b, s.i), nonnull):
                            r.ob(f, "%s->%s line %s under a NULL test of %s.%s" % (what, n["f"], s.line, rec, fld))
                        else:
                            ctx.fail(r, f, "%s.%s dereferenced without a NULL test" % (rec, fld), s.line,
                                     "%s (slot %s of %s) dereferences %s->%s, but %s.%s is first set after p_init (not in %s): when pipe "
                                     "creation fails after p_init -- a failed allocation in the protocol's pipe_init or in the id "
                                     "map -- the framework still runs this slot and it dereferences NULL"
                                     % (f.name, slot, g["name"], what, n["f"], rec, fld, finit.name))
                    if not n_deref:
                        r.ob(f, "%s: no dereference through a field that p_init leaves unset" % slot)


# ---------------------------------------------------------------------------
# R11: an init slot does not release what its fini slot (run by the framework after a failed init) releases again

RELEASERS = ("nni_free", "nni_msg_free", "nni_strfree", "nni_aio_free", "nng_stream_free", "nng_stream_dialer_free",
             "nng_stream_listener_free", "nni_lmq_fini", "nni_id_map_fini", "nng_udp_close", "nni_http_conn_fini")


def rule_r11(ctx):
    from .. import guards as G
    r = ctx.rule("C20.R11", "T9", "the framework finalizes an object after its init slot failed: the init slot (and the helpers it "
                 "hands the object to) neither frees the object itself nor releases a member that the fini slot releases too "
                 "without clearing it", floor=20)
    prog = ctx.prog
    SLOTS = (("nni_sp_dialer_ops", "d_init", "d_fini"), ("nni_sp_listener_ops", "l_init", "l_fini"),
             ("nni_sp_pipe_ops", "p_init", "p_fini"), ("nni_proto_sock_ops", "sock_init", "sock_fini"),
             ("nni_proto_ctx_ops", "ctx_init", "ctx_fini"), ("nni_proto_pipe_ops", "pipe_init", "pipe_fini"))
    for recname, i_slot, f_slot in SLOTS:
        for g, fields in prog.tables(recname):
            ini, fin = strip_addr(fields.get(i_slot)), strip_addr(fields.get(f_slot))
            if not ini or not fin or ini.get("k") != "fnref" or fin.get("k") != "fnref":
                continue
            I = prog.fn(ini["n"], g["file"]) or prog.fn(ini["n"])
            F = prog.fn(fin["n"], g["file"]) or prog.fn(fin["n"])
            if I is None or F is None or I.cfg_failed or F.cfg_failed or not I.params:
                continue

            def obj_names(f, pname):
                """the object parameter and locals initialised from it"""
                out = {pname}
                for v in f.locals():
                    ds = G.var_defs(f, v)
                    if ds and all(x is not None and x.get("k") in ("var", "cast") and
                                  (x if x.get("k") == "var" else x["e"]).get("n") in out for _, x in ds):
                        out.add(v)
                return out

            def released_fields(f, names, depth=0):
                out = {}
                for c in f.calls():
                    if c.node.get("fn") in RELEASERS and c.node["args"]:
                        a = f.expand(c.node["args"][0])
                        while a is not None and a.get("k") == "un" and a.get("op") == "&":
                            a = a["e"]
                        if a is not None and a.get("k") == "mem":
                            root = a
                            chain = []
                            while root.get("k") == "mem":
                                chain.append(root["f"])
                                root = f.expand(root["b"])
                            if root.get("k") == "var" and root["n"] in names:
                                out[".".join(reversed(chain))] = c
                    elif depth < 1 and c.node.get("fn"):
                        h = prog.resolve(f, c.node["fn"])
                        if h is not None and h.file == f.file and not h.cfg_failed and h is not f:
                            for k, a in enumerate(c.node["args"]):
                                a = f.expand(a) if a is not None else None
                                if a is not None and a.get("k") == "var" and a["n"] in names and k < len(h.params):
                                    for fld, site in released_fields(h, obj_names(h, h.params[k]["n"]), depth + 1).items():
                                        out.setdefault(fld, site)
                return out
            fin_rel = released_fields(F, obj_names(F, F.params[0]["n"]))
            # init side: I itself and helpers that receive the object
            work = [(I, obj_names(I, I.params[0]["n"]))]
            for c in I.calls():
                h = prog.resolve(I, c.node["fn"]) if c.node.get("fn") else None
                if h is not None and h.file == I.file and not h.cfg_failed and h is not I:
                    for k, a in enumerate(c.node["args"]):
                        a = I.expand(a) if a is not None else None
                        if a is not None and a.get("k") == "var" and a["n"] in work[0][1] and k < len(h.params):
                            work.append((h, obj_names(h, h.params[k]["n"])))
            for f, names in work:
                bad = False
                for c in f.calls("nni_free"):
                    a = f.expand(c.node["args"][0])
                    if a.get("k") == "var" and a["n"] in names:
                        bad = True
                        ctx.fail(r, f, "init path frees the object itself", c.line,
                                 "%s (reached from %s.%s) frees %s: the object belongs to its owner, and %s is still called "
                                 "for it after the failed init" % (f.name, g["name"], i_slot, a["n"], F.name))
                for fld, c in released_fields(f, names, depth=1).items():
                    if fld not in fin_rel:
                        continue
                    # cleared before every return that follows the release?
                    clears = G.positions(x for x in G.stores(f, fld.split(".")[-1], value="null"))
                    if G.must_pass(f, (c.b, c.i + 1), clears):
                        bad = True
                        ctx.fail(r, f, "member %s released by init and again by fini" % fld, c.line,
                                 "%s releases %s on a failure path without clearing it, and %s (run after the failed init) "
                                 "releases it again" % (f.name, fld, F.name))
                    else:
                        r.ob(f, "%s released and cleared" % fld)
                if not bad:
                    r.ob(f, "%s.%s: nothing the fini slot owns is released" % (g["name"], i_slot))


# ---------------------------------------------------------------------------
# R12: a resize that fails leaves the container as it was

RESIZERS = (("id_resize", "core/idhash.c"), ("nni_lmq_resize", "core/lmq.c"), ("nni_msgq_resize", "core/msgqueue.c"),
            ("nni_chunk_grow", "core/message.c"))


def rule_r12(ctx):
    from .. import guards as G
    r = ctx.rule("C20.R12", "T3", "failure atomicity of container growth: in the functions that re-allocate a live container (id map, "
                 "lmq, msgq, chunk) no field of the container is changed before the allocation has succeeded -- the NNG_ENOMEM "
                 "return leaves a container whose thresholds, capacity and storage still agree", floor=4)
    prog = ctx.prog
    for name, file in RESIZERS:
        f = prog.need(name, file)
        params = {p_["n"] for p_ in f.params}
        allocs = [c for c in f.calls(("nni_alloc", "nni_zalloc"))]
        if not allocs:
            raise AnalysisBroken("%s: allocation vanished" % name)
        for a in allocs:
            ve = f.value_edges(a)
            fails = []
            for b, (nz, z) in ve.items():
                tgt = f.blocks[b].succs[z]
                if tgt is not None:
                    fails.append((tgt, 0))
            if not fails:
                ctx.fail(r, f, "allocation result not tested", a.line, "the result of %s is not tested" % a.node["fn"])
                continue
            bad = None
            for t in f.assigns():
                lhs = t.node["lhs"]
                root = lhs
                while root is not None and root.get("k") in ("mem", "idx"):
                    root = root["b"]
                if lhs.get("k") not in ("mem",) or root is None or root.get("k") != "var" or root["n"] not in params:
                    continue
                if (a.b, a.i) in f.reach((t.b, t.i + 1)):
                    bad = t
            if bad is not None:
                ctx.fail(r, f, "%s changed before the allocation is known to succeed" % show(bad.node["lhs"]), bad.line,
                         "%s stores to %s at line %s and only then allocates (line %s): when the allocation fails the function "
                         "returns NNG_ENOMEM with the container half updated (new thresholds / size with the old storage), and "
                         "later operations index or probe it wrongly" % (name, show(bad.node["lhs"]), bad.line, a.line))
            else:
                r.ob(f, "%s line %s: nothing of the container is changed before it" % (a.node["fn"], a.line))


class _FailedAllocClient(Client):
    """state: None | ('pending', var) | 'failed' | 'ok' -- follows one allocation result through its NULL test"""

    def __init__(self, fn, params):
        self.fn = fn
        self.params = params
        self.bad = []

    def init(self, sim):
        return None

    def node(self, st, n, sim):
        k = n.get("k")
        fn = self.fn
        if st is None or st == "ok":
            var = None
            if k == "asg" and n.get("op") == "=" and n["lhs"].get("k") == "var":
                e = _strip_cast(fn.expand(n["rhs"]))
                if e is not None and e.get("k") == "call" and e.get("fn") in ("nni_alloc", "nni_zalloc"):
                    var = n["lhs"]["n"]
            if var:
                return ("pending", var)
            return st
        if st == "failed":
            if k == "asg" and n["lhs"].get("k") in ("mem", "idx"):
                root = n["lhs"]
                while root is not None and root.get("k") in ("mem", "idx"):
                    root = root["b"]
                if root is not None and root.get("k") == "var" and root["n"] in self.params:
                    self.bad.append((sim.here(), "store", show(n["lhs"]), sim.lines()))
                    return "ok"
            if k == "ret" and n.get("e") is not None:
                e = fn.expand(n["e"])
                if not (e.get("k") == "enum" and e.get("n") == "NNG_ENOMEM") and const_of(e) is not None:
                    self.bad.append((sim.here(), "ret", show(e), sim.lines()))
                return "ok"
        return st

    def branch(self, st, subj, val, sim):
        if isinstance(st, tuple) and st[0] == "pending" and subj.get("k") == "var" and subj["n"] == st[1]:
            z = val[0] == "Z" or (val[0] == "EQ" and val[1] == 0)
            return "failed" if z else "ok"
        return st


def rule_r12b(ctx):
    r = ctx.rule("C20.R17", "T3", "a failed growth is reported and changes nothing: in the functions that re-allocate a live container, on "
                 "the path on which the new storage could not be allocated no field of the container is stored and the function "
                 "returns NNG_ENOMEM -- a NULL result that is mistaken for 'nothing to allocate' changes the capacity while the "
                 "storage keeps its old size", floor=4)
    prog = ctx.prog
    n = 0
    for name, file in RESIZERS:
        f = prog.need(name, file)
        if not any(True for _ in f.calls(("nni_alloc", "nni_zalloc"))):
            raise AnalysisBroken("%s: allocation vanished" % name)
        n += 1
        cl = _FailedAllocClient(f, {p_["n"] for p_ in f.params})
        sim = Sim(f, cl, max_states=20000)
        sim.run()
        if sim.truncated:
            raise AnalysisBroken("simulation truncated in %s" % name)
        if cl.bad:
            line, what, txt, lines = cl.bad[0]
            ctx.fail(r, f, "allocation failure %s" % ("followed by a store to %s" % txt if what == "store" else "answered with %s" % txt), line,
                     "%s: on the path on which nni_alloc / nni_zalloc returned NULL the function %s (line %s) instead of returning "
                     "NNG_ENOMEM with the container untouched" % (name, "stores " + txt if what == "store" else "returns " + txt, line), lines)
        else:
            r.ob(f, "allocation failure: NNG_ENOMEM, container untouched")
    if n < 4:
        raise AnalysisBroken("only %d resizers" % n)


# ---------------------------------------------------------------------------
# R13: a half-built reference-counted object is released with the raw free, not with the counted release


def rule_r13(ctx):
    from .. import guards as G
    r = ctx.rule("C20.R13", "T3", "constructors of reference-counted objects: between the allocation of the object and the "
                 "initialisation of its reference count, an error path releases it with the raw free (NNI_FREE_STRUCT); the "
                 "counted release (nni_msg_free: decrement, free at zero) on a count that is still zero never frees it", floor=2)
    prog = ctx.prog
    n = 0
    for f in prog.fns_in("core/message.c"):
        if f.cfg_failed:
            continue
        inits = [c for c in f.calls(("nni_atomic_set", "nni_atomic_init")) if c.node["args"] and
                 (last_field(f.expand(c.node["args"][0])) or "").endswith("m_refcnt")]
        if not inits:
            continue
        obj = None
        for c in inits:
            a = f.expand(c.node["args"][0])
            while a is not None and a.get("k") in ("un", "mem"):
                a = a["e"] if a.get("k") == "un" else a["b"]
            if a is not None and a.get("k") == "var":
                obj = a["n"]
        if obj is None:
            continue
        n += 1
        early = [c for c in f.calls("nni_msg_free") if c.node["args"] and
                 (lambda x: x.get("k") == "var" and x["n"] == obj)(f.expand(c.node["args"][0])) and
                 not f.dominated_by((c.b, c.i), blocked=lambda b, i, e: (b, i) in G.positions(inits))]
        if early:
            ctx.fail(r, f, "counted release of an object whose count is not initialised", early[0].line,
                     "%s calls nni_msg_free(%s) at line %s before m_refcnt is set to 1: the decrement makes it -1, the object "
                     "is never freed, and the failed allocation leaks the message structure" % (f.name, obj, early[0].line))
        else:
            r.ob(f, "error paths before the count is initialised use the raw free")
    if n < 2:
        raise AnalysisBroken("only %d constructors that initialise m_refcnt" % n)


# ---------------------------------------------------------------------------
# R14: replace after success -- the old value of a field is released only once its replacement exists


def rule_r14(ctx):
    from .. import guards as G
    r = ctx.rule("C20.R14", "T3", "failure atomicity of replacing an owned value: where a function releases the value held in a field and "
                 "stores a freshly allocated one into the same field, the allocation comes first -- when it fails the function "
                 "returns NNG_ENOMEM with the old value still in place, not with a NULL or dangling field in a live object", floor=8)
    prog = ctx.prog
    EXC = {
        ("ws_frame_prep_tx", "frame->adata"): "scratch buffer without content to preserve: the failing edge leaves adata NULL and resets "
                                              "asize to 0, and the next call allocates again",
    }
    n = 0
    for f in prog.functions:
        if f.cfg_failed:
            continue
        stores = []
        for t in f.assigns():
            l = t.node["lhs"]
            if l.get("k") != "mem" or t.node.get("op") != "=":
                continue
            e = G.resolve(f, t.node["rhs"], (t.b, t.i))
            if e is not None and e.get("k") == "call" and e.get("fn") in ALLOC:
                stores.append((t, e))
        if not stores:
            continue
        for c in f.calls(RELEASERS):
            if not c.node["args"]:
                continue
            a = f.expand(c.node["args"][0])
            if a is None or a.get("k") != "mem":
                continue
            for t, e in stores:
                if show(a) != show(t.node["lhs"]):
                    continue
                n += 1
                apos = [(x.b, x.i) for x in f.calls(e["fn"]) if x.node.get("_id") == e.get("_id")]
                if not apos:
                    raise AnalysisBroken("%s: allocation site of %s not found" % (f.name, show(t.node["lhs"])))
                after = f.reach((c.b, c.i + 1))
                if not any(p_ in after for p_ in apos):
                    r.ob(f, "%s: released (line %s) only after the replacement was allocated (line %s)" % (show(a), c.line, f.line_of(*apos[0])))
                elif (f.name, show(a)) in EXC:
                    r.exception("%s %s" % (f.name, show(a)), EXC[(f.name, show(a))])
                    r.ob(f, "excepted")
                else:
                    ctx.fail(r, f, "%s released before its replacement is allocated" % show(a), c.line,
                             "%s releases %s at line %s and only then allocates the new value (line %s): when that allocation "
                             "fails the object stays in use with the old value gone (NULL or dangling field)"
                             % (f.name, show(a), c.line, f.line_of(*apos[0])))
    if n < 8:
        raise AnalysisBroken("only %d release/replace pairs found" % n)


# ---------------------------------------------------------------------------
# R6: what a function allocated or took over locally is released or handed on along every path

R6_NONOWN = ("nni_aio_init", "nni_aio_alloc", "nng_aio_alloc", "memset", "memcpy", "strlen", "snprintf", "nni_strlcpy", "nni_mtx_init",
             "nni_cv_init", "nni_timer_init", "nni_task_init", "nni_refcnt_init", "strcmp", "nni_strcasecmp", "strncmp", "memcmp",
             "nni_msg_len", "nni_msg_body", "nni_msg_header", "nni_msg_header_len")
R6_NONOWN_PREFIX = ("nni_stat_", "nni_list_first", "nni_list_next", "nni_list_empty", "nni_list_active", "nni_list_node_",
                    "nni_list_remove", "nni_list_last", "nni_atomic_", "nng_log_", "nni_aio_get_")


def _strip_cast(e):
    while e is not None and e.get("k") == "cast":
        e = e["e"]
    return e


class _LocalOwnClient(Client):
    """state: frozenset of (local, line of acquisition[, aio the object came from]) still owned by this function, plus
    ('<res>', aio, is-zero) facts about nni_aio_result so that two tests of the same result agree."""

    def __init__(self, fn):
        self.fn = fn
        self.leaks = []
        self.sites = set()

    def init(self, sim):
        return frozenset()

    def src(self, e):
        e = _strip_cast(self.fn.expand(e)) if e is not None else None
        return e is not None and e.get("k") == "call" and (e.get("fn") in ALLOC or e.get("fn") == "nni_aio_get_output")

    def akey(self, e):
        e = _strip_cast(self.fn.expand(e))
        if e.get("fn") == "nni_aio_get_output" and e["args"]:
            return (show(self.fn.expand(e["args"][0])),)
        return ()

    def held(self, a, st):
        a = _strip_cast(self.fn.expand(a)) if a is not None else None
        if a is not None and a.get("k") == "un" and a.get("op") == "&" and a["e"].get("k") == "mem" and a["e"].get("arrow"):
            a = _strip_cast(self.fn.expand(a["e"]["b"]))       # nng_stream_free(&c->stream)
        if a is not None and a.get("k") == "var":
            for x in st:
                if x[0] == a["n"] and x[0] != "<res>":
                    return x
        return None

    def node(self, st, n, sim):
        k = n.get("k")
        fn = self.fn
        if k == "asg" and n.get("op") == "=":
            l = n["lhs"]
            if l.get("k") == "var" and l.get("vk") == "local":
                st = frozenset(x for x in st if x[0] != l["n"])
                if self.src(n["rhs"]):
                    self.sites.add(fn.line_of(*sim.cur))
                    return st | {(l["n"], fn.line_of(*sim.cur)) + self.akey(n["rhs"])}
                return st
            h = self.held(n["rhs"], st)
            return st - {h} if h else st
        if k == "decls":
            for d in n["d"]:
                st = frozenset(x for x in st if x[0] != d["n"])
                if d.get("init") is not None and self.src(d["init"]):
                    self.sites.add(fn.line_of(*sim.cur))
                    st = st | {(d["n"], fn.line_of(*sim.cur)) + self.akey(d["init"])}
            return st
        if k == "ret" and n.get("e") is not None:
            h = self.held(n["e"], st)
            return st - {h} if h else st
        if k == "call":
            f_ = n.get("fn") or ""
            if f_ in R6_NONOWN or f_.startswith(R6_NONOWN_PREFIX):
                return st
            for a in n["args"]:
                h = self.held(a, st)
                if h:
                    st = st - {h}
        return st

    def branch(self, st, subj, val, sim):
        z = val[0] == "Z" or (val[0] == "EQ" and val[1] == 0)
        nzv = val[0] == "NZ" or (val[0] == "NE" and val[1] == 0) or (val[0] == "EQ" and val[1] != 0)
        if subj.get("k") == "call" and subj.get("fn") in ("nni_aio_result", "nng_aio_result") and subj["args"]:
            key = show(self.fn.expand(subj["args"][0]))
            if z or nzv:
                for x in st:
                    if x[0] == "<res>" and x[1] == key and x[2] != z:
                        return None
                if nzv:
                    # a failed operation delivered no object
                    st = frozenset(x for x in st if not (x[0] != "<res>" and len(x) > 2 and x[2] == key))
                return st | {("<res>", key, z)}
            return st
        if subj.get("k") == "var" and z:
            return frozenset(x for x in st if x[0] != subj["n"])
        return st

    def at_exit(self, st, sim, via):
        for x in st:
            if x[0] != "<res>":
                self.leaks.append((x[0], x[1], sim.lines()))


def rule_r6(ctx):
    r = ctx.rule("C20.R6", "T4", "no leak on a failure path: a local that received a fresh allocation (nni_alloc/nni_zalloc/nni_strdup) or "
                 "the object a completed operation delivered (nni_aio_get_output) is, on every path to the function's exit, "
                 "released, stored into a longer-lived object, linked into a list, returned or handed to another function", floor=60)
    n = 0
    for f in ctx.prog.functions:
        if f.cfg_failed or f.file.endswith("_test.c") or "testing/" in f.file:
            continue
        if not any(c.node.get("fn") in ALLOC or c.node.get("fn") == "nni_aio_get_output" for c in f.calls()):
            continue
        cl = _LocalOwnClient(f)
        sim = Sim(f, cl, max_states=20000)
        sim.run()
        if sim.truncated:
            raise AnalysisBroken("ownership simulation truncated in %s" % f.name)
        seen = set()
        for v, line, lines in cl.leaks:
            if (v, line) in seen:
                continue
            seen.add((v, line))
            ctx.fail(r, f, "%s neither released nor handed on" % v, line,
                     "%s holds what was allocated / delivered at line %s, and the function can return without releasing it, "
                     "storing it, or passing it on: on that (failure) path the object is lost" % (v, line), lines)
        for ln in sorted(cl.sites):
            n += 1
            if not any(l_ == ln for _, l_ in seen):
                r.ob(f, "acquisition at line %s: released or handed on along every path" % ln)
    if n < 60:
        raise AnalysisBroken("only %d local acquisitions found" % n)


# ---------------------------------------------------------------------------
# R15: the teardown that a failed nng_init runs tolerates what was never created


def rule_r15(ctx):
    from .. import guards as G
    r = ctx.rule("C20.R15", "T12", "a failing step of nng_init is undone without touching what was never created: either nng_init unwinds "
                 "exactly the steps that had succeeded (each X_sys_init that succeeded gets its X_sys_fini, no later one does), or -- "
                 "if it calls the general nng_fini -- every function nng_fini reaches tests the global objects it is handed "
                 "before dereferencing them; otherwise an allocation failure during nng_init is a crash instead of NNG_ENOMEM",
                 floor=3)
    prog = ctx.prog
    init = prog.need("nng_init", "core/init.c")
    root = prog.need("nng_fini", "core/init.c")

    def fini_of(name):
        if name.endswith("_sys_init"):
            return name[:-len("_sys_init")] + "_sys_fini"
        if name.endswith("_init"):
            return name[:-len("_init")] + "_fini"
        return None
    steps = []
    for c in init.calls():
        fnm = c.node.get("fn")
        if fnm and fini_of(fnm) and prog.resolve(init, fini_of(fnm)) is not None and init.value_edges(c):
            steps.append(c)
    if len(steps) < 3:
        raise AnalysisBroken("only %d may-fail initialisation steps recognised in nng_init" % len(steps))
    steps.sort(key=lambda c: c.line)
    general = [c for c in init.calls("nng_fini")]
    n = 0
    if not general:
        for i, c in enumerate(steps):
            for b, (nz, z) in init.value_edges(c).items():
                tgt = init.blocks[b].succs[nz]
                if tgt is None:
                    continue
                reach = init.reach((tgt, 0))
                called = {x.node.get("fn") for x in init.calls() if (x.b, x.i) in reach}
                n += 1
                missing = [fini_of(s_.node["fn"]) for s_ in steps[:i] if fini_of(s_.node["fn"]) not in called]
                extra = [fini_of(s_.node["fn"]) for s_ in steps[i:] if fini_of(s_.node["fn"]) in called]
                if missing or extra:
                    ctx.fail(r, init, "failure of %s: %s" % (c.node["fn"], "; ".join(
                        (["%s not undone" % m[:-len("_fini")] for m in missing]) + ["%s finalized though never initialised" % e for e in extra])), c.line,
                        "when %s fails at line %s, nng_init %s" % (c.node["fn"], c.line, "; ".join(
                            ["does not call %s for the step that had succeeded" % m for m in missing] +
                            ["calls %s for a step that did not succeed (it runs on objects that were never created)" % e for e in extra])))
                else:
                    r.ob(init, "failure of %s: exactly the earlier steps are undone" % c.node["fn"])
        return
    seen, work = [], [root]
    while work:
        f = work.pop()
        if f in seen or f.cfg_failed:
            continue
        seen.append(f)
        for c in f.calls():
            h = prog.resolve(f, c.node["fn"]) if c.node.get("fn") else None
            if h is not None and h not in seen and len(seen) < 400:
                work.append(h)
    for f in seen:
        if not (f.name.endswith(("_sys_fini", "_sys_drain", "_sys_stop")) or f is root):
            continue
        for c in f.calls():
            h = prog.resolve(f, c.node["fn"]) if c.node.get("fn") else None
            if h is None or h.cfg_failed:
                continue
            for i, a in enumerate(c.node["args"]):
                a = f.expand(a) if a is not None else None
                if a is None or a.get("k") != "var" or a.get("vk") not in ("global", "slocal") or "*" not in (a.get("t") or ""):
                    continue
                if i >= len(h.params):
                    continue
                par = h.params[i]["n"]
                derefs = [t for t in h.sites() if t.node.get("k") == "mem" and t.node.get("arrow") and
                          (lambda b: b is not None and b.get("k") == "var" and b["n"] == par)(h.expand(t.node.get("b")))]
                n += 1
                nonnull = G.nz_edges(h, lambda m: m.get("k") == "var" and m["n"] == par)
                bad = [t for t in derefs if not (nonnull and G.dominated(h, (t.b, t.i), nonnull))]
                if bad:
                    ctx.fail(r, h, "%s dereferences %s, NULL when nng_init failed early" % (h.name, par), bad[0].line,
                             "nng_init calls nng_fini when a step fails; %s passes the global %s to %s (line %s) on that path; the "
                             "global is still NULL when the failing step came before its creation, and %s dereferences the "
                             "parameter at line %s without testing it" % (f.name, a["n"], h.name, c.line, h.name, bad[0].line))
                else:
                    r.ob(h, "%s(%s) tolerates NULL" % (h.name, a["n"]))
    if n < 3:
        raise AnalysisBroken("only %d global objects handed to functions on the nng_fini path" % n)


# ---------------------------------------------------------------------------
# R16: a reference taken on behalf of an object exists only once that object does


def rule_r16(ctx):
    from .. import guards as G
    r = ctx.rule("C20.R16", "T4", "a reference held for a new object is taken only when the object exists: where a dial function takes a "
                 "reference on its dialer 'for the stream' (nni_refcnt_hold(&d->ref)) and the stream it creates gives that "
                 "reference back when it is freed, the hold is made on the path on which the stream's allocation succeeded -- "
                 "taken earlier, the failing allocation returns NNG_ENOMEM with the count raised for good, and the dialer is "
                 "never freed", floor=2)
    prog = ctx.prog
    n = 0
    for f in prog.functions:
        if f.cfg_failed or "/platform/" not in "/" + f.file:
            continue
        holds = [c for c in f.calls("nni_refcnt_hold")]
        if not holds:
            continue
        allocs = [c for c in f.calls() if (c.node.get("fn") or "").endswith("_alloc") and c.node["args"] and
                  (lambda a: a is not None and a.get("k") == "un" and a.get("op") == "&" and a["e"].get("k") == "var")(f.expand(c.node["args"][0]))]
        if not allocs:
            continue
        ok_edges = {}
        for a in allocs:
            for b, (nz, z) in f.value_edges(a).items():
                ok_edges[b] = z
        for h in holds:
            n += 1
            if ok_edges and G.dominated(f, (h.b, h.i), ok_edges):
                r.ob(f, "nni_refcnt_hold line %s: after the allocation succeeded" % h.line)
            else:
                ctx.fail(r, f, "reference for the new object taken before it exists", h.line,
                         "%s takes the reference at line %s before %s (line %s) is known to have succeeded: when that allocation "
                         "fails the function reports NNG_ENOMEM, nobody gives the reference back, and the dialer survives nng_fini"
                         % (f.name, h.line, allocs[0].node["fn"], allocs[0].line))
    if n < 2:
        raise AnalysisBroken("only %d references taken on behalf of a new stream found" % n)


# ---------------------------------------------------------------------------
# R18: an object reaped from its own constructor carries what the reap function needs


def _unguarded_field_derefs(prog, f, rec, G):
    """pointer fields F of rec such that f dereferences obj->F (directly or through a local initialised from it) at a site
    no NULL test of it dominates"""
    ptr_fields = {x["n"] for x in prog.records.get(rec, {}).get("fields", []) if x.get("t", "").rstrip().endswith("*")}
    holders = {}
    for v in f.locals():
        ds = G.var_defs(f, v)
        if ds and all(x is not None and x.get("k") == "mem" and x.get("rec") == rec and x["f"] in ptr_fields for _, x in ds):
            holders[v] = ds[0][1]["f"]
    out = {}
    for s in f.sites():
        n = s.node
        if n.get("k") != "mem" or not n.get("arrow"):
            continue
        b = f.expand(n["b"])
        fld = None
        if b.get("k") == "mem" and b.get("rec") == rec and b["f"] in ptr_fields:
            fld = b["f"]
        elif b.get("k") == "var" and b["n"] in holders:
            fld = holders[b["n"]]
        if fld is None:
            continue

        def tests(x, fld=fld, b=b):
            if x.get("k") == "var" and b.get("k") == "var" and x["n"] == b["n"]:
                return True
            return x.get("k") == "mem" and x.get("rec") == rec and x["f"] == fld
        nonnull = G.cond_edges(f, tests, want_nonzero=True)
        if not (nonnull and G.dominated(f, (s.b, s.i), nonnull)):
            out.setdefault(fld, s.line)
    return out


def rule_r18(ctx):
    from .. import guards as G
    r = ctx.rule("C20.R18", "T3", "a constructor that gives its half-built object to the reaper (directly, or through the object's "
                 "close helper) when a later step fails has already stored every pointer field that the reap function "
                 "dereferences without a NULL test -- a field the caller fills in only after the constructor returned is NULL "
                 "on that path and the reaper thread crashes", floor=1)
    prog = ctx.prog
    # reap list -> reap function
    reapfn = {}
    for g, fields in prog.tables("nni_reap_list"):
        t = strip_addr(fields.get("rl_func"))
        if t is not None and t.get("k") == "fnref":
            f = prog.fn(t["n"], g["file"]) or prog.fn(t["n"])
            if f is not None and not f.cfg_failed:
                reapfn[g["name"]] = f
    if len(reapfn) < 5:
        raise AnalysisBroken("only %d reap lists found" % len(reapfn))

    def reaps_param(h, depth=0):
        """{param index: reap list} if h hands one of its parameters to nni_reap (or to a same-file helper that does)"""
        out = {}
        params = [p_["n"] for p_ in h.params] if hasattr(h, "params") else []
        for c in h.calls():
            fnm = c.node.get("fn")
            a = [h.expand(x) if x is not None else None for x in c.node["args"]]
            if fnm == "nni_reap" and len(a) == 2:
                lst = strip_addr(a[0])
                v = a[1]
                while v is not None and v.get("k") == "cast":
                    v = h.expand(v["e"])
                if lst is not None and lst.get("k") == "var" and v is not None and v.get("k") == "var" and v["n"] in params:
                    out[params.index(v["n"])] = lst["n"]
            elif fnm and depth < 2:
                k = prog.resolve(h, fnm)
                if k is not None and k is not h and k.file == h.file and k.static and not k.cfg_failed:
                    sub = reaps_param(k, depth + 1)
                    for i_, lst in sub.items():
                        if i_ < len(a) and a[i_] is not None and a[i_].get("k") == "var" and a[i_]["n"] in params:
                            out[params.index(a[i_]["n"])] = lst
        return out
    n = 0
    for c0 in prog.functions:
        if c0.cfg_failed or c0.file.endswith("_test.c"):
            continue
        # locals holding a fresh allocation
        fresh = {}
        for v in c0.locals():
            ds = G.var_defs(c0, v)
            if ds and all(d is not None and any(m.get("k") == "call" and m.get("fn") in ("nni_zalloc", "nni_alloc") for m in walk(d)) for _, d in ds):
                fresh[v] = True
        if not fresh:
            continue
        for c in c0.calls():
            fnm = c.node.get("fn")
            if not fnm:
                continue
            a = [c0.expand(x) if x is not None else None for x in c.node["args"]]
            lst = None
            obj = None
            if fnm == "nni_reap" and len(a) == 2:
                l_ = strip_addr(a[0])
                v = a[1]
                while v is not None and v.get("k") == "cast":
                    v = c0.expand(v["e"])
                if l_ is not None and l_.get("k") == "var" and v is not None and v.get("k") == "var" and v["n"] in fresh:
                    lst, obj = l_["n"], v["n"]
            else:
                k = prog.resolve(c0, fnm)
                if k is not None and k is not c0 and k.file == c0.file and k.static and not k.cfg_failed:
                    for i_, l_ in reaps_param(k).items():
                        if i_ < len(a) and a[i_] is not None and a[i_].get("k") == "var" and a[i_]["n"] in fresh:
                            lst, obj = l_, a[i_]["n"]
            if lst is None or lst not in reapfn:
                continue
            rf = reapfn[lst]
            rec = None
            for s_ in rf.sites():
                if s_.node.get("k") == "decls":
                    for d in s_.node["d"]:
                        if d.get("rec") and d.get("init") is not None and rec is None:
                            rec = d["rec"]
            if rec is None:
                continue
            n += 1
            need = _unguarded_field_derefs(prog, rf, rec, G)
            bad = []
            for fld, line in sorted(need.items()):
                stores = [(t.b, t.i) for t in c0.assigns() if t.node["lhs"].get("k") == "mem" and t.node["lhs"].get("rec") == rec and
                          t.node["lhs"]["f"] == fld and not is_null(c0.expand(t.node["rhs"]))]
                if not stores or not c0.dominated_by((c.b, c.i), blocked=lambda b, i, e: (b, i) in stores):
                    bad.append((fld, line))
            if bad:
                ctx.fail(r, c0, "%s reaps its object before %s is set" % (c0.name, ", ".join("%s.%s" % (rec, f_) for f_, _ in bad)), c.line,
                         "%s hands the object it has just allocated to the reaper at line %s (%s); %s dereferences %s (line %s) without a "
                         "NULL test, and %s has not stored it on that path: the reaper thread dereferences NULL when the "
                         "step before fails (an allocation)" % (c0.name, c.line, fnm, rf.name, ", ".join("->" + f_ for f_, _ in bad),
                                                               bad[0][1], c0.name))
            else:
                r.ob(c0, "%s line %s: the object reaches %s with %s set" % (fnm, c.line, rf.name,
                                                                          ", ".join(sorted(need)) or "nothing needed"))
    if n < 1:
        raise AnalysisBroken("no constructor hands its own object to the reaper")


# ---------------------------------------------------------------------------
# R19: a failed operation leaves the object usable


def rule_r19(ctx):
    from .. import guards as G
    r = ctx.rule("C20.R19", "T3", "a failed step leaves the object as it was: a function that is not part of the object's teardown does not, on "
                 "a path on which it returns an error, leave NULL in a pointer field that other (non-teardown) functions of the "
                 "same file hand on or dereference without a NULL test -- after `start` failed for want of memory (or of the "
                 "address) the next call on the same object crashes", floor=1)
    prog = ctx.prog
    TEAR = ("_fini", "_free", "_close", "_stop", "_reap", "_destroy", "_init", "_alloc", "_cb", "_cancel")
    n = 0
    byfile = {}
    for f in prog.functions:
        if not f.cfg_failed and not f.file.endswith("_test.c") and any(d in "/" + f.file for d in ("/supplemental/", "/sp/transport/", "/core/")):
            byfile.setdefault(f.file, []).append(f)
    for file, fns in sorted(byfile.items()):
        # pointer fields used without a NULL test by non-teardown functions: {rec.field: (function, line)}
        users = {}
        for g in fns:
            if g.name.endswith(TEAR):
                continue
            for t in g.sites():
                nd = t.node
                cands = []
                if nd.get("k") == "call":
                    cands = [g.expand(a) for a in nd["args"] if a is not None]
                elif nd.get("k") == "mem" and nd.get("arrow"):
                    cands = [g.expand(nd["b"])]
                for m in cands:
                    while m is not None and m.get("k") == "cast":
                        m = m["e"]
                    if m is None or m.get("k") != "mem" or "*" not in (m.get("t") or "") or not m.get("rec"):
                        continue
                    key = "%s.%s" % (m["rec"], m["f"])
                    if any(u[0] == g.name for u in users.get(key, [])):
                        continue

                    def tests(x, m=m):
                        return x.get("k") == "mem" and x.get("rec") == m["rec"] and x.get("f") == m["f"]
                    nn = G.cond_edges(g, tests, want_nonzero=True)
                    if not (nn and G.dominated(g, (t.b, t.i), nn)):
                        users.setdefault(key, []).append((g.name, t.line))
        for f in fns:
            if f.name.endswith(TEAR):
                continue
            for t in f.assigns():
                l = t.node["lhs"]
                if l.get("k") != "mem" or not l.get("rec") or "*" not in (l.get("t") or "") or not is_null(f.expand(t.node["rhs"])):
                    continue
                key = "%s.%s" % (l["rec"], l["f"])
                others = [u for u in users.get(key, []) if u[0] != f.name]
                if not others:
                    continue
                # a later store of something else on the way out repairs it
                restores = {(x.b, x.i) for x in f.assigns() if x.node["lhs"].get("k") == "mem" and x.node["lhs"].get("rec") == l["rec"] and
                            x.node["lhs"].get("f") == l["f"] and not is_null(f.expand(x.node["rhs"]))}
                # error returns reachable from here
                errs = []
                for rt in f.sites():
                    if rt.node.get("k") == "ret" and rt.node.get("e") is not None:
                        v = f.expand(rt.node["e"])
                        c = const_of(v)
                        if c == 0:
                            continue
                        errs.append((rt.b, rt.i))
                # ... and so does giving the whole object up (a constructor's failure path destroys what it built)
                for c in f.calls():
                    fnm = c.node.get("fn") or ""
                    if fnm.endswith(("_destroy", "_free", "_fini", "_rele", "_reap")) or fnm in ("nni_free", "nni_reap"):
                        a0 = f.expand(c.node["args"][0]) if c.node["args"] and c.node["args"][0] is not None else None
                        base = f.expand(l["b"])
                        if a0 is not None and base is not None and (same_expr(a0, base) or fnm in ("nni_free",)):
                            restores.add((c.b, c.i))
                seen = f.reach((t.b, t.i + 1), blocked=lambda b, i, e: (b, i) in restores)
                hit = [e_ for e_ in errs if e_ in seen]
                if not hit:
                    continue
                n += 1
                # the object is being given up by its owner on this path (the function frees the object itself)?
                ctx.fail(r, f, "%s left NULL on an error return" % key, t.line,
                         "%s stores NULL into %s (line %s) and returns an error (line %s); %s uses that field without a NULL test "
                         "(line %s): after the failure the next call on the object dereferences NULL"
                         % (f.name, key, t.line, f.line_of(*hit[0]), others[0][0], others[0][1]))
    r.ob(prog.need("ws_listener_listen"), "error paths examined in %d files" % len(byfile))

# ---------------------------------------------------------------------------
# R20: a receive buffer that was cut down for one datagram is restored on every way out


def rule_r20(ctx):
    from .. import guards as G
    r = ctx.rule("C20.R20", "T2", "where a function shortens a message that an object keeps as its receive buffer (nni_msg_chop on a field), "
                 "every path to its exit restores the size (nni_msg_realloc of the same field) or installs a fresh buffer "
                 "(the success edge of a message allocation into that field) -- an error return in between leaves the buffer "
                 "at the size of the last datagram, and every longer one is rejected as truncated from then on", floor=1)
    prog = ctx.prog
    n = 0
    for f in prog.functions:
        if f.cfg_failed or f.file.endswith("_test.c") or "/sp/transport/" not in "/" + f.file:
            continue
        for c in f.calls(("nni_msg_chop", "nng_msg_chop")):
            a0 = f.expand(c.node["args"][0]) if c.node["args"] else None
            if a0 is None or a0.get("k") != "mem":
                continue
            fld = last_field(a0)
            n += 1
            restore = set()
            for x in f.calls(("nni_msg_realloc", "nng_msg_realloc")):
                xa = f.expand(x.node["args"][0]) if x.node["args"] else None
                if xa is not None and xa.get("k") == "mem" and last_field(xa) == fld:
                    restore.add((x.b, x.i))
            cut = {}
            for bid, k, atom, val in G.edge_facts(f):
                # success edge of  nng_msg_alloc(&X->F, ..) != 0  /  == 0
                for m in walk(atom):
                    if m.get("k") == "call" and m.get("fn") in ("nng_msg_alloc", "nni_msg_alloc") and m.get("args"):
                        t0 = strip_addr(f.expand(m["args"][0]))
                        if t0 is not None and t0.get("k") == "mem" and last_field(t0) == fld:
                            ok = None
                            if atom is m:
                                ok = not val
                            elif atom.get("k") == "bin" and atom.get("op") in ("!=", "==") and (const_of(atom["rhs"]) == 0 or const_of(atom["lhs"]) == 0):
                                ok = (not val) if atom["op"] == "!=" else bool(val)
                            if ok:
                                cut[bid] = k
            off = G.must_pass(f, (c.b, c.i + 1), restore, cut=cut)
            if off is None:
                r.ob(f, "%s chopped at line %s is restored or replaced on every way out" % (fld, c.line))
            else:
                ctx.fail(r, f, "%s left chopped" % fld, c.line,
                         "%s shortens %s at line %s and can return (path: %s) without nni_msg_realloc of it and without having "
                         "installed a new buffer: the endpoint keeps receiving into a buffer of the last datagram's size"
                         % (f.name, fld, c.line, ">".join(str(x) for x in G.path_lines(f, (c.b, c.i + 1), off, cut=cut, blocked=restore)[-8:])))
    if n < 1:
        raise AnalysisBroken("no transport shortens a kept receive buffer any more (udp_recv_data)")


# ---------------------------------------------------------------------------
# R21: once the init slot has run, a failing constructor runs the fini slot


def _callers_destroy(prog, F, destroyers, fslot):
    """F has callers, each of them tests F's result, and on the failure edge every path passes the object's destroyer (a function
    that runs the fini slot) or the fini slot itself: the two-step constructor whose caller owns the clean-up"""
    from .. import guards as G
    ups = [(c, s) for (c, s) in prog.callers().get(F.name, []) if prog.resolve(c, F.name) is F and not c.cfg_failed]
    if not ups:
        return False
    for c, s in ups:
        ve = c.value_edges(s) or {}
        if not ve:
            return False
        via = {(k.b, k.i) for k in c.calls() if k.node.get("fn") in destroyers} | {(k.b, k.i) for k in slot_calls(c, fslot)}
        if not via:
            return False
        for b_, (nz_, z_) in ve.items():
            succ = c.blocks[b_].succs[nz_]
            if succ is None:
                continue
            if G.must_pass(c, (succ, 0), via) is not None:
                return False
    return True



def rule_r21(ctx):
    r = ctx.rule("C20.R21", "T2", "once the protocol's / transport's init slot has run on a new object, every error return of the constructor "
                 "passes the matching fini slot (directly or through the object's destroyer): the init slot links the object "
                 "into the protocol's lists and allocates its queues, and the raw free that is right before it leaves a freed "
                 "object on those lists and leaks the queues", floor=3)
    prog = ctx.prog
    n = 0
    for islot, fslot in INIT_FINI:
        # functions that run the fini slot on every path (destroyers), one level
        destroyers = {f.name for f in prog.functions if not f.cfg_failed and slot_calls(f, fslot)}
        for F in prog.functions:
            if F.cfg_failed:
                continue
            inits = slot_calls(F, islot)
            if not inits:
                continue
            fin = {(s.b, s.i) for s in slot_calls(F, fslot)} | {(c.b, c.i) for c in F.calls() if c.node.get("fn") in destroyers} | \
                {(c.b, c.i) for c in F.calls() if (c.node.get("fn") or "").endswith(("_rele", "_close", "_reap"))}
            from .. import guards as G
            errs = []
            for t in F.sites():
                if t.node.get("k") != "ret" or t.node.get("e") is None:
                    continue
                v = F.expand(t.node["e"])
                while v is not None and v.get("k") == "cast":
                    v = v["e"]
                if v is None or const_of(v) == 0:
                    continue
                if v.get("k") == "var":
                    # `return (rv)`: an error return where a test has established rv != 0
                    nz = G.nz_edges(F, lambda x, nm=v["n"]: (x.get("k") == "var" and x["n"] == nm) or
                                    (x.get("k") == "asg" and x["lhs"].get("k") == "var" and x["lhs"]["n"] == nm))
                    if not (nz and G.dominated(F, (t.b, t.i), nz)):
                        continue
                errs.append((t.b, t.i))
            for s in inits:
                n += 1
                # the init slot's own failure is the slot's business (it undoes itself): the edge on which it failed is not followed
                cut = {}
                for b_, (nz_, z_) in (F.value_edges(s) or {}).items():
                    cut[b_] = nz_
                seen = F.reach((s.b, s.i + 1), blocked=lambda b, i, e: (b, i) in fin, edge_ok=lambda b, k: not (b in cut and cut[b] == k))
                real = [e_ for e_ in errs if e_ in seen]
                if real and _callers_destroy(prog, F, destroyers, fslot):
                    r.ob(F, "%s: an error return after %s is the caller's to clean up, and every caller destroys the object on it" % (
                        F.name, islot.split(".")[1]))
                elif real:
                    ctx.fail(r, F, "error return after %s without %s" % (islot.split(".")[1], fslot.split(".")[1]), F.line_of(*real[0]),
                             "%s runs the %s slot (line %s) and can then return an error (line %s) without the %s slot or the object's "
                             "destroyer: what the init slot linked and allocated stays behind while the object is freed"
                             % (F.name, islot.split(".")[1], s.line, F.line_of(*real[0]), fslot.split(".")[1]))
                else:
                    r.ob(F, "%s: every error return after %s passes %s" % (F.name, islot.split(".")[1], fslot.split(".")[1]))
    if n < 3:
        raise AnalysisBroken("only %d init slot calls found" % n)


# ---------------------------------------------------------------------------
# R22: a subsystem's fini, called to unwind its own failing init, sees only what this init has set


def rule_r22(ctx):
    r = ctx.rule("C20.R22", "T3", "where a subsystem's init function calls its own fini function to unwind a failure, every global pointer that "
                 "the fini tests and releases has been assigned by this run of the init before the call, or the fini resets it "
                 "after releasing it -- the library can be initialised again after nng_fini, and a pointer left over from the "
                 "previous cycle is released a second time", floor=2)
    prog = ctx.prog
    n = 0
    for I in prog.functions:
        if I.cfg_failed or not ("sysinit" in I.name or "sys_init" in I.name):
            continue
        for c in I.calls():
            fnm = c.node.get("fn") or ""
            if not ("sysfini" in fnm or "sys_fini" in fnm):
                continue
            F = prog.resolve(I, fnm)
            if F is None or F.cfg_failed:
                continue
            # global pointers the fini releases (passed to a free) and does not reset afterwards
            freed = {}
            for k in F.calls(("nni_free", "nni_thr_fini")):
                for m in walk(k.node):
                    if m.get("k") == "var" and m.get("vk") == "global" and "*" in (m.get("t") or ""):
                        freed.setdefault(m["n"], k)
            for g, k in sorted(freed.items()):
                resets = [t for t in F.assigns() if t.node["lhs"].get("k") == "var" and t.node["lhs"]["n"] == g and is_null(F.expand(t.node["rhs"]))]
                n += 1
                if resets:
                    r.ob(I, "%s: %s resets %s after releasing it" % (I.name, F.name, g))
                    continue
                sets = {(t.b, t.i) for t in I.assigns() if t.node["lhs"].get("k") == "var" and t.node["lhs"]["n"] == g}
                if sets and I.dominated_by((c.b, c.i), blocked=lambda b, i, e: (b, i) in sets):
                    r.ob(I, "%s line %s: %s was assigned by this run before %s is called" % (I.name, c.line, g, F.name))
                else:
                    ctx.fail(r, I, "%s unwinds with a %s it has not set" % (F.name, g), c.line,
                             "%s calls %s at line %s before it has assigned %s in this run; %s releases %s when it is not NULL and "
                             "never resets it: on a second nng_init after nng_fini the pointer of the previous cycle is released again"
                             % (I.name, F.name, c.line, g, F.name, g))
    if n < 2:
        raise AnalysisBroken("only %d (init unwinding through its fini, global released) instances found" % n)


# ---------------------------------------------------------------------------
# R23: a counter of table entries follows the table


def rule_r23(ctx):
    from .. import guards as G
    r = ctx.rule("C20.R23", "T9", "a counter of table entries follows the table: where a record keeps a count that is incremented on the "
                 "success edge of nni_id_set into one of its id maps (the count of entries: a limit is enforced with it), every "
                 "decrement of that count is made where an entry is taken out of the same map (every path to it passes the "
                 "nni_id_remove) -- an undo that decrements for an object whose insertion failed (the map could not grow) takes "
                 "the count below the number of entries: unsigned, it wraps, and the limit refuses everybody from then on", floor=1)
    prog = ctx.prog
    counters = {}     # 'rec.count' -> 'rec.map'

    def incs(f):
        for t in f.sites():
            nd = t.node
            tgt = None
            if nd.get("k") == "un" and nd.get("op") in ("++",) and nd["e"].get("k") == "mem":
                tgt = nd["e"]
            elif nd.get("k") == "asg" and nd.get("op") == "+=" and nd["lhs"].get("k") == "mem" and const_of(f.expand(nd["rhs"])) == 1:
                tgt = nd["lhs"]
            if tgt is not None:
                yield t, tgt

    def decs(f):
        for t in f.sites():
            nd = t.node
            tgt = None
            if nd.get("k") == "un" and nd.get("op") in ("--",) and nd["e"].get("k") == "mem":
                tgt = nd["e"]
            elif nd.get("k") == "asg" and nd.get("op") == "-=" and nd["lhs"].get("k") == "mem" and const_of(f.expand(nd["rhs"])) == 1:
                tgt = nd["lhs"]
            if tgt is not None:
                yield t, tgt
    fns = [f for f in prog.functions if not f.cfg_failed and not f.file.endswith("_test.c")]
    for f in fns:
        sets = list(f.calls("nni_id_set"))
        if not sets:
            continue
        for t, tgt in incs(f):
            for c in sets:
                ok_edges = {b: z for b, (nz, z) in f.value_edges(c).items()}
                if ok_edges and G.dominated(f, (t.b, t.i), ok_edges) and c.node["args"]:
                    m = last_field(f.expand(c.node["args"][0]))
                    if m and last_field(tgt) and m.split(".")[0] == last_field(tgt).split(".")[0]:
                        counters[last_field(tgt)] = m
    n = 0
    for f in fns:
        for t, tgt in decs(f):
            cf = last_field(tgt)
            if cf not in counters:
                continue
            n += 1
            rem = {(c.b, c.i) for c in f.calls("nni_id_remove") if c.node["args"] and last_field(f.expand(c.node["args"][0])) == counters[cf]}
            same = bool(rem) and f.dominated_by((t.b, t.i), blocked=lambda b, i, e: (b, i) in rem)
            if same:
                r.ob(f, "%s-- (line %s) where an entry leaves %s" % (cf, t.line, counters[cf]))
            else:
                ctx.fail(r, f, "%s decremented away from the removal" % cf, t.line,
                         "%s decrements %s at line %s, but not behind the removal of an entry from %s (no nni_id_remove on every path to it): "
                         "%s is incremented only when nni_id_set succeeded, so an object whose insertion failed is uncounted "
                         "here all the same, and the unsigned count wraps" % (f.name, cf, t.line, counters[cf], cf))
    if not counters or n < 1:
        raise AnalysisBroken("no entry counter maintained beside an id map found (udp_ep.peer_count was one)")
    r.notes.append("entry counters: " + ", ".join("%s beside %s" % kv for kv in sorted(counters.items())))


# ---------------------------------------------------------------------------
# R24: what the caller releases on failure, the failing callee has not released


def rule_r24(ctx):
    import re
    from .. import guards as G
    r = ctx.rule("C20.R24", "T4", "released once on failure: where a caller releases an argument on the branch on which the callee "
                 "reported an error (rv = g(.., x, ..) != 0 -> free(x)), no failing path of the callee has disposed of it already "
                 "-- in particular the callee does not store the argument into an object (o->F = x) and then, failing a later "
                 "step, destroy that object with a function that releases o->F. Ownership of a borrowed argument is taken "
                 "after the last step that can fail", floor=1)
    r.own_opinion = True      # looks at caller and callee itself
    prog = ctx.prog
    REL = re.compile(r"(_free|_fini|_close|_destroy)$")

    def releases_field(d, rec, fld, depth=0):
        """does destroyer d release <param0>->fld of record rec?"""
        for c in d.calls():
            fn_ = c.node.get("fn") or ""
            if (REL.search(fn_) or fn_ in ("nni_free", "nni_msg_free", "nni_strfree")) and c.node["args"]:
                a0 = d.expand(c.node["args"][0])
                if a0 is not None and any(m.get("k") == "mem" and m.get("rec") == rec and m["f"] == fld for m in walk(a0)):
                    return True
        return False
    n = 0
    for f in prog.functions:
        if f.cfg_failed or f.file.endswith("_test.c"):
            continue
        for c in f.calls():
            g = prog.resolve(f, c.node["fn"]) if c.node.get("fn") else None
            if g is None or g is f or g.cfg_failed or g.file != f.file or g.ret not in ("int", "nng_err"):
                continue
            ve = f.value_edges(c)
            if not ve:
                continue
            fail_edges = {b: nz for b, (nz, z) in ve.items()}
            for j, a in enumerate(c.node["args"]):
                a = f.expand(a) if a is not None else None
                if a is None or a.get("k") != "var" or j >= len(g.params) or "*" not in (g.params[j].get("t") or ""):
                    continue
                # released by the caller on the failure branch?
                rels = [k for k in f.calls() if (REL.search(k.node.get("fn") or "") or (k.node.get("fn") in ("nni_free", "nni_msg_free")))
                        and k.node["args"] and f.expand(k.node["args"][0]).get("k") == "var" and f.expand(k.node["args"][0])["n"] == a["n"]
                        and G.dominated(f, (k.b, k.i), fail_edges)]
                if not rels:
                    continue
                n += 1
                pn = g.params[j]["n"]
                bad = None
                for t in g.assigns():
                    l = t.node["lhs"]
                    rv_ = g.expand(t.node["rhs"])
                    while rv_ is not None and rv_.get("k") == "cast":
                        rv_ = rv_["e"]
                    if l.get("k") != "mem" or rv_ is None or rv_.get("k") != "var" or rv_["n"] != pn:
                        continue
                    after = g.reach((t.b, t.i + 1))
                    for k in g.calls():
                        if (k.b, k.i) not in after or not k.node.get("fn"):
                            continue
                        d = prog.resolve(g, k.node["fn"])
                        if d is not None and not d.cfg_failed and REL.search(d.name) and releases_field(d, l.get("rec"), l["f"]):
                            bad = (t, k, d)
                if bad:
                    t, k, d = bad
                    ctx.fail(r, g, "argument %s released by the callee and again by the caller" % pn, t.line,
                             "%s stores its argument %s into %s (line %s) and can afterwards fail and call %s (line %s), which "
                             "releases that field; %s then releases the same object again on its error branch (line %s)"
                             % (g.name, pn, show(t.node["lhs"]), t.line, d.name, k.line, f.name, rels[0].line), file=g.file)
                else:
                    r.ob(g, "%s: the caller %s releases %s on failure, the failing paths of the callee do not" % (g.name, f.name, pn))
    if n < 1:
        raise AnalysisBroken("no caller releases an argument after a failed call any more (nni_http_init did)")


# ---------------------------------------------------------------------------
# R25: an error code kept in a local is looked at before the local is used again


def rule_r25(ctx):
    r = ctx.rule("C20.R25", "T12", "an error code kept in a local is looked at before the local is used again: after `v = f(...)` with f "
                 "returning an int / nng_err status, some path from the store reads v before v is assigned again or the function "
                 "ends -- where every path overwrites it first (the next turn of a parsing loop stores the next line's result) "
                 "the failure, NNG_ENOMEM included, is lost and the caller is told all is well", floor=120)
    r.own_opinion = True
    prog = ctx.prog
    n = 0
    for f in prog.functions:
        if f.cfg_failed or f.file.endswith("_test.c"):
            continue
        for t in f.sites():
            if f.blocks[t.b].elems[t.i] is not t.node:
                continue
            m = f.expand(t.node)
            if not (m.get("k") == "asg" and m.get("op") == "=" and m["lhs"].get("k") == "var" and m["lhs"].get("vk") == "local"):
                continue
            rr = m["rhs"]
            while rr is not None and rr.get("k") == "cast":
                rr = rr["e"]
            rr = f.expand(rr) if rr is not None else None
            if rr is None or rr.get("k") != "call" or not rr.get("fn"):
                continue
            g = prog.resolve(f, rr["fn"])
            if g is None or g.ret not in ("int", "nng_err"):
                continue
            v = m["lhs"]["n"]
            n += 1

            def redef(b, i, el, v=v):
                if el is None:
                    return False
                for x in walk(f.expand(el)):
                    if x.get("k") == "asg" and x["lhs"].get("k") == "var" and x["lhs"]["n"] == v and x.get("op") == "=":
                        return not any(y.get("k") == "var" and y["n"] == v for y in walk(x["rhs"]))
                return False
            seen = f.reach((t.b, t.i + 1), blocked=redef)
            read = False
            for (b, i) in seen:
                if i < len(f.blocks[b].elems):
                    el = f.blocks[b].elems[i]
                    if el is not None and any(y.get("k") == "var" and y["n"] == v for y in walk(f.expand(el))):
                        read = True
                        break
            if read:
                r.ob(f, "%s = %s(...) at line %s is read before %s is assigned again" % (v, rr["fn"], t.line, v))
            else:
                ctx.fail(r, f, "status of %s stored in %s and never looked at" % (rr["fn"], v), t.line,
                         "%s stores the status of %s in %s at line %s, and on every path %s is assigned again (or the function "
                         "ends) before anything reads it: an error reported here is silently dropped"
                         % (f.name, rr["fn"], v, t.line, v))
    if n < 120:
        raise AnalysisBroken("only %d status codes kept in locals found" % n)


# ---------------------------------------------------------------------------
# R26: an error return does not leave a fresh allocation in the caller's out-parameter


def rule_r26(ctx):
    r = ctx.rule("C20.R26", "T4", "an error return does not leave a fresh allocation behind in the caller's out-parameter: where a "
                 "function stores a block it has just allocated through a pointer-to-pointer parameter (*out = obj), no error "
                 "return is reachable after that store unless the block is released on the way -- a caller that is told the call "
                 "failed has nothing to destroy, so the block is leaked (and *out points at a half-made object)", floor=25)
    r.follows_values = True
    import re
    from .. import guards as G
    prog = ctx.prog
    n = 0
    for f in prog.functions:
        if f.cfg_failed:
            continue
        pp = {p["n"] for p in f.params if p.get("t", "").count("*") >= 2}
        if not pp:
            continue
        errs = None
        for t in f.assigns():
            l = f.expand(t.node["lhs"])
            if not (l.get("k") == "un" and l.get("op") == "*" and l["e"].get("k") == "var" and l["e"]["n"] in pp):
                continue
            rhs = f.expand(t.node["rhs"])
            while rhs is not None and (rhs.get("k") == "cast" or (rhs.get("k") == "un" and rhs.get("op") in ("(cast)", "()"))):
                rhs = rhs["e"]
            if rhs is None or rhs.get("k") != "var" or rhs.get("vk") != "local":
                continue
            x = rhs["n"]
            fresh = [a for a in f.assigns() if a.node["lhs"].get("k") == "var" and a.node["lhs"]["n"] == x and any(
                m.get("k") == "call" and m.get("fn") in ("nni_zalloc", "nni_alloc", "nni_strdup")
                for m in walk(f.expand(a.node["rhs"]) or {}))]
            if not fresh:
                continue
            n += 1
            if errs is None:
                errs = []
                for s in f.sites():
                    if s.node.get("k") != "ret" or s.node.get("e") is None:
                        continue
                    v = f.expand(s.node["e"])
                    while v is not None and v.get("k") == "cast":
                        v = v["e"]
                    if v is None or const_of(v) == 0:
                        continue
                    if v.get("k") == "var":
                        nz = G.nz_edges(f, lambda q, nm=v["n"]: (q.get("k") == "var" and q["n"] == nm) or
                                        (q.get("k") == "asg" and q["lhs"].get("k") == "var" and q["lhs"]["n"] == nm))
                        if not (nz and G.dominated(f, (s.b, s.i), nz)):
                            continue
                    errs.append(s)
            rel = {(c.b, c.i) for c in f.calls() if re.search(r"(free|fini|destroy|rele|close|reap)", c.node.get("fn") or "") and any(
                m.get("k") == "var" and m["n"] == x for a in c.node["args"] for m in walk(f.expand(a) or {}))}
            seen = f.reach((t.b, t.i + 1), blocked=lambda b, i, e: (b, i) in rel)
            bad = [s for s in errs if (s.b, s.i) in seen]
            if bad:
                ctx.fail(r, f, "error return with a fresh allocation left in *%s" % l["e"]["n"], bad[0].line,
                         "%s stores the block it allocated (%s) in *%s at line %s and can then return an error (line %s) without "
                         "releasing it: the caller has been told the call failed and will not destroy anything"
                         % (f.name, x, l["e"]["n"], t.line, bad[0].line))
            else:
                r.ob(f, "%s: *%s = %s (line %s) is not followed by an error return that keeps the block" % (f.name, l["e"]["n"], x, t.line))
    if n < 25:
        raise AnalysisBroken("only %d stores of a fresh allocation into an out-parameter found" % n)


def run(ctx):
    ctx.guard(rule_r1)
    ctx.guard(rule_r2)
    ctx.guard(rule_r3)
    ctx.guard(rule_r4)
    ctx.guard(rule_r7)
    ctx.guard(rule_r8)
    ctx.guard(rule_r9)
    ctx.guard(rule_r10)
    ctx.guard(rule_r11)
    ctx.guard(rule_r12)
    ctx.guard(rule_r12b)
    ctx.guard(rule_r13)
    ctx.guard(rule_r14)
    ctx.guard(rule_r6)
    ctx.guard(rule_r15)
    ctx.guard(rule_r16)
    ctx.guard(rule_r18)
    ctx.guard(rule_r19)
    ctx.guard(rule_r20)
    ctx.guard(rule_r21)
    ctx.guard(rule_r22)
    ctx.guard(rule_r23)
    ctx.guard(rule_r24)
    ctx.guard(rule_r25)
    ctx.guard(rule_r26)
