"""C16 -- WebSocket/HTTP codecs (narrow)."""
from ..core import walk, show, const_of, last_field, truth_of, apath, is_null, AnalysisBroken, same_expr
from .. import guards as G
from . import c04, c11

EXPLANATION = ("C16 (narrow): websocket frame checks (minimal length encoding, maxframe, message total, mask/role) precede the "
               "payload allocation and each failing edge closes; the opcode kept for dispatch retains the reserved bits (or they "
               "are tested explicitly) and the dispatch covers every ws_type with a closing default; control frames are limited "
               "to 125 bytes both ways; client frames are masked and server frames are not; the chunk decoder covers every "
               "state, guards its multiplication and allocation; the line scanner indexes only below n; the buffer "
               "bookkeeping of the HTTP reader advances all cursors of one transfer by the same count. Segmentation "
               "independence and exact reassembly are value-level and not decided."
               " Also: control frames leave the reassembly flag alone (R9); a request refused on a kept connection has its body accounted for (R10).")
EXPLANATION += ' Round 3: Content-Length is used only after a complete numeric conversion (R11); the chunk decoder enters CS_LEN only over the first-character test (R12).'
EXPLANATION += " Round 6: masking happens in the frame's own storage (R17); a head is formatted into the fixed buffer only over the strict edge length < size (R18); the read buffer is found full only after compaction (R19); a line's parse status is not overwritten by the next line's (R20 = C20.R25)."

WS = "supplemental/websocket/websocket.c"


def rule_r1(ctx):
    r = ctx.rule("C16.R1", "T1", "frame checks precede payload: in ws_read_cb the payload allocation / payload read is dominated by "
                 "the minimal-length tests (127 => len >= 65536, 126 => len >= 126), the maxframe test and the mask/role tests, "
                 "and each failing edge reaches ws_close", floor=8)
    prog = ctx.prog
    f = prog.need("ws_read_cb", WS)
    pay = [s for s in f.calls("nni_alloc")] + [t for t in f.assigns() if G.field_is(t.node["lhs"], "buf") and "sdata" in show(f.expand(t.node["rhs"]))]
    G.need_sites(pay, "payload buffer selection", f)
    closes = G.positions(f.calls("ws_close"))
    tests = []
    for b in f.blocks.values():
        c = f.cond(b.id) if b.term and len(b.succs) == 2 else None
        if c is None:
            continue
        if c.get("k") == "bin" and c["op"] == "<" and G.field_is(c["lhs"], "len") and const_of(c["rhs"]) in (65536, 126):
            tgt0 = b.succs[0]
            if tgt0 is not None and G.must_pass(f, (tgt0, 0), closes) is None:
                tests.append(("minimal encoding (< %d)" % const_of(c["rhs"]), b.id, 0))
        if c.get("k") == "bin" and c["op"] == ">" and G.field_is(c["lhs"], "len") and G.field_is(c["rhs"], "maxframe"):
            tests.append(("len > maxframe", b.id, None))
        t = truth_of(c, lambda n: n.get("k") == "mem" and n["f"] == "server")
        if t:
            tests.append(("mask/role (%s)" % show(c), b.id, None))
    # the same tests behind a validity predicate: `if (!helper(frame)) { ws_close ... }` with helper returning the comparison
    for b, k_true, h, call in G.predicate_calls(f, prog):
        consts = set()
        for atom, val in G.returned_atoms(h):
            if atom.get("k") == "bin" and G.field_is(atom["lhs"], "len") and const_of(atom["rhs"]) in (65536, 126) and \
                    ((atom["op"] == ">=" and val) or (atom["op"] == "<" and not val)):
                consts.add(const_of(atom["rhs"]))
        if consts == {65536, 126}:
            bad = f.blocks[b].succs[1 - k_true]
            if bad is not None and G.must_pass(f, (bad, 0), closes) is None:
                for cst in sorted(consts):
                    tests.append(("minimal encoding (< %d via %s)" % (cst, h.name), b, 1 - k_true))
    kinds = {t[0].split(" (")[0] for t in tests}
    for need in ("minimal encoding", "len > maxframe", "mask/role"):
        if need not in kinds:
            ctx.fail(r, f, "%s test missing" % need, f.line, "ws_read_cb no longer performs the %s check" % need)
    bykind = {}
    for what, b, bad_edge in tests:
        bykind.setdefault(what.split(" (")[0], set()).add((b, max(len(f.blocks[b].elems) - 1, 0)))
    # the minimal-encoding tests sit in the cases of the length switch: what must precede the payload is the switch itself
    sw = {(b.id, max(len(b.elems) - 1, 0)) for b in f.blocks.values() if b.term and b.term.get("kind") == "SwitchStmt"}
    if sw:
        bykind["minimal encoding"] = sw
    for kind, poss in bykind.items():
        for s in pay:
            if not G.reaches(f, (f.entry, 0), [(s.b, s.i)], blocked=poss):
                r.ob(f, "payload line %s preceded by the %s check" % (s.line, kind))
            else:
                ctx.fail(r, f, "payload before %s" % kind, s.line, "the frame payload buffer is chosen without evaluating the %s check" % kind)
    # a frame without payload is a frame: once its header has been decoded (the length switch), the frame is not handed on
    # (ws_read_frame_cb) in the same pass without the maxframe and mask/role checks having been evaluated
    done = [c for c in f.calls("ws_read_frame_cb")]
    if sw and done:
        for kind in ("len > maxframe", "mask/role"):
            poss = bykind.get(kind)
            if not poss:
                continue
            for c in done:
                hit = any(G.reaches(f, (b_, i_ + 1), [(c.b, c.i)], blocked=poss) for (b_, i_) in sw)
                if hit:
                    ctx.fail(r, f, "empty frame accepted without the %s check" % kind, c.line,
                             "from the decoding of the frame length ws_read_cb can reach ws_read_frame_cb (line %s) without "
                             "evaluating the %s check: it is made only where a payload is expected, so a zero-length frame with "
                             "the wrong mask bit (an unmasked empty BINARY / CONTINUATION / PING from a client) is accepted "
                             "instead of closing with 1002" % (c.line, kind))
                else:
                    r.ob(f, "ws_read_frame_cb line %s: the %s check is evaluated for frames without payload too" % (c.line, kind))
    for what, b, bad_edge in tests:
        if bad_edge is not None:
            tgt = f.blocks[b].succs[bad_edge]
            if tgt is not None and G.must_pass(f, (tgt, 0), closes) is None:
                r.ob(f, "%s: failing edge closes" % what)
            else:
                ctx.fail(r, f, "%s does not close" % what, f.line_of(b, 0), "a frame failing the %s test does not lead to ws_close" % what)


def rule_r2(ctx):
    r = ctx.rule("C16.R2", "T11", "opcode dispatch: the value stored in frame->op keeps the reserved bits of the first header octet "
                 "(mask covers 0x70) or they are tested explicitly; ws_read_frame_cb has a case for every ws_type enumerator and a "
                 "default that closes; CONT requires a message in progress, TEXT/BINARY require none; PING/PONG are limited to "
                 "125 bytes; outgoing control frames are limited to 125 bytes", floor=10)
    prog = ctx.prog
    f = prog.need("ws_read_cb", WS)
    ops = [t for t in f.assigns() if G.field_is(t.node["lhs"], "op")]
    G.need_sites(ops, "frame->op assignment", f)
    rsv_ok = False
    for t in ops:
        rhs = f.expand(t.node["rhs"])
        if rhs.get("k") == "bin" and rhs["op"] == "&" and rhs["lhs"].get("k") == "idx" and const_of(rhs["lhs"]["i"]) == 0:
            k = const_of(rhs["rhs"])
            if k is not None and (k & 0x70) == 0x70:
                rsv_ok = True
    if not rsv_ok:
        # explicit test of the reserved bits?
        for b in f.blocks.values():
            c = f.cond(b.id) if b.term else None
            for n in walk(c) if c else ():
                if n.get("k") == "bin" and n["op"] == "&" and n["lhs"].get("k") == "idx" and "head" in show(n["lhs"]["b"]) and \
                        const_of(n["lhs"]["i"]) == 0 and const_of(n["rhs"]) is not None and (const_of(n["rhs"]) & 0x70) == 0x70:
                    rsv_ok = True
    if rsv_ok:
        r.ob(f, "reserved bits reach the opcode dispatch (or are tested)")
    else:
        ctx.fail(r, f, "reserved bits dropped", ops[0].line,
                 "frame->op is derived from the first header octet with a mask that drops the RSV bits (0x70) and nothing else "
                 "tests them: frames with reserved bits set are accepted instead of failing the connection")
    g = prog.need("ws_read_frame_cb", WS)
    enum = prog.enums.get("ws_type")
    if not enum:
        raise AnalysisBroken("enum ws_type not found")
    cases = {}
    default = None
    for b in g.blocks.values():
        lb = b.label
        if lb and lb.get("kind") == "case":
            cases[lb.get("cv")] = b.id
        if lb and lb.get("kind") == "default":
            default = b.id
    for name, val in sorted(enum.items(), key=lambda t: t[1]):
        if val in cases:
            r.ob(g, "case %s" % name)
        else:
            ctx.fail(r, g, "no case for %s" % name, g.line, "the opcode dispatch has no case for %s" % name)
    closes = G.positions(g.calls("ws_close"))
    if default is not None and G.must_pass(g, (default, 0), closes) is None:
        r.ob(g, "default closes with a protocol error")
    else:
        ctx.fail(r, g, "default does not close", g.line, "unknown / reserved opcodes do not lead to ws_close")
    # state requirements
    inmsg_true = G.cond_edges(g, lambda n: n.get("k") == "mem" and n["f"] == "inmsg", want_nonzero=True)
    apps = [s_ for s_ in g.calls("nni_list_append") if "rxq" in show(g.expand(s_.node["args"][0]))]
    G.need_sites(apps, "append of the received frame to rxq", g)
    for name, want_in in (("WS_CONT", True), ("WS_BINARY", False), ("WS_TEXT", False)):
        bid = cases.get(enum[name])
        if bid is None:
            continue
        # the frame is queued only over the edge on which inmsg has the required value: with those edges removed no
        # append may be reachable from this case label
        right = {b: (k if want_in else 1 - k) for b, k in inmsg_true.items()}
        seen = g.reach((bid, 0), edge_ok=lambda b, k: not (b in right and k == right[b]))
        bad = [s_ for s_ in apps if (s_.b, s_.i) in seen]
        reachable = [s_ for s_ in apps if (s_.b, s_.i) in g.reach((bid, 0))]
        if reachable and not bad:
            r.ob(g, "%s accepted only with inmsg == %s" % (name, want_in))
        else:
            ctx.fail(r, g, "%s state test" % name, (bad[0].line if bad else g.line),
                     "%s frames are queued without the required inmsg == %s test: %s" % (
                         name, want_in, "a new data message started inside an unfinished fragmented one is merged into it"
                         if not want_in else "a continuation without a message in progress is accepted"),
                     g.path_lines(g.find_path((bid, 0), lambda b, i: bad and (b, i) == (bad[0].b, bad[0].i),
                                              edge_ok=lambda b, k: not (b in right and k == right[b]))) if bad else None)
    for name in ("WS_PING", "WS_PONG"):
        bid = cases.get(enum[name])
        big = G.cmp_edges(g, lambda l: G.field_is(l, "len"), {">": 0, "<=": 1}, rhs_match=lambda x: const_of(x) == 125)
        okp = False
        for b, k in big.items():
            if (b, 0) in g.reach((bid, 0)) and g.blocks[b].succs[k] is not None and \
                    G.must_pass(g, (g.blocks[b].succs[k], 0), closes) is None:
                okp = True
        if okp:
            r.ob(g, "%s longer than 125 closes" % name)
        else:
            ctx.fail(r, g, "%s length unchecked" % name, g.line, "%s frames longer than 125 bytes are not rejected" % name)
    h = prog.need("ws_msg_init_control", WS)
    lim = G.cmp_edges(h, lambda l: l.get("k") == "var" and l["n"] == "len", {">": 1, "<=": 0}, rhs_match=lambda x: const_of(x) == 125)
    cp = [s for s in h.calls("memcpy")]
    if lim and cp and all(G.dominated(h, (s.b, s.i), lim) for s in cp):
        r.ob(h, "outgoing control payload limited to 125")
    else:
        ctx.fail(r, h, "control frame size unchecked", h.line, "ws_msg_init_control copies the payload without the len <= 125 test")


def rule_r3(ctx):
    r = ctx.rule("C16.R3", "T1", "masking on send: ws_frame_prep_tx and ws_msg_init_control call ws_mask_frame exactly on the "
                 "edge !ws->server", floor=2)
    prog = ctx.prog
    for name in ("ws_frame_prep_tx", "ws_msg_init_control"):
        f = prog.need(name, WS)
        m = [s for s in f.calls("ws_mask_frame")]
        client = G.cond_edges(f, lambda n: n.get("k") == "mem" and n["f"] == "server", want_nonzero=False)
        if not m or not client:
            ctx.fail(r, f, "no masking", f.line, "%s no longer masks client frames" % name)
            continue
        if all(G.dominated(f, (s.b, s.i), client) for s in m):
            ok2 = True
            for b, k in client.items():
                tgt = f.blocks[b].succs[k]
                if tgt is None or G.must_pass(f, (tgt, 0), G.positions(m)):
                    ok2 = False
            if ok2:
                r.ob(f, "masked iff client")
            else:
                ctx.fail(r, f, "client frame may go unmasked", f.line, "on the !ws->server edge ws_mask_frame is not always reached")
        else:
            ctx.fail(r, f, "server frames masked", m[0].line, "ws_mask_frame is reachable with ws->server set")


def rule_r4(ctx):
    r = ctx.rule("C16.R4", "T1", "chunk decoder: chunk_ingest_char has a case for every chunk_state it handles and a default that "
                 "fails; the size multiplication is dominated by the overflow test; the chunk allocation by the SIZE_MAX / "
                 "maximum-size tests; nni_http_chunks_parse and http_scan_line index their input only below n", floor=5)
    prog = ctx.prog
    f = prog.need("chunk_ingest_char", "supplemental/http/http_chunk.c")
    default = [b for b in f.blocks.values() if b.label and b.label.get("kind") == "default"]
    ncase = len([b for b in f.blocks.values() if b.label and b.label.get("kind") == "case"])
    if default and ncase >= 6:
        sets = [t for t in f.assigns() if t.b == default[0].id or (t.b, t.i) in f.reach((default[0].id, 0))]
        dreach = f.reach((default[0].id, 0))
        rets = [x for x in f.sites() if x.node.get("k") == "ret" and x.node.get("e") is not None and (x.b, x.i) in dreach and
                "NNG_EPROTO" in show(f.expand(x.node["e"]))]
        if any("NNG_EPROTO" in show(f.expand(t.node["rhs"])) for t in sets) or rets:
            r.ob(f, "%d states handled, default fails with NNG_EPROTO" % ncase)
        else:
            ctx.fail(r, f, "default state accepted", f.line, "an unknown decoder state does not fail with NNG_EPROTO")
    else:
        # the same dispatch written as an if / else-if chain over cl_state
        states, cut = set(), {}
        for bid, k, atom, val in G.edge_facts(f):
            if atom.get("k") == "bin" and atom["op"] in ("==", "!=") and G.field_is(atom["lhs"], "cl_state") and atom["rhs"].get("k") == "enum":
                if (atom["op"] == "==") == bool(val):
                    states.add(atom["rhs"]["n"])
                    cut[bid] = k
        epr = {(x.b, x.i) for x in f.sites() if (x.node.get("k") == "ret" and x.node.get("e") is not None and "NNG_EPROTO" in show(f.expand(x.node["e"])))
               or (x.node.get("k") == "asg" and "NNG_EPROTO" in show(f.expand(x.node["rhs"])))}
        if len(states) >= 6 and epr and G.must_pass(f, (f.entry, 0), epr, cut=cut) is None:
            r.ob(f, "%d states handled by an if-chain, anything else fails with NNG_EPROTO" % len(states))
        else:
            ctx.fail(r, f, "state dispatch incomplete", f.line, "chunk_ingest_char lost cases or its default")
    g = prog.need("chunk_ingest_len", "supplemental/http/http_chunk.c")
    mul = [t for t in g.assigns() if t.node.get("op") == "*=" and G.field_is(t.node["lhs"], "cl_size")]
    okm = G.cmp_edges(g, lambda l: G.field_is(l, "cl_size"), {">": 1, "<=": 0})
    if mul and okm and all(G.dominated(g, (t.b, t.i), okm) for t in mul):
        r.ob(g, "size multiplication dominated by the overflow test")
    else:
        ctx.fail(r, g, "chunk size overflow unchecked", g.line, "cl_size *= 16 is reachable without the overflow test")
    h = prog.need("chunk_ingest_newline", "supplemental/http/http_chunk.c")
    allocs = [s for s in h.calls(("nni_alloc", "nni_zalloc"))]
    guards = {}
    maxsz = False
    for b in h.blocks.values():
        c = h.cond(b.id) if b.term and len(b.succs) == 2 else None
        if c is not None and c.get("k") == "bin" and c["op"] == ">" and G.field_is(c["lhs"], "cl_size"):
            if "cl_maxsz" in show(c["rhs"]):
                maxsz = True
            else:
                guards[b.id] = 1       # the SIZE_MAX overflow tests
    if allocs and len(guards) >= 2 and maxsz and all(G.dominated(h, (s.b, s.i), {b: k}) for s in allocs for b, k in guards.items()):
        r.ob(h, "chunk allocation dominated by %d overflow tests; maximum-size test present" % len(guards))
    else:
        ctx.fail(r, h, "chunk allocation unguarded", h.line, "the chunk buffer is allocated without the SIZE_MAX / cl_maxsz tests")
    for name, file in (("http_scan_line", "supplemental/http/http_msg.c"),):
        s_ = prog.need(name, file)
        idx = [x for x in s_.sites() if x.node.get("k") == "idx" and x.node["b"].get("k") == "var" and x.node["b"]["n"] == "buf"
               and x.node["i"].get("k") == "var"]
        inb = G.cmp_edges(s_, lambda l: l.get("k") == "var" and l["n"] == "len", {"<": 0, ">=": 1}, rhs_match=lambda x: x.get("k") == "var" and x["n"] == "n")
        if idx and inb and all(G.dominated(s_, (x.b, x.i), inb) for x in idx):
            r.ob(s_, "buf[len] read only under len < n")
        else:
            ctx.fail(r, s_, "scanner reads past n", s_.line, "http_scan_line indexes buf[len] without len < n")
        eag = [x for x in s_.sites() if x.node.get("k") == "ret" and x.node.get("e") is not None and "NNG_EAGAIN" in show(s_.expand(x.node["e"]))]
        if eag:
            r.ob(s_, "incomplete line reported as NNG_EAGAIN")
        else:
            ctx.fail(r, s_, "no NNG_EAGAIN", s_.line, "http_scan_line no longer reports an incomplete line with NNG_EAGAIN")


def adjustments(f, blk):
    out = []
    for e in blk.elems:
        if e is None:
            continue
        for n in walk(e):
            if n.get("k") == "asg" and n.get("op") in ("+=", "-="):
                out.append((show(n["lhs"]), f.expand(n["rhs"]), n.get("l"), n["lhs"]))
            elif n.get("k") == "asg" and n.get("op") == "=" and "NNI_INCPTR" in (n.get("m") or []):
                amt = None
                for x in walk(f.expand(n["rhs"])):
                    if x.get("k") == "bin" and x["op"] == "+":
                        amt = x["rhs"]
                out.append((show(n["lhs"]), amt, n.get("l"), n["lhs"]))
            elif n.get("k") == "call" and n.get("fn") == "nni_aio_bump_count" and len(n["args"]) > 1:
                out.append(("count(%s)" % show(f.expand(n["args"][0])), f.expand(n["args"][1]), n.get("l"), None))
    return out


def rule_r7(ctx):
    r = ctx.rule("C16.R7", "T9", "transfer bookkeeping: within one basic block all cursors of one transfer are advanced by the same "
                 "count, and wherever an iov's length is reduced its buffer pointer is advanced by the same amount (http reader, "
                 "websocket reader, aio iov advance)", floor=12)
    prog = ctx.prog
    n_blocks = 0
    for f in prog.functions:
        if f.cfg_failed:
            continue
        for b in f.blocks.values():
            adj = adjustments(f, b)
            if len(adj) < 2:
                continue
            targets = {}
            for t, a, l, lhs in adj:
                targets.setdefault(t, []).append(a)
            amts = [a for t, a, l, lhs in adj if a is not None and const_of(a) is None]
            if len(targets) >= 2 and len(amts) >= 2:
                n_blocks += 1
                # one amount per target (a target adjusted twice is a seek, not a transfer)
                single = [(t, v[0]) for t, v in targets.items() if len(v) == 1 and v[0] is not None and const_of(v[0]) is None]
                if len(single) >= 2 and not all(same_expr(single[0][1], x) for _, x in single):
                    ctx.fail(r, f, "cursors advanced by different counts", f.line_of(b.id, 0),
                             "in one step %s: the cursors of one transfer get out of step"
                             % ", ".join("%s by %s" % (t, show(a)) for t, a in single))
                else:
                    r.ob(f, "block line %s: %d cursors advanced by the same count" % (f.line_of(b.id, 0), len(single)))
            # iov pairing
            lens = [(t, a, lhs) for t, a, l, lhs in adj if lhs is not None and lhs.get("k") == "mem" and lhs["f"] == "iov_len"]
            for t, a, lhs in lens:
                base = show(lhs["b"])
                mate = [(t2, a2) for t2, a2, l2, lhs2 in adj if lhs2 is not None and lhs2.get("k") == "mem" and lhs2["f"] == "iov_buf"
                        and show(lhs2["b"]) == base]
                if mate and a is not None and mate[0][1] is not None and same_expr(a, mate[0][1]):
                    r.ob(f, "%s reduced and %s.iov_buf advanced by %s" % (t, base, show(a)))
                else:
                    ctx.fail(r, f, "iov length reduced without advancing its buffer", f.line_of(b.id, 0),
                             "%s is reduced by %s but %s.iov_buf is not advanced by the same amount in that step: the rest of the "
                             "transfer is written over the beginning of the destination" % (t, show(a), base))
    if n_blocks < 8:
        raise AnalysisBroken("only %d multi-cursor transfer blocks found" % n_blocks)



def rule_r9(ctx):
    r = ctx.rule("C16.R9", "T1", "control frames do not touch reassembly: in ws_read_frame_cb no store to ws->inmsg is reachable from "
                 "the PING / PONG / CLOSE cases of the opcode switch (a control frame may arrive between the fragments of a "
                 "message and must leave 'inside a fragmented message' as it is)", floor=3)
    f = ctx.prog.need("ws_read_frame_cb", WS)
    stores = G.positions(G.stores(f, "inmsg"))
    if not stores:
        raise AnalysisBroken("ws_read_frame_cb: no store to inmsg")
    sw = [b for b in f.blocks.values() if b.term and b.term.get("kind") == "SwitchStmt"]
    if not sw:
        raise AnalysisBroken("ws_read_frame_cb: opcode switch not found")
    CONTROL = {8: "WS_CLOSE", 9: "WS_PING", 10: "WS_PONG"}
    seen = 0
    for b in sw:
        for k, t in enumerate(b.succs):
            if t is None:
                continue
            lb = f.blocks[t].label
            if not lb or lb.get("kind") != "case":
                continue
            cv = lb.get("cv")
            if cv is None and lb.get("v"):
                cv = const_of(lb["v"])
            if cv not in CONTROL:
                continue
            seen += 1
            hit = G.reaches(f, (t, 0), stores)
            if hit:
                ctx.fail(r, f, "inmsg changed by a %s frame" % CONTROL[cv], f.line_of(*hit),
                         "the %s case reaches the store to ws->inmsg at line %s: a control frame between two fragments ends (or "
                         "starts) the message early, the partial message is delivered and the next continuation frame fails the "
                         "connection" % (CONTROL[cv], f.line_of(*hit)))
            else:
                r.ob(f, "%s leaves inmsg alone" % CONTROL[cv])
    if seen < 3:
        raise AnalysisBroken("ws_read_frame_cb: control-frame cases not found (%d)" % seen)



def rule_r10(ctx):
    r = ctx.rule("C16.R10", "T3", "a request the server refuses itself is either the last one on its connection or has its body "
                 "accounted for: in http_sconn_rxdone every http_sconn_error with a constant status is dominated by sc->close = "
                 "true or by the Content-Length accounting (store to unconsumed_body) -- otherwise the refused request's body is "
                 "read as the next request", floor=5)
    f = ctx.prog.need("http_sconn_rxdone", "http/http_server.c")
    errs = [c for c in f.calls("http_sconn_error") if len(c.node["args"]) > 1 and const_of(f.expand(c.node["args"][1])) is not None]
    closes = G.positions(G.stores(f, "close", value="nonnull"))
    acct = G.positions(t for t in G.stores(f, "unconsumed_body"))
    if not errs or not acct:
        raise AnalysisBroken("http_sconn_rxdone: error responses / body accounting not found")
    for c in errs:
        if f.dominated_by((c.b, c.i), blocked=lambda b, i, e: (b, i) in closes) or \
                f.dominated_by((c.b, c.i), blocked=lambda b, i, e: (b, i) in acct):
            r.ob(f, "error response line %s: connection closing or body accounted" % c.line)
        else:
            ctx.fail(r, f, "request refused with its body unaccounted on a kept connection", c.line,
                     "http_sconn_error at line %s answers a request without closing the connection and before Content-Length was "
                     "recorded in unconsumed_body: the body bytes that follow are parsed and served as a new request" % c.line)


def rule_r11(ctx):
    from .. import numconv
    r = ctx.rule("C16.R11", "T12", "Content-Length is a number: the value strtoull extracted from the header is used (or kept as the "
                 "body size of the connection) only when the conversion consumed the whole header value -- `12abc` is a malformed "
                 "length, to be refused, not a body of 12 bytes", floor=2)
    fns = [f for f in ctx.prog.functions if "/supplemental/http/" in "/" + f.file]
    numconv.check(ctx, r, fns, 2)


def rule_r12(ctx):
    r = ctx.rule("C16.R12", "T1", "chunk-size lines start with a digit: the decoder enters the state that accumulates the size (CS_LEN) only "
                 "on the edge of the first-character test (isalnum / isxdigit) of the CS_INIT case -- a transition into CS_LEN from "
                 "anywhere else lets an empty or extension-only size line pass as the terminating zero chunk", floor=1)
    prog = ctx.prog
    n = 0
    for f in prog.fns_in("supplemental/http/http_chunk.c"):
        if f.cfg_failed:
            continue
        stores = [t for t in f.assigns() if t.node["lhs"].get("k") == "mem" and t.node["lhs"].get("f") == "cl_state" and
                  (lambda e: e is not None and e.get("k") == "enum" and e.get("n") == "CS_LEN")(f.expand(t.node["rhs"]))]
        if not stores:
            continue
        ok_edges = {}
        for bid, k, atom, val in G.edge_facts(f):
            # the ctype tests are macros in glibc: recognise the call form and the expansion (macro provenance)
            ctype = ("isalnum", "isxdigit", "isdigit")
            if val and ((atom.get("k") == "call" and atom.get("fn") in ctype) or any(m in ctype for m in (atom.get("m") or ()))):
                ok_edges[bid] = k
        for t in stores:
            n += 1
            if ok_edges and G.dominated(f, (t.b, t.i), ok_edges):
                r.ob(f, "cl_state = CS_LEN line %s: after the first-character test" % t.line)
            else:
                ctx.fail(r, f, "CS_LEN entered without the first-character test", t.line,
                         "%s sets cl_state = CS_LEN at line %s on a path that did not test the character with isalnum/isxdigit: "
                         "the next size line may be empty (or start with ';') and is then read as size 0, the end of the body"
                         % (f.name, t.line))
    if n < 1:
        raise AnalysisBroken("no transition into CS_LEN found in http_chunk.c")


def rule_r13(ctx):
    r = ctx.rule("C16.R13", "T2", "the frame being read has one owner: wherever ws_read_frame_cb disposes of the frame it was given "
                 "(ws_frame_fini, or queueing it on rxq for reassembly) it also clears ws->rxframe on that path -- a frame that is "
                 "released but still referenced stops all further reading on the connection and is released again at teardown", floor=3)
    prog = ctx.prog
    f = prog.need("ws_read_frame_cb", WS)
    if len(f.params) < 2:
        raise AnalysisBroken("ws_read_frame_cb lost its frame parameter")
    fr = f.params[1]["n"]
    clears = {(t.b, t.i) for t in f.assigns() if t.node["lhs"].get("k") == "mem" and t.node["lhs"].get("f") == "rxframe" and
              is_null(f.expand(t.node["rhs"]))}
    disp = []
    for c in f.calls(("ws_frame_fini", "nni_list_append")):
        args = [f.expand(a) for a in c.node["args"] if a is not None]
        if any(a.get("k") == "var" and a["n"] == fr for a in args):
            disp.append(c)
    G.need_sites(disp, "disposal of the frame", f)
    for c in disp:
        before = bool(clears) and f.dominated_by((c.b, c.i), blocked=lambda b, i, e: (b, i) in clears)
        after = bool(clears) and (f.exit, 0) not in f.reach((c.b, c.i + 1), blocked=lambda b, i, e: (b, i) in clears)
        if before or after:
            r.ob(f, "%s line %s: rxframe cleared on the same path" % (c.node["fn"], c.line))
        else:
            ctx.fail(r, f, "%s(%s) with rxframe still set" % (c.node["fn"], fr), c.line,
                     "ws_read_frame_cb disposes of the frame at line %s on a path that leaves ws->rxframe pointing at it: "
                     "ws_start_read sees a frame in progress and never reads from the connection again, and ws_fini releases the "
                     "frame a second time" % c.line)


def rule_r14(ctx):
    r = ctx.rule("C16.R14", "T3", "a resumable parser keeps its progress in the connection: nni_http_req_parse / nni_http_res_parse return "
                 "NNG_EAGAIN and are called again when more bytes arrive, so (a) the decision 'first line or header line' reads a "
                 "field of the persistent request / response object, not a local, and (b) that field is stored once the first "
                 "line has been taken -- with the progress in a local the same bytes decode differently depending on where the "
                 "reads split them", floor=2)
    prog = ctx.prog
    n = 0
    for name in ("nni_http_req_parse", "nni_http_res_parse"):
        f = prog.need(name, "supplemental/http/http_msg.c")
        hdr = [c for c in f.calls("http_parse_header")]
        first = [c for c in f.calls(("http_req_parse_line", "http_res_parse_line"))]
        G.need_sites(hdr + first, "the two line parsers", f)
        n += 1
        facts = G.edge_facts(f)
        # (a) the header parser runs only over an edge that tested a persistent field
        dec = {}
        for bid, k, atom, val in facts:
            if atom.get("k") == "mem" and val:
                dec.setdefault(atom.get("f"), {})[bid] = k
        field = next((fl for fl, ed in dec.items() if all(G.dominated(f, (c.b, c.i), ed) for c in hdr)), None)
        if field is None:
            ctx.fail(r, f, "header / first-line decision not taken from the persistent object", hdr[0].line,
                     "%s decides between the first-line parser and the header parser without testing a field of the request / "
                     "response object: the decision does not survive the NNG_EAGAIN return, and a head that arrives in two reads "
                     "is parsed from the start again" % name)
            continue
        # (b) the field is stored on every path that took the first line (and goes on)
        sets = {(t.b, t.i) for t in f.assigns() if t.node["lhs"].get("k") == "mem" and t.node["lhs"].get("f") == field and
                const_of(f.expand(t.node["rhs"])) not in (None, 0)}
        bad = None
        for c in first:
            before = bool(sets) and f.dominated_by((c.b, c.i), blocked=lambda b, i, e: (b, i) in sets)
            ve = f.value_edges(c)
            failed = {b: nz for b, (nz, z) in ve.items()}        # edges on which the first-line parser reported an error
            seen = f.reach((c.b, c.i + 1), blocked=lambda b, i, e: (b, i) in sets,
                           edge_ok=lambda b, k: not (b in failed and failed[b] == k))
            after = bool(sets) and not any((hc.b, hc.i) in seen for hc in first + hdr)
            if not (before or after):
                bad = c
        if bad is not None:
            ctx.fail(r, f, "first line taken without recording it in %s" % field, bad.line,
                     "%s parses the first line at line %s and can come back to the line loop (or return NNG_EAGAIN) without "
                     "storing %s: the next line, or the next call, is parsed as a first line again" % (name, bad.line, field))
        else:
            r.ob(f, "decision read from and recorded in %s" % field)
    if n < 2:
        raise AnalysisBroken("resumable HTTP parsers not found")


# ---------------------------------------------------------------------------
# R15: a partial write of an HTTP message / WebSocket frame is resumed where it stopped


def rule_r15(ctx):
    from . import c01
    r = ctx.rule("C16.R15", "T2", "a short write is resumed where it stopped: http_wr_cb advances the iov of its own aio by that aio's count, "
                 "decides 'more to transmit' by nni_aio_iov_count of the advanced iov, and on that edge re-submits the same aio "
                 "with nng_stream_send without completing anything and without going back to http_wr_start (which reloads the "
                 "iov from the user's aio, i.e. from byte 0) -- otherwise the rest of a response, request or WebSocket frame is "
                 "never sent, or the frame is sent again behind its own first part", floor=2)
    fn = ctx.prog.need("http_wr_cb", "supplemental/http/http_conn.c")
    c01.check_resume(ctx, r, fn, True, residual_only=True)


# ---------------------------------------------------------------------------
# R16: both sides of the handshake look the peer's subprotocol up in their own list


def rule_r16(ctx):
    r = ctx.rule("C16.R16", "T9", "the subprotocol check has one direction on both sides of the handshake: where ws_contains_word compares the "
                 "endpoint's configured Sec-WebSocket-Protocol list (the `proto` field of the listener / dialer) with the value the "
                 "peer sent, the configured list is the phrase that is searched and the peer's value is the word -- the other way "
                 "round a client offering a list is upgraded with a multi-valued protocol header echoed back, and a listener "
                 "configured with a list refuses every valid single offer", floor=2)
    prog = ctx.prog
    n = 0
    for f in prog.fns_in("supplemental/websocket/websocket.c"):
        if f.cfg_failed:
            continue
        for c in f.calls("ws_contains_word"):
            a = [f.expand(x) if x is not None else None for x in c.node["args"]]
            if len(a) != 2:
                continue

            def own(x):
                return x is not None and any(m.get("k") == "mem" and m.get("f") == "proto" for m in walk(x))
            if not own(a[0]) and not own(a[1]):
                continue
            n += 1
            if own(a[0]) and not own(a[1]):
                r.ob(f, "line %s: the endpoint's own list is searched for the peer's value" % c.line)
            else:
                ctx.fail(r, f, "subprotocol check the wrong way round", c.line,
                         "%s calls ws_contains_word(%s, %s): the peer's header is searched for the endpoint's configured list "
                         "instead of the list for the peer's value (the sibling check on the other side of the handshake has "
                         "the configured list first)" % (f.name, show(a[0]), show(a[1])))
    if n < 2:
        raise AnalysisBroken("only %d subprotocol checks found" % n)


# ---------------------------------------------------------------------------
# R17: what the frame layer changes in place is the frame's own storage


def rule_r17(ctx):
    r = ctx.rule("C16.R17", "T10", "masking happens in the frame's own storage: ws_mask_frame / ws_unmask_frame XOR the bytes at "
                 "frame->buf in place, so every store to ws_frame.buf assigns storage that belongs to that frame (its adata or "
                 "sdata field) or advances the pointer within it -- a frame that points at the caller's data (the body of a "
                 "message that other pipes of a BUS or PUB socket are sending too) scribbles the mask over bytes it does not own",
                 floor=4)
    prog = ctx.prog
    n = 0
    for f in prog.fns_in("supplemental/websocket/websocket.c"):
        if f.cfg_failed:
            continue
        for t in f.assigns():
            l = t.node["lhs"]
            if l.get("k") != "mem" or l.get("rec") != "ws_frame" or l["f"] != "buf":
                continue
            n += 1
            rhs = f.expand(t.node["rhs"])
            while rhs is not None and rhs.get("k") == "cast":
                rhs = f.expand(rhs["e"])
            own = rhs is not None and rhs.get("k") == "mem" and rhs.get("rec") == "ws_frame" and rhs["f"] in ("adata", "sdata") and \
                same_expr(rhs["b"], l["b"])
            if t.node.get("op") in ("+=", "-=") or own or is_null(rhs):
                r.ob(f, "%s (line %s): the frame's own storage" % (show(t.node), t.line))
            else:
                ctx.fail(r, f, "frame->buf pointed at storage the frame does not own", t.line,
                         "%s sets %s = %s at line %s: the frame's bytes are masked / unmasked in place (ws_apply_mask on "
                         "frame->buf), which then changes data that belongs to somebody else -- for a message that is shared "
                         "between pipes every other recipient gets the scribbled body" % (f.name, show(l), show(rhs), t.line))
    if n < 4:
        raise AnalysisBroken("only %d stores to ws_frame.buf found" % n)
    if not any(c.node["args"] and (last_field(g.expand(c.node["args"][0])) or "") == "ws_frame.buf"
               for g in prog.fns_in("supplemental/websocket/websocket.c") if not g.cfg_failed for c in g.calls("ws_apply_mask")):
        raise AnalysisBroken("ws_apply_mask no longer works on ws_frame.buf in place")


# ---------------------------------------------------------------------------
# R18: measured first, then formatted into a buffer that holds the text and its terminator


def rule_r18(ctx):
    r = ctx.rule("C16.R18", "T1", "measured first, then formatted where it fits: where a function asks a formatter for the length it "
                 "needs (a call with size 0) and then calls the same formatter with a buffer, the size it passes is that length "
                 "plus one (a buffer allocated for it) or the call is reached only over the strict edge length < size -- with "
                 "<= the head that is exactly as long as the fixed buffer loses its last byte to the terminator: the request / "
                 "status head goes out without its final line feed and with a NUL byte in it", floor=2)
    r.own_opinion = True
    prog = ctx.prog
    n = 0
    for f in prog.functions:
        if f.cfg_failed or f.file.endswith("_test.c"):
            continue
        byfn = {}
        for c in f.calls():
            if c.node.get("fn") and any(x in c.node["fn"] for x in ("snprintf",)):
                byfn.setdefault(c.node["fn"], []).append(c)
        for fn_, cs in byfn.items():
            meas = [c for c in cs if any(a is not None and const_of(f.expand(a)) == 0 for a in c.node["args"][1:3]) and
                    any(a is not None and is_null(f.expand(a)) for a in c.node["args"][0:2])]
            if not meas:
                continue
            # the local that receives the measured length
            lens = set()
            for t in f.assigns():
                if t.node["lhs"].get("k") == "var" and any(m.get("k") == "call" and m.get("fn") == fn_ for m in walk(f.expand(t.node["rhs"]))):
                    lens.add(t.node["lhs"]["n"])
            if not lens:
                continue
            for c in cs:
                if c in meas:
                    continue
                args = [f.expand(a) if a is not None else None for a in c.node["args"]]
                size = None
                for a in args[1:]:
                    if a is not None and (("size_t" in (a.get("t") or "")) or a.get("k") in ("bin", "mem", "var", "sizeof")) and not is_null(a) \
                            and "char" not in (a.get("t") or "") and "*" not in (a.get("t") or ""):
                        size = a
                        break
                if size is None:
                    continue
                n += 1
                plus = size.get("k") == "bin" and size.get("op") == "+" and any(
                    x.get("k") == "var" and x["n"] in lens for x in (size["lhs"], size["rhs"])) and any(
                    (const_of(x) or 0) >= 1 for x in (size["lhs"], size["rhs"]))
                same = size.get("k") == "var" and size["n"] in lens and any(
                    t.node.get("k") == "un" and t.node.get("op") == "++" and t.node["e"].get("k") == "var" and t.node["e"]["n"] == size["n"]
                    for t in f.sites())
                def is_len(x, fn_=fn_, lens=lens):
                    while x is not None and x.get("k") == "cast":
                        x = x["e"]
                    return x is not None and ((x.get("k") == "var" and x["n"] in lens) or (x.get("k") == "call" and x.get("fn") == fn_))
                strict = G.rel_edges(f, is_len, lambda x: same_expr(x, size), "<")
                if plus or same or (strict and G.dominated(f, (c.b, c.i), strict)):
                    r.ob(f, "%s(.., %s) at line %s: the measured length fits with its terminator" % (fn_, show(size), c.line))
                else:
                    ctx.fail(r, f, "formatted into %s without room for the terminator" % show(size), c.line,
                             "%s formats with %s into a buffer of %s bytes (line %s) without having established length < %s: "
                             "a text of exactly that length is cut short by the terminating NUL" % (f.name, fn_, show(size), c.line, show(size)))
    if n < 2:
        raise AnalysisBroken("only %d measure-then-format pairs found" % n)


# ---------------------------------------------------------------------------
# R19: the read buffer is found full only after it was compacted


def rule_r19(ctx):
    r = ctx.rule("C16.R19", "T3", "the read buffer is full only when a single unfinished line fills it: in http_rd_buf every test of "
                 "rd_put against bufsz (the over-long request line / header answer, 414 / 431) is preceded, with no store to "
                 "rd_get / rd_put in between, by http_buf_pull_up, which moves the unparsed rest to the front -- tested before "
                 "the compaction, a request whose lines were all parsed but whose last read happened to end at the end of the "
                 "buffer is refused: 200 when it trickles in, 431 when it arrives in one piece", floor=1)
    f = ctx.prog.need("http_rd_buf", "http/http_conn.c")
    full = G.rel_edges(f, lambda x: x.get("k") == "mem" and x["f"] == "rd_put", lambda x: x.get("k") == "mem" and x["f"] == "bufsz", "==")
    if not full:
        raise AnalysisBroken("http_rd_buf: buffer-full test (rd_put == bufsz) not found")
    pulls = {(c.b, c.i) for c in f.calls("http_buf_pull_up")}
    moved = {(t.b, t.i) for t in f.assigns() if t.node["lhs"].get("k") == "mem" and t.node["lhs"]["f"] in ("rd_get", "rd_put")}
    for b in sorted(full):
        pos = (b, max(len(f.blocks[b].elems) - 1, 0))
        # every way to the test comes from a pull-up, and no cursor store lies between the pull-up and the test
        dom = bool(pulls) and f.dominated_by(pos, blocked=lambda bb, i, e: (bb, i) in pulls)
        stale = any(pos in f.reach((mb, mi + 1), blocked=lambda bb, i, e: (bb, i) in pulls) for (mb, mi) in moved)
        if dom and not stale:
            r.ob(f, "buffer-full test at line %s follows the compaction" % f.line_of(*pos))
        else:
            ctx.fail(r, f, "buffer found full before it was compacted", f.line_of(*pos),
                     "http_rd_buf compares rd_put with bufsz at line %s on a path that has not called http_buf_pull_up since the "
                     "cursors last moved: space in front of the unparsed rest counts as used, and a legal request is answered "
                     "431 / 414 depending on how its bytes were split across reads" % f.line_of(*pos))


# ---------------------------------------------------------------------------
# R21: one entry per key in a lookup table


def rule_r21(ctx):
    r = ctx.rule("C16.R21", "T11", "one entry per key in a lookup table: in a static table of records whose first field is an "
                 "enumerator (status code -> reason phrase, ...) that is searched for the first match, no enumerator is the key "
                 "of two entries -- the second one is dead, and the code it was written for (a copy-and-paste slip: "
                 "BAD_REQUEST twice, BAD_GATEWAY never) has no entry: a 502 goes out as '502 Unknown HTTP Status'", floor=1)
    r.own_opinion = True
    prog = ctx.prog
    n = 0
    for f in prog.functions:
        if f.cfg_failed or f.file.endswith("_test.c"):
            continue
        for t in f.sites():
            if t.node.get("k") != "decls":
                continue
            for d in t.node["d"]:
                ini = d.get("init")
                if not isinstance(ini, dict) or ini.get("k") != "initarr":
                    continue
                keys = []
                for e in ini.get("elems", []):
                    if not isinstance(e, dict) or e.get("k") != "init":
                        keys = None
                        break
                    flds = list(e.get("fields", {}).items())
                    if not flds or not isinstance(flds[0][1], dict) or flds[0][1].get("k") != "enum":
                        if flds and isinstance(flds[0][1], dict) and const_of(flds[0][1]) == 0:
                            continue        # terminator
                        keys = None
                        break
                    keys.append(flds[0][1]["n"])
                if not keys or len(keys) < 4:
                    continue
                n += 1
                dup = sorted({k for k in keys if keys.count(k) > 1})
                if dup:
                    ctx.fail(r, f, "table %s has two entries for %s" % (d["n"], dup[0]), t.line,
                             "the table %s in %s lists %s more than once: a first-match search never reaches the later entry, "
                             "and the value that entry was meant for is missing from the table" % (d["n"], f.name, ", ".join(dup)))
                else:
                    r.ob(f, "table %s: %d entries, keys distinct" % (d["n"], len(keys)))
    if n < 1:
        raise AnalysisBroken("no enumerator-keyed lookup table found (nni_http_reason had one)")


# ---------------------------------------------------------------------------
# R22: the terminator of a chunk is checked at its place in the chunk, whatever the last read brought


def rule_r22(ctx):
    r = ctx.rule("C16.R22", "T1", "the terminator of a chunk is checked at its place in the chunk: in chunk_ingest_data the transition "
                 "out of CS_DATA (c_resid = 0) is reached only over edges that compared c_data[c_size] with CR and "
                 "c_data[c_size + 1] with LF -- operands addressed by the chunk's own size, not by the number of bytes the "
                 "current read happened to bring, and under no condition on that number: a check on 'the last two bytes just "
                 "copied' is skipped when the read that completes the chunk carries one byte, so `hello\\rX` is refused or "
                 "accepted depending on where the segment boundary fell", floor=1)
    f = ctx.prog.need("chunk_ingest_data", "http/http_chunk.c")
    done = [t for t in f.assigns() if G.field_is(t.node["lhs"], "c_resid") and const_of(f.expand(t.node["rhs"])) == 0]
    if not done:
        raise AnalysisBroken("chunk_ingest_data: the store c_resid = 0 that completes a chunk vanished")

    def term_at(x, off):
        while x is not None and x.get("k") == "cast":
            x = x["e"]
        if x is None or x.get("k") != "idx":
            return False
        base, ix = x["b"], x["i"]
        while base is not None and base.get("k") == "cast":
            base = base["e"]
        if not (base is not None and base.get("k") == "mem" and base["f"] == "c_data"):
            return False
        txt = show(ix)
        has = any(m.get("k") == "mem" and m["f"] == "c_size" for m in walk(ix))
        plus = any(m.get("k") == "bin" and m.get("op") == "+" and const_of(m["rhs"]) == 1 for m in walk(ix))
        return has and (plus if off else not plus)
    need = {}
    for off, ch, nm in ((0, 13, "CR"), (1, 10, "LF")):
        ok_edges = {}
        for bid, k, atom, val in G.edge_facts(f):
            if atom.get("k") == "bin" and atom["op"] in ("==", "!=") and const_of(atom["rhs"]) == ch and term_at(atom["lhs"], off):
                if (atom["op"] == "==") == bool(val):
                    ok_edges[bid] = k
        need[nm] = ok_edges
    for t in done:
        for nm, ok_edges in need.items():
            if ok_edges and G.dominated(f, (t.b, t.i), ok_edges):
                r.ob(f, "chunk completed (line %s) only after c_data[c_size%s] == %s" % (t.line, "+1" if nm == "LF" else "", nm))
            else:
                ctx.fail(r, f, "chunk completed without the %s of its terminator checked in place" % nm, t.line,
                         "chunk_ingest_data can set c_resid = 0 (line %s) without having compared the byte at c_data[c_size%s] with "
                         "%s: whether a malformed chunk terminator is refused then depends on how the stream was cut into reads"
                         % (t.line, " + 1" if nm == "LF" else "", nm))


def run(ctx):
    ctx.guard(rule_r1)
    ctx.guard(rule_r2)
    ctx.guard(rule_r3)
    ctx.guard(rule_r4)
    ctx.guard(rule_r7)
    ctx.guard(rule_r9)
    ctx.guard(rule_r10)
    ctx.guard(c11.rule_ws)
    for rr in ctx.rules:
        if rr.id == "C11.R7":
            rr.id = "C16.R8"
    ctx.guard(rule_r11)
    ctx.guard(rule_r12)
    ctx.guard(rule_r13)
    ctx.guard(rule_r14)
    ctx.guard(rule_r15)
    ctx.guard(rule_r16)
    ctx.guard(rule_r17)
    ctx.guard(rule_r18)
    ctx.guard(rule_r19)
    ctx.guard(rule_r21)
    ctx.guard(rule_r22)
    from . import c20
    ctx.guard(c20.rule_r25)          # a line that does not parse is refused: its status is not overwritten by the next line's
    for rr in ctx.rules:
        if rr.id == "C20.R25":
            rr.id = "C16.R20"
