"""C18 -- socket buffers are bounded FIFOs; identifiers are unique and in range."""
from collections import defaultdict

from ..core import (walk, apath, show, const_of, is_null, last_field, strip_addr, truth_of, AnalysisBroken, same_expr)
from ..locks import lockinfo
from .. import guards as G

EXPLANATION = ("C18: ring discipline of nni_lmq / nni_msgq (every cursor increment used as an index is wrapped before the "
               "next use, cursor fields are only assigned wrapped values, slot stores are guarded by len < cap and slot "
               "reads by len != 0, queue state is touched under its lock), resize drops only through the get cursor, static "
               "id maps have the documented constant ranges, id allocation is guarded by an in-use test and a wrapping "
               "cursor that nothing but the allocator moves."
               " Also: the allocation cursor is seeded only on first use or wrap, and resize walks the old ring with its allocation size and wraps surviving cursors with the new extent (R8).")
EXPLANATION += " Round 3: lmq_mask is the storage's extent minus one wherever storage is installed (R9); drain loops end only when the count is zero (R10)."
EXPLANATION += ' Round 5: a removal replaces the id table only once the map is empty, because the visit cursor is a table index (R14).'
EXPLANATION += ' A send buffer that grows admits the senders blocked on it (R15).'
EXPLANATION += ' Round 6: a buffer-size option discards only what no longer fits (R19).'

RING = {"nni_lmq.lmq_msgs": ("nni_lmq.lmq_get", "nni_lmq.lmq_put", "nni_lmq.lmq_mask", "nni_lmq.lmq_len", "nni_lmq.lmq_cap"),
        "nni_msgq.mq_msgs": ("nni_msgq.mq_get", "nni_msgq.mq_put", "nni_msgq.mq_alloc", "nni_msgq.mq_len", "nni_msgq.mq_cap")}
CURSOR_FIELDS = {"nni_lmq.lmq_get", "nni_lmq.lmq_put", "nni_msgq.mq_get", "nni_msgq.mq_put"}


def cursor_key(n):
    """identity of a cursor expression: 'rec.field' for fields, local name for locals."""
    if n is None:
        return None
    if n.get("k") == "mem":
        return last_field(n)
    if n.get("k") == "var":
        return n["n"]
    return None


def rule_r1(ctx):
    r = ctx.rule("C18.R1", "T9", "ring cursors: every post-increment used to index a message ring is wrapped (cursor &= mask, "
                 "or cursor ==/>= extent -> 0) before the cursor is used again or the function returns; cursor fields are "
                 "only assigned 0 or a masked value", floor=14)
    prog = ctx.prog
    fns = [f for f in prog.functions if f.file.endswith(("core/lmq.c", "core/msgqueue.c"))]
    if len(fns) < 20:
        raise AnalysisBroken("lmq.c / msgqueue.c not found in the build")
    for f in fns:
        # index sites  A[c++]
        for s in f.sites():
            n = s.node
            if n.get("k") != "idx":
                continue
            i = n["i"]
            if i.get("k") == "un" and i.get("op") in ("++", "--") and not i.get("post") and cursor_key(i["e"]):
                c0 = cursor_key(i["e"])
                base0 = last_field(n["b"]) or show(n["b"])
                if base0 in RING or c0 in CURSOR_FIELDS:
                    ctx.fail(r, f, "%s[%s%s] indexes with an unwrapped cursor" % (base0, i["op"], c0), s.line,
                             "the ring %s is indexed with the value %s%s produces *before* it is wrapped: at the ring "
                             "boundary this is one slot outside the array" % (base0, i["op"], c0))
                continue
            if not (i.get("k") == "un" and i.get("op") == "++" and i.get("post")):
                continue
            c = cursor_key(i["e"])
            if c is None:
                continue
            base = last_field(n["b"]) or show(n["b"])
            # bounded linear fill of a fresh array: the cursor is compared with `<` in a condition that
            # dominates this site (e.g. while (len < cap) new_q[len++] = ...)
            linear = False
            for b in f.blocks.values():
                cnd = f.cond(b.id) if b.term else None
                if cnd is not None and cnd.get("k") == "bin" and cnd.get("op") == "<" and cursor_key(cnd["lhs"]) == c:
                    if f.dominated_by((s.b, s.i), edge_ok=lambda bb, k, b=b: not (bb == b.id and k == 0)):
                        linear = True
            if linear:
                r.ob(f, "%s[%s++] line %s: linear fill bounded by a dominating %s < limit" % (base, c, s.line, c))
                continue

            def is_wrap(b, idx, e, c=c):
                for m in walk(e):
                    if m.get("k") == "asg" and m.get("op") == "&=" and cursor_key(m["lhs"]) == c:
                        return True
                return False
            # wrap by comparison: block with cond (c == E) / (c >= E) whose true edge assigns c = 0
            wrap_blocks = {}
            wrong = None
            for b in f.blocks.values():
                cnd = f.cond(b.id) if b.term and len(b.succs) == 2 else None
                if cnd is None or cnd.get("k") != "bin" or cursor_key(cnd["lhs"]) != c:
                    continue
                if cnd["op"] in ("==", ">="):
                    t = b.succs[0]
                    if t is not None and any(m.get("k") == "asg" and cursor_key(m["lhs"]) == c and const_of(f.expand(m["rhs"])) == 0
                                             for e in f.blocks[t].elems if e is not None for m in walk(e)):
                        wrap_blocks[b.id] = True
                elif cnd["op"] == ">":
                    wrong = (b.id, show(cnd))
            seen = f.reach((s.b, s.i + 1), blocked=lambda b, idx, e: is_wrap(b, idx, e),
                           edge_ok=lambda b, k: b not in wrap_blocks)
            bad = None
            for (b, idx) in sorted(seen):
                blk = f.blocks[b]
                if (b, idx) == (f.exit, 0):
                    bad = ("the function returns", f.line_of(b, 0))
                    break
                if idx < len(blk.elems) and blk.elems[idx] is not None and (b, idx) != (s.b, s.i):
                    for m in walk(blk.elems[idx]):
                        if m.get("k") == "idx" and any(cursor_key(x) == c for x in walk(m["i"])):
                            bad = ("it indexes %s again" % show(m["b"]), f.line_of(b, idx))
                        if m.get("k") == "call" and m.get("fn") == "nni_mtx_unlock":
                            bad = ("the lock is released", f.line_of(b, idx))
                    if bad:
                        break
            if bad:
                extra = (" (the test %s lets the cursor reach the extent)" % wrong[1]) if wrong else ""
                ctx.fail(r, f, "%s[%s++] not wrapped" % (base, c), s.line,
                         "cursor %s is incremented as an index into %s and not wrapped before %s (line %s)%s"
                         % (c, base, bad[0], bad[1], extra))
            else:
                r.ob(f, "%s[%s++] line %s: wrapped before next use" % (base, c, s.line))
        # cursor field stores
        for t in f.assigns():
            lf = last_field(t.node["lhs"]) if t.node["lhs"].get("k") == "mem" else None
            if lf not in CURSOR_FIELDS:
                continue
            if t.node.get("op") == "&=":
                r.ob(f, "%s &= mask line %s" % (lf, t.line))
                continue
            rhs = f.expand(t.node["rhs"])
            # chained assignment a = b = 0
            while rhs is not None and rhs.get("k") == "asg":
                rhs = f.expand(rhs["rhs"])
            ok = rhs is not None and (const_of(rhs) == 0 and rhs.get("k") == "int" or
                                      (rhs.get("k") == "bin" and rhs.get("op") == "&"))
            if ok:
                r.ob(f, "%s = %s line %s" % (lf, show(rhs), t.line))
            else:
                ctx.fail(r, f, "%s = unwrapped value" % lf.split(".")[1], t.line,
                         "ring cursor %s is assigned %s, which is not 0 and not masked: it can equal the ring's extent and "
                         "the next access indexes one slot past the array" % (lf, show(rhs)))


def rule_r2(ctx):
    r = ctx.rule("C18.R2", "T1", "bounded put / non-empty get: a store into a ring slot through the put cursor is dominated by "
                 "len < cap (nni_lmq_put, msgq put paths) and a read through the get cursor by len != 0", floor=5)
    prog = ctx.prog
    CHECKS = [
        ("nni_lmq_put", "core/lmq.c", "nni_lmq.lmq_put", ("nni_lmq.lmq_len", "nni_lmq.lmq_cap")),
        ("nni_lmq_get", "core/lmq.c", "nni_lmq.lmq_get", ("nni_lmq.lmq_len",)),
        ("nni_msgq_run_putq", "core/msgqueue.c", "nni_msgq.mq_put", ("nni_msgq.mq_len", "nni_msgq.mq_cap")),
        ("nni_msgq_run_getq", "core/msgqueue.c", "nni_msgq.mq_get", ("nni_msgq.mq_len",)),
        ("nni_msgq_tryput", "core/msgqueue.c", "nni_msgq.mq_put", ("nni_msgq.mq_len", "nni_msgq.mq_cap")),
    ]
    for name, file, cursor, guard_fields in CHECKS:
        f = prog.need(name, file)
        sites = [s for s in f.sites() if s.node.get("k") == "idx" and any(cursor_key(x) == cursor for x in walk(s.node["i"]))]
        if not sites:
            raise AnalysisBroken("%s no longer indexes through %s" % (name, cursor))
        for s in sites:
            # guard edges: conditions over exactly the guard fields
            cut = {}
            for b in f.blocks.values():
                c = f.cond(b.id) if b.term and len(b.succs) == 2 else None
                if c is None:
                    continue
                flds = {last_field(x) for x in walk(c) if x.get("k") == "mem"}
                if not set(guard_fields) <= flds:
                    continue
                op = c.get("op") if c.get("k") == "bin" else None
                l = last_field(c["lhs"]) if c.get("k") == "bin" and c["lhs"].get("k") == "mem" else None
                if len(guard_fields) == 2:
                    # len < cap true edge, or len >= cap false edge
                    if l == guard_fields[0] and op == "<":
                        cut[b.id] = 0
                    elif l == guard_fields[0] and op == ">=":
                        cut[b.id] = 1
                else:
                    if l == guard_fields[0] and op in ("!=", ">") and const_of(c["rhs"]) == 0:
                        cut[b.id] = 0
                    elif l == guard_fields[0] and op == "==" and const_of(c["rhs"]) == 0:
                        cut[b.id] = 1
            if cut and f.dominated_by((s.b, s.i), edge_ok=lambda b, k: not (b in cut and k == cut[b])):
                r.ob(f, "slot access through %s line %s guarded by %s" % (cursor, s.line, " vs ".join(guard_fields)))
            else:
                path = f.find_path((f.entry, 0), lambda bb, ii: (bb, ii) == (s.b, s.i),
                                   edge_ok=lambda b, k: not (b in cut and k == cut[b]))
                ctx.fail(r, f, "unguarded slot access via %s" % cursor.split(".")[1], s.line,
                         "ring slot access through %s is reachable without passing the %s guard"
                         % (cursor, "len < cap" if len(guard_fields) == 2 else "len != 0"), f.path_lines(path))


def rule_r3(ctx):
    r = ctx.rule("C18.R3", "T7", "nni_msgq state (mq_len, mq_get, mq_put, mq_cap, mq_alloc, mq_msgs, aio queues) is read and "
                 "written only with mq_lock held, outside init/fini", floor=40)
    prog = ctx.prog
    FIELDS = {"nni_msgq.mq_len", "nni_msgq.mq_get", "nni_msgq.mq_put", "nni_msgq.mq_cap", "nni_msgq.mq_alloc",
              "nni_msgq.mq_msgs", "nni_msgq.mq_closed"}
    # helpers documented as "call with the lock held"
    callers = prog.callers()
    for f in prog.fns_in("core/msgqueue.c"):
        if f.name in ("nni_msgq_init", "nni_msgq_fini"):
            continue
        info = lockinfo(f)
        locks_here = bool(info.acquires)
        for s in f.sites():
            n = s.node
            if n.get("k") != "mem" or last_field(n) not in FIELDS:
                continue
            held = info.visits.get((s.b, s.i), [])
            if locks_here:
                if held and all(any(c == "nni_msgq.mq_lock" for _, c in h) for h in held):
                    r.ob(f, "%s line %s under mq_lock" % (n["f"], s.line))
                elif f.name == "nni_msgq_resize" and last_field(n) == "nni_msgq.mq_alloc" and \
                        not any(t.node["lhs"] is n for t in f.assigns()) and \
                        f.dominated_by((s.b, s.i), blocked=lambda b, i, e: any(
                            m.get("k") == "call" and m.get("fn") == "nni_mtx_lock" for m in walk(e))) is False and \
                        not any(m.get("k") == "call" and m.get("fn") == "nni_mtx_lock"
                                for (bb, ii) in f.reach((f.entry, 0), blocked=lambda b, i, e: (b, i) == (s.b, s.i))
                                if ii < len(f.blocks[bb].elems) and f.blocks[bb].elems[ii] is not None
                                for m in walk(f.blocks[bb].elems[ii])):
                    r.exception("nni_msgq_resize: read of mq_alloc before the lock",
                                "sizing decision only: the drop loop under the lock guarantees mq_len <= cap + 1 < alloc, so a "
                                "stale mq_alloc can at worst allocate a ring that is not needed; nothing is indexed with it")
                    r.ob(f, "excepted: pre-lock read of mq_alloc")
                else:
                    ctx.fail(r, f, "%s accessed without mq_lock" % n["f"], s.line,
                             "%s is accessed at line %s on a path where mq_lock is not held" % (last_field(n), s.line))
            else:
                # helper: every caller in this file must hold the lock at the call
                # (init and fini run before the queue is shared / after the last user is gone and are exempt themselves)
                cs = [(c, cs_) for (c, cs_) in callers.get(f.name, []) if c.file == f.file and
                      c.name not in ("nni_msgq_init", "nni_msgq_fini")]
                ok = bool(cs) or bool(callers.get(f.name))
                for c, cs_ in cs:
                    ci = lockinfo(c)
                    hv = ci.visits.get((cs_.b, cs_.i), [])
                    if not hv or not all(any(cl == "nni_msgq.mq_lock" for _, cl in h) for h in hv):
                        ok = False
                if ok:
                    r.ob(f, "%s line %s: helper called with mq_lock held by all callers" % (n["f"], s.line))
                else:
                    ctx.fail(r, f, "%s accessed in helper without mq_lock" % n["f"], s.line,
                             "%s is accessed in %s, which does not take mq_lock, and not every caller holds it"
                             % (last_field(n), f.name))


def rule_r5(ctx):
    r = ctx.rule("C18.R5", "T11", "id ranges: the static maps for sockets, contexts, pipes, dialers and listeners are "
                 "initialised with [1, 0x7fffffff]; request / survey id maps with [0x80000000, 0xffffffff]; public id "
                 "getters report -1 for non-positive ids", floor=7)
    prog = ctx.prog
    want_static = {"sock_ids": "core/socket.c", "ctx_ids": "core/socket.c", "pipes": "core/pipe.c",
                   "dialers": "core/dialer.c", "listeners": "core/listener.c"}
    found = 0
    for g in prog.globals:
        if g["name"] in want_static and g["file"].endswith(want_static[g["name"]]) and g.get("rec") in ("nni_id_map", "nng_id_map_s"):
            init = g.get("init")
            if not init or init.get("k") != "init":
                raise AnalysisBroken("static id map %s has no initialiser" % g["name"])
            lo = const_of(init["fields"].get("id_min_val"))
            hi = const_of(init["fields"].get("id_max_val"))
            found += 1
            if lo == 1 and hi == 0x7fffffff:
                r.ob(None, "%s: [%s, %#x]" % (g["name"], lo, hi))
            else:
                ctx.fail(r, None, "range of %s" % g["name"], g["line"],
                         "static id map %s is initialised with [%s, %s], expected [1, 0x7fffffff]" % (g["name"], lo, hi),
                         file=g["file"])
    if found < 5:
        raise AnalysisBroken("only %d of the 5 static id maps found" % found)
    for fname, file, fld in (("req0_sock_init", "reqrep0/req.c", "requests"), ("surv0_sock_init", "survey0/survey.c", "surveys")):
        f = prog.need(fname, file)
        ok = False
        for s in f.calls("nni_id_map_init"):
            a = [f.expand(x) for x in s.node["args"]]
            if fld in show(a[0]):
                lo, hi = const_of(a[1]), const_of(a[2])
                if lo == 0x80000000 and hi == 0xffffffff:
                    ok = True
                    r.ob(f, "%s: [%#x, %#x]" % (fld, lo, hi))
                else:
                    ctx.fail(r, f, "range of %s" % fld, s.line,
                             "%s id map initialised with [%s, %s], expected [0x80000000, 0xffffffff] (request/survey ids carry "
                             "bit 31, pipe ids do not)" % (fld, lo, hi))
                    ok = True
        if not ok:
            raise AnalysisBroken("%s does not initialise %s any more" % (fname, fld))


def rule_r7(ctx):
    r = ctx.rule("C18.R7", "T1", "id allocation: the store of a new id is dominated by the in-use test (id_find == -1), a full "
                 "map is refused first, the cursor wraps from id_max_val to id_min_val, and nothing but nni_id_alloc and "
                 "nni_id_map_init writes the cursor (ids are not re-issued before the range wraps)", floor=5)
    prog = ctx.prog
    f = prog.need("nni_id_alloc", "core/idhash.c")
    sets = [s for s in f.calls("nni_id_set")]
    finds = [s for s in f.calls("id_find")]
    if not sets or not finds:
        raise AnalysisBroken("nni_id_alloc no longer calls id_find / nni_id_set")
    # in-use test: loop exit edge where id_find(...) == (size_t)-1
    cut = {}
    for s in finds:
        for b in f.blocks.values():
            c = f.cond(b.id) if b.term and len(b.succs) == 2 else None
            if c is None or c.get("k") != "bin" or c.get("op") not in ("==", "!="):
                continue
            if any(x.get("_id") == s.node.get("_id") for x in walk(c)):
                other = c["rhs"] if any(x.get("_id") == s.node.get("_id") for x in walk(c["lhs"])) else c["lhs"]
                cv = const_of(other)
                if cv is not None and (cv == -1 or cv == 0xffffffffffffffff or str(cv) == "18446744073709551615"):
                    cut[b.id] = 0 if c["op"] == "==" else 1
    for s in sets:
        if cut and f.dominated_by((s.b, s.i), edge_ok=lambda b, k: not (b in cut and k == cut[b])):
            r.ob(f, "nni_id_set line %s dominated by id_find(...) == -1" % s.line)
        else:
            ctx.fail(r, f, "nni_id_set without in-use test", s.line,
                     "a new id is stored without passing the id_find(m, id) == -1 edge: a live id can be handed out again")
    # full map refused before the search loop
    full = False
    for b in f.blocks.values():
        c = f.cond(b.id) if b.term and len(b.succs) == 2 else None
        if c is not None and c.get("k") == "bin" and c.get("op") in (">", ">=") and last_field(c["lhs"]) in ("nni_id_map.id_count", "nng_id_map_s.id_count"):
            if f.dominated_by((finds[0].b, finds[0].i), edge_ok=lambda bb, k, b=b: not (bb == b.id and k == 1)):
                full = True
    if full:
        r.ob(f, "full map refused before the search loop")
    else:
        ctx.fail(r, f, "no full-map test before search", f.line,
                 "the id search loop is reachable without passing the id_count > range test: with every id in use it never ends")
    # cursor wrap
    wrap = False
    for b in f.blocks.values():
        c = f.cond(b.id) if b.term and len(b.succs) == 2 else None
        if c is not None and c.get("k") == "bin" and c.get("op") in (">", ">=") and \
                (last_field(c["lhs"]) or "").endswith(".id_dyn_val") and (last_field(c["rhs"]) or "").endswith(".id_max_val"):
            t = b.succs[0]
            if t is not None and any(m.get("k") == "asg" and (last_field(m["lhs"]) or "").endswith(".id_dyn_val") and
                                     (last_field(f.expand(m["rhs"])) or "").endswith(".id_min_val")
                                     for e in f.blocks[t].elems if e is not None for m in walk(e)):
                wrap = True
    if wrap:
        r.ob(f, "cursor wraps id_max_val -> id_min_val")
    else:
        ctx.fail(r, f, "cursor wrap missing", f.line, "id_dyn_val is not wrapped from id_max_val to id_min_val")
    # inside the allocator the cursor is (re)seeded only when it was never used, and otherwise only stepped / wrapped
    fresh = G.rel_edges(f, lambda n: (last_field(n) or "").endswith(".id_dyn_val"), lambda n: const_of(n) == 0, "==")
    wrapped = G.rel_edges(f, lambda n: (last_field(n) or "").endswith(".id_dyn_val"),
                          lambda n: (last_field(n) or "").endswith(".id_max_val"), ">")
    for t in f.assigns():
        if not (t.node["lhs"].get("k") == "mem" and (last_field(t.node["lhs"]) or "").endswith(".id_dyn_val")) or t.node.get("op") != "=":
            continue
        if (fresh and G.dominated(f, (t.b, t.i), fresh)) or (wrapped and G.dominated(f, (t.b, t.i), wrapped)):
            r.ob(f, "cursor assigned line %s only when unused or wrapping" % t.line)
        else:
            ctx.fail(r, f, "cursor re-seeded on an ordinary allocation", t.line,
                     "id_dyn_val is assigned at line %s outside the first-use (id_dyn_val == 0) and wrap (id_dyn_val > id_max_val) "
                     "cases: every allocation starts the search again, so an id that was just released is handed out at once and "
                     "stale handles name a new object" % t.line)
    # who may write the cursor
    ALLOWED = {"nni_id_alloc", "nni_id_map_init"}
    # file-local helpers that only the allocator calls are part of the allocator
    cl = prog.callers()
    for g in prog.fns_in("core/idhash.c"):
        cs = cl.get(g.name, [])
        if g.static and cs and all(c_.name in ("nni_id_alloc",) for c_, _ in cs):
            ALLOWED.add(g.name)
    for g in prog.functions:
        for t in g.assigns():
            lf = last_field(t.node["lhs"]) if t.node["lhs"].get("k") == "mem" else None
            if lf and lf.endswith(".id_dyn_val"):
                if g.name in ALLOWED:
                    r.ob(g, "%s writes the cursor (allowed)" % g.name)
                else:
                    ctx.fail(r, g, "id_dyn_val written outside the allocator", t.line,
                             "%s assigns the id cursor: ids may be re-issued before the range wraps" % g.name)
        for s in g.sites():
            n = s.node
            if n.get("k") == "un" and n.get("op") in ("++", "--") and (last_field(n["e"]) or "").endswith(".id_dyn_val") \
                    and g.name not in ALLOWED:
                ctx.fail(r, g, "id_dyn_val written outside the allocator", s.line,
                         "%s moves the id cursor" % g.name)
    # nobody but the map's owner functions frees / re-initialises a live map from remove paths
    rem = prog.need("nni_id_remove", "core/idhash.c")
    for s in rem.calls(("nni_id_map_fini", "nni_id_map_init")):
        ctx.fail(r, rem, "%s from nni_id_remove" % s.node["fn"], s.line,
                 "nni_id_remove re-initialises the map: allocation state (cursor) is lost when the map empties")
    r.ob(rem, "nni_id_remove does not re-initialise the map")



def rule_r8(ctx):
    r = ctx.rule("C18.R8", "T3", "a cursor is wrapped with the extent of the ring it will index: in a function that replaces a "
                 "ring's mask / allocation size, no cursor field keeps a value computed from that field before the new value is stored",
                 floor=1)
    prog = ctx.prog
    EXTENT = {"nni_lmq.lmq_mask": ("nni_lmq.lmq_get", "nni_lmq.lmq_put"), "nni_lmq.lmq_alloc": ("nni_lmq.lmq_get", "nni_lmq.lmq_put"),
              "nni_msgq.mq_alloc": ("nni_msgq.mq_get", "nni_msgq.mq_put")}
    n = 0
    for f in prog.fns_in("core/lmq.c", "core/msgqueue.c"):
        if f.cfg_failed:
            continue
        for ext, cursors in EXTENT.items():
            sets = [t for t in f.assigns() if t.node["lhs"].get("k") == "mem" and last_field(t.node["lhs"]) == ext and
                    t.node.get("op") == "="]
            if not sets:
                continue
            for t in f.assigns():
                if t.node["lhs"].get("k") != "mem" or last_field(t.node["lhs"]) not in cursors:
                    continue
                rhs = f.expand(t.node["rhs"])
                uses = [m for m in walk(rhs) if m.get("k") == "mem" and last_field(m) == ext]
                if not uses:
                    continue
                n += 1
                # the value survives the replacement: the extent store is reachable from here without the cursor being
                # assigned again (draining the old ring before it is replaced re-assigns the cursor afterwards)
                again = {(y.b, y.i) for y in f.assigns() if y.node["lhs"].get("k") == "mem" and
                         last_field(y.node["lhs"]) == last_field(t.node["lhs"]) and (y.b, y.i) != (t.b, t.i)}
                after = f.reach((t.b, t.i + 1), blocked=lambda b, i, e: (b, i) in again)
                stale = [x for x in sets if (x.b, x.i) in after]
                fresh = [x for x in sets if (t.b, t.i) in f.reach((x.b, x.i + 1))]
                if stale:
                    ctx.fail(r, f, "%s computed from the old %s" % (last_field(t.node["lhs"]), ext.split(".")[1]), t.line,
                             "%s at line %s reads %s, which this function replaces at line %s afterwards: the cursor is wrapped "
                             "for the old ring and indexes the new one at the wrong slot (messages are overwritten or skipped)"
                             % (show(t.node["lhs"]), t.line, ext, stale[0].line))
                else:
                    r.ob(f, "%s uses the %s stored at line %s" % (show(t.node["lhs"]), ext.split(".")[1], fresh[0].line if fresh else "?"))
    # the extent saved for walking the *old* ring is its allocation size, not something derived from the capacity
    for f in prog.fns_in("core/lmq.c", "core/msgqueue.c"):
        if f.cfg_failed:
            continue
        for b in f.blocks.values():
            c = f.cond(b.id) if b.term and len(b.succs) == 2 else None
            if c is None or c.get("k") != "bin" or c["op"] not in ("==", ">=") or c["rhs"].get("k") != "var":
                continue
            lhs_v = G.resolve(f, c["lhs"], (b.id, len(b.elems))) if c["lhs"].get("k") == "var" else c["lhs"]
            if not (lhs_v is not None and (cursor_key(lhs_v) in CURSOR_FIELDS or
                                           (c["lhs"].get("k") == "var" and any(cursor_key(x) in CURSOR_FIELDS for _, x in G.var_defs(f, c["lhs"]["n"]) if x is not None)))):
                continue
            ext = G.resolve(f, c["rhs"], (b.id, len(b.elems)))
            lf = last_field(ext) if ext is not None and ext.get("k") == "mem" else None
            if lf in ("nni_msgq.mq_alloc", "nni_lmq.lmq_alloc"):
                r.ob(f, "old-ring wrap compares with %s" % lf)
            else:
                ctx.fail(r, f, "old ring walked with the wrong extent", f.line_of(b.id, 0),
                         "the cursor %s wraps at %s = %s, which is not the allocation size of the ring it walks: entries are read "
                         "from the wrong slots (lost or duplicated messages)" % (show(c["lhs"]), show(c["rhs"]), show(ext)))
    if n < 1:
        raise AnalysisBroken("no cursor computed from a ring extent in a function that replaces it")


# ---------------------------------------------------------------------------
# R9: the mask belongs to the storage; R10: draining is controlled by the count

import re as _re   # noqa: E402


def _effective(f, stores):
    """the stores (positions) that can reach the exit without another store of the set intervening"""
    pos = {(t.b, t.i) for t in stores}
    return [t for t in stores if (f.exit, 0) in f.reach((t.b, t.i + 1), blocked=lambda b, i, e: (b, i) in pos)]


def rule_r9(ctx):
    r = ctx.rule("C18.R9", "T3", "the index mask belongs to the storage: a function that installs the storage of an nni_lmq (the embedded "
                 "array or a fresh allocation of `alloc` slots) leaves lmq_mask = (number of slots - 1) on every path -- with any "
                 "other mask two cursors alias one slot and queued messages are overwritten or returned twice", floor=2)
    prog = ctx.prog
    rec = prog.records.get("nni_lmq") or {}
    n = 0
    for f in prog.fns_in("core/lmq.c"):
        if f.cfg_failed:
            continue
        st = [t for t in f.assigns() if t.node["lhs"].get("k") == "mem" and last_field(t.node["lhs"]) == "nni_lmq.lmq_msgs" and t.node.get("op") == "="]
        if not st:
            continue
        masks = [t for t in f.assigns() if t.node["lhs"].get("k") == "mem" and last_field(t.node["lhs"]) == "nni_lmq.lmq_mask" and t.node.get("op") == "="]
        for t in _effective(f, st):
            n += 1
            src = f.expand(t.node["rhs"])
            want = None
            if src is not None and src.get("k") == "mem":
                fld = [x for x in rec.get("fields", ()) if x["n"] == src.get("f")]
                m = _re.search(r"\[(\d+)\]", fld[0].get("t", "")) if fld else None
                if m:
                    want = ("const", int(m.group(1)) - 1)
            elif src is not None and src.get("k") == "var":
                # new_q = nni_alloc(sizeof (..) * alloc)
                for _, d in G.var_defs(f, src["n"]):
                    if d is not None and d.get("k") == "call" and d.get("fn") in ("nni_alloc", "nni_zalloc") and d["args"]:
                        a = f.expand(d["args"][0])
                        if a is not None and a.get("k") == "bin" and a["op"] == "*":
                            for x in (a["lhs"], a["rhs"]):
                                if x.get("k") == "var":
                                    want = ("var", x["n"])
            if want is None:
                raise AnalysisBroken("%s: cannot tell how many slots %s has" % (f.name, show(src)))
            eff = _effective(f, masks)
            covered = masks and f.dominated_by((f.exit, 0), blocked=lambda b, i, e: (b, i) in {(m_.b, m_.i) for m_ in masks} or
                                               (b, i) in {(c.b, c.i) for c in f.calls("nni_lmq_resize")}) or not f.reaches_exit((t.b, t.i + 1))
            bad = None
            for m_ in eff:
                v = f.expand(m_.node["rhs"])
                if want[0] == "const":
                    ok = const_of(v) == want[1]
                else:
                    ok = v is not None and v.get("k") == "bin" and v["op"] == "-" and v["lhs"].get("k") == "var" and v["lhs"]["n"] == want[1] and const_of(v["rhs"]) == 1
                if not ok:
                    bad = m_
            wtxt = str(want[1]) if want[0] == "const" else "%s - 1" % want[1]
            if bad is not None or not eff:
                ctx.fail(r, f, "lmq_mask left at %s, storage has other extent" % (show(bad.node["rhs"]) if bad is not None else "its old value"),
                         (bad or t).line,
                         "%s installs %s as the ring storage (line %s) but returns with lmq_mask = %s instead of %s: indices are "
                         "wrapped with the wrong extent, so two positions of the queue share a slot"
                         % (f.name, show(src), t.line, show(bad.node["rhs"]) if bad is not None else "(unchanged)", wtxt))
            else:
                r.ob(f, "storage %s line %s: lmq_mask = %s on every path" % (show(src), t.line, wtxt))
    if n < 2:
        raise AnalysisBroken("only %d functions install lmq storage" % n)


def rule_r10(ctx):
    r = ctx.rule("C18.R10", "T1", "draining is controlled by the count: nni_lmq_flush (and the drain loop of nni_lmq_fini) returns only after "
                 "the test lmq_len > 0 has failed -- get == put cannot tell a full ring from an empty one, so a completely full "
                 "queue would survive the flush", floor=2)
    prog = ctx.prog
    n = 0
    for name in ("nni_lmq_flush", "nni_lmq_fini"):
        f = prog.need(name, "core/lmq.c")
        frees = [c for c in f.calls(("nni_msg_free",))]
        if not frees and name != "nni_lmq_flush" and any(True for _ in f.calls("nni_lmq_flush")):
            n += 1
            r.ob(f, "drains through nni_lmq_flush")
            continue
        if not frees:
            raise AnalysisBroken("%s no longer releases the queued messages" % name)
        n += 1
        is_len = lambda m: m is not None and m.get("k") == "mem" and last_field(m) == "nni_lmq.lmq_len"
        zero = lambda m: m is not None and const_of(m) == 0
        edges = dict(G.rel_edges(f, is_len, zero, "<="))
        edges.update(G.rel_edges(f, is_len, zero, "=="))
        for b, k in G.nz_edges(f, is_len).items():
            edges.setdefault(b, 1 - k)
        # a refused nni_lmq_get is the queue's own "count is zero" answer
        for c in f.calls("nni_lmq_get"):
            for b, (nz, z) in f.value_edges(c).items():
                edges.setdefault(b, nz)
        # from the loop (any release of a message) the exit is reached only over an edge on which the count is zero
        bad = None
        for c in frees:
            if (f.exit, 0) in f.reach((c.b, c.i + 1), edge_ok=lambda b, k: not (b in edges and edges[b] == k)):
                bad = c
        if bad is not None or not edges:
            ctx.fail(r, f, "drain loop not controlled by lmq_len", (bad or frees[0]).line,
                     "%s can stop releasing messages without having seen lmq_len reach zero: a ring whose cursors coincide "
                     "because it is completely full is left as it is" % name)
        else:
            r.ob(f, "drain loop ends only when lmq_len is zero")


def rule_r11(ctx):
    r = ctx.rule("C18.R11", "T3", "the recorded extent belongs to the storage: in msgqueue.c every path that stores mq_alloc (the number of "
                 "slots the wrap tests and the final free use) also installs the ring it describes (a store to mq_msgs) -- an "
                 "extent changed on its own makes the cursors wrap at the wrong place and the ring is released with the wrong "
                 "size", floor=2)
    prog = ctx.prog
    n = 0
    for f in prog.fns_in("core/msgqueue.c"):
        if f.cfg_failed:
            continue
        ext = [t for t in f.assigns() if t.node["lhs"].get("k") == "mem" and last_field(t.node["lhs"]) == "nni_msgq.mq_alloc"]
        if not ext:
            continue
        sto = {(t.b, t.i) for t in f.assigns() if t.node["lhs"].get("k") == "mem" and last_field(t.node["lhs"]) == "nni_msgq.mq_msgs"}
        for t in ext:
            n += 1
            before = bool(sto) and f.dominated_by((t.b, t.i), blocked=lambda b, i, e: (b, i) in sto)
            after = bool(sto) and (f.exit, 0) not in f.reach((t.b, t.i + 1), blocked=lambda b, i, e: (b, i) in sto)
            if before or after:
                r.ob(f, "mq_alloc line %s: the ring is installed on the same paths" % t.line)
            else:
                ctx.fail(r, f, "mq_alloc stored without installing the ring it describes", t.line,
                         "%s stores mq_alloc at line %s on a path that leaves mq_msgs as it was: put/get wrap at an extent the "
                         "ring does not have (slots beyond it are never reached, or it is overrun), and nni_msgq_fini frees the "
                         "ring with the wrong size" % (f.name, t.line))
    if n < 2:
        raise AnalysisBroken("only %d stores to mq_alloc found" % n)


def rule_r12(ctx):
    r = ctx.rule("C18.R12", "T9", "a slot of the id map is occupied iff its value is non-NULL: every function of idhash.c decides occupancy by "
                 "testing `.val`; the key is only ever compared with the id being looked for -- comparing a slot's key with a "
                 "constant treats the legal id 0 as 'empty' (the entry is found by get and remove but never visited)", floor=4)
    prog = ctx.prog
    n = 0
    for f in prog.fns_in("core/idhash.c"):
        if f.cfg_failed:
            continue
        seen = set()
        for bid, k, atom, val in G.edge_facts(f):
            if (bid, show(atom)) in seen:
                continue
            seen.add((bid, show(atom)))
            mems = [m for m in walk(atom) if m.get("k") == "mem" and (last_field(m) or "").startswith("nni_id_entry.")]
            if not mems:
                continue
            flds = {m.get("f") for m in mems}
            if "val" in flds:
                n += 1
                r.ob(f, "occupancy decided by %s" % show(atom))
            if "key" in flds and atom.get("k") == "bin" and (const_of(atom["lhs"]) is not None or const_of(atom["rhs"]) is not None):
                n += 1
                ctx.fail(r, f, "slot key compared with a constant", f.line_of(bid, 0),
                         "%s tests %s: a slot's key says nothing about whether the slot is in use (0 is a legal id, and a removed "
                         "slot keeps no meaningful key); the sibling functions test .val" % (f.name, show(atom)))
    if n < 4:
        raise AnalysisBroken("only %d slot tests found in idhash.c" % n)


# ---------------------------------------------------------------------------
# R14: the table stays in place under the operations that are allowed while iterating

ITER_SAFE = ("nni_id_remove",)     # docs/ref/api/id_map.md: "Entries may be safely removed from map while iterating."


def _count_zero_edges(f):
    """{(block, succ)}: edges on which the map's id_count is known to be zero"""
    out = set()

    def is_count(n):
        while n is not None and n.get("k") == "cast":
            n = n["e"]
        return n is not None and n.get("k") == "mem" and (last_field(n) or "").endswith(".id_count")
    for bid, k, atom, val in G.edge_facts(f):
        if is_count(atom) and not val:
            out.add((bid, k))
        elif atom.get("k") == "bin":
            l, r_, op = atom["lhs"], atom["rhs"], atom["op"]
            if is_count(r_) and not is_count(l):
                l, r_ = r_, l
                op = {"<": ">", ">": "<", "<=": ">=", ">=": "<="}.get(op, op)
            if not is_count(l):
                continue
            c = const_of(r_)
            if (op == "==" and c == 0 and val) or (op == "!=" and c == 0 and not val) or (op == ">" and c == 0 and not val) or \
                    (op == ">=" and c == 1 and not val) or (op == "<" and c == 1 and val) or (op == "<=" and c == 0 and val):
                out.add((bid, k))
    return out


def rule_r14(ctx):
    r = ctx.rule("C18.R14", "T2", "the visit cursor is an index into the table, and entries may be removed while iterating: nni_id_remove "
                 "replaces the table (a call that reaches a store of new storage into id_entries / a new extent into id_cap) only "
                 "on the edge on which the map has become empty -- a rehash with entries left moves them under the cursor and "
                 "nng_id_visit never reports them", floor=1)
    prog = ctx.prog
    fns = [f for f in prog.fns_in("core/idhash.c") if not f.cfg_failed]
    reloc = set()
    for f in fns:
        for t in f.assigns():
            l = t.node["lhs"]
            if l.get("k") == "mem" and (last_field(l) or "").endswith(("nni_id_map.id_entries", "nni_id_map.id_cap")):
                rhs = f.expand(t.node["rhs"])
                if not is_null(rhs) and const_of(rhs) != 0:
                    reloc.add(f.name)
    if not reloc:
        raise AnalysisBroken("no function of idhash.c installs table storage (id_entries / id_cap)")
    changed = True
    while changed:      # static helpers that reach a relocator
        changed = False
        for f in fns:
            if f.name not in reloc and f.static and any(c.node.get("fn") in reloc for c in f.calls()):
                reloc.add(f.name)
                changed = True
    for name in ITER_SAFE:
        f = prog.need(name, "core/idhash.c")
        zero = _count_zero_edges(f)
        sites = [c for c in f.calls() if c.node.get("fn") in reloc]
        writes = {(t.b, t.i) for t in f.sites() if (
            (t.node.get("k") == "asg" and t.node["lhs"].get("k") == "mem" and (last_field(t.node["lhs"]) or "").endswith(".id_count")) or
            (t.node.get("k") == "un" and t.node.get("op") in ("++", "--") and (last_field(t.node["e"]) or "").endswith(".id_count")))}
        if name in reloc and not f.static:
            direct = [t for t in f.assigns() if t.node["lhs"].get("k") == "mem" and
                      (last_field(t.node["lhs"]) or "").endswith(("nni_id_map.id_entries", "nni_id_map.id_cap"))]
            for t in direct:
                ctx.fail(r, f, "%s replaces the table itself" % name, t.line,
                         "%s stores into %s: the table moves under a visit cursor" % (name, show(t.node["lhs"])))
        if not sites:
            r.ob(f, "%s reaches no function that replaces the table (%s)" % (name, ", ".join(sorted(reloc))))
        for c in sites:
            # dominated by an id_count == 0 edge, with no later change of id_count on the way to the call
            ok = False
            for (b, k) in zero:
                if not G.dominated(f, (c.b, c.i), {b: k}):
                    continue
                succ = f.blocks[b].succs[k]
                if succ is None:
                    continue
                seen = f.reach((succ, 0), blocked=lambda bb, ii, e: (bb, ii) in writes)
                if (c.b, c.i) in seen and not any(w in seen and (c.b, c.i) in f.reach((w[0], w[1] + 1)) for w in writes):
                    ok = True
                    break
            if ok:
                r.ob(f, "%s at line %s only once the map is empty" % (c.node["fn"], c.line))
            else:
                ctx.fail(r, f, "%s rehashes with entries left" % name, c.line,
                         "%s calls %s at line %s without having established id_count == 0: the table is replaced while "
                         "entries remain, a cursor handed out by nni_id_visit then points into unrelated slots and live "
                         "entries are skipped (docs: entries may be removed while iterating)" % (name, c.node["fn"], c.line))


# ---------------------------------------------------------------------------
# R15: a send buffer that grows admits the senders blocked on it

def overflow_pairs(prog):
    """{(queue field, wait-list field): parking function}: a send function that parks the caller's aio on a list of the
    object after nni_lmq_put into a queue of the same object did not take the message"""
    out = {}
    for f in prog.functions:
        if f.cfg_failed or "/sp/protocol/" not in "/" + f.file:
            continue
        puts = [c for c in f.calls("nni_lmq_put") if c.node["args"]]
        if not puts or not list(f.calls("nni_aio_start")):
            continue
        for c in puts:
            q = last_field(f.expand(c.node["args"][0]))
            after = f.reach((c.b, c.i + 1))
            for a in f.calls(("nni_aio_list_append", "nni_list_append")):
                if (a.b, a.i) in after and a.node["args"]:
                    w = last_field(f.expand(a.node["args"][0]))
                    if q and w and q.split(".")[0] == w.split(".")[0]:
                        out.setdefault((q, w), f)
    return out


def rule_r15(ctx):
    r = ctx.rule("C18.R15", "T2", "a send buffer that grows admits the senders blocked on it: where a protocol parks senders on a wait list "
                 "because nni_lmq_put found the buffer full, every function that resizes that buffer looks at the wait list "
                 "(nni_list_first) before it releases the lock -- the send path puts a new message straight into a buffer with "
                 "room, so with waiters left behind a message submitted later is delivered before them", floor=3)
    r.follows_values = True      # the waiter is followed through a local: the temporaries-propagated view hides the repeated test
    prog = ctx.prog
    pairs = overflow_pairs(prog)
    if len(pairs) < 3:
        raise AnalysisBroken("only %d (buffer, wait list) pairs found in the protocols" % len(pairs))
    n = 0

    def is_unlock(e):
        return e is not None and any(m.get("k") == "call" and m.get("fn") == "nni_mtx_unlock" for m in walk(e))
    for (q, w), parker in sorted(pairs.items()):
        for f in prog.fns_in(parker.file):
            if f.cfg_failed:
                continue
            for c in f.calls("nni_lmq_resize"):
                if not c.node["args"] or last_field(f.expand(c.node["args"][0])) != q:
                    continue
                n += 1
                serve = set()
                for b in f.blocks.values():
                    for i, e in enumerate(b.elems):
                        for m in walk(f.expand(e)):
                            if m.get("k") == "call" and m.get("fn") == "nni_list_first" and m.get("args") and \
                                    last_field(f.expand(m["args"][0])) == w:
                                serve.add((b.id, i))
                    cnd = f.cond(b.id) if b.term else None
                    if cnd is not None and any(m.get("k") == "call" and m.get("fn") == "nni_list_first" and m.get("args") and
                                               last_field(f.expand(m["args"][0])) == w for m in walk(cnd)):
                        serve.add((b.id, len(b.elems)))
                # with the buffer (still) full there is nobody to admit: edges on which nni_lmq_full(Q) holds are not followed
                full = {}
                for bid, k, atom, val in G.edge_facts(f):
                    if val and atom.get("k") == "call" and atom.get("fn") == "nni_lmq_full" and atom.get("args") and \
                            last_field(f.expand(atom["args"][0])) == q:
                        full[bid] = k
                after = f.reach((c.b, c.i + 1), blocked=lambda b, i, e: (b, i) in serve,
                                edge_ok=lambda b, k: not (b in full and full[b] == k))
                leak = [(b, i) for (b, i) in after if (i < len(f.blocks[b].elems) and is_unlock(f.blocks[b].elems[i])) or (b, i) == (f.exit, 0)]
                if leak:
                    ctx.fail(r, f, "%s resized without admitting %s" % (q, w), c.line,
                             "%s resizes %s (line %s) and releases the lock (line %s) without looking at %s, where %s parks "
                             "senders that found the buffer full: they stay parked beside free room and the next send goes "
                             "into the buffer ahead of them" % (f.name, q, c.line, f.line_of(*leak[0]), w, parker.name))
                else:
                    r.ob(f, "%s line %s: waiters on %s admitted before the lock is released" % (q, c.line, w))
                # ... and admitted one after the other until the buffer is full or nobody waits: after each admission
                # (a put into the buffer that follows the resize) the wait list is looked at again
                puts = [k for k in f.calls("nni_lmq_put") if k.node["args"] and last_field(f.expand(k.node["args"][0])) == q and
                        (k.b, k.i) in f.reach((c.b, c.i + 1))]
                for k in puts:
                    n += 1
                    aft = f.reach((k.b, k.i + 1), blocked=lambda b, i, e: (b, i) in serve,
                                  edge_ok=lambda b, kk: not (b in full and full[b] == kk))
                    lk = [(b, i) for (b, i) in aft if (i < len(f.blocks[b].elems) and is_unlock(f.blocks[b].elems[i])) or (b, i) == (f.exit, 0)]
                    if lk:
                        ctx.fail(r, f, "only one waiter of %s admitted after the resize of %s" % (w, q), k.line,
                                 "%s admits a blocked sender into %s (line %s) and then releases the lock (line %s) without "
                                 "looking at %s again: when the buffer grew by more than one slot the other waiters stay parked "
                                 "beside free room, and a later send overtakes them" % (f.name, q, k.line, f.line_of(*lk[0]), w))
                    else:
                        r.ob(f, "admission at line %s is repeated until %s is full or %s is empty" % (k.line, q, w))
    if n < 3:
        raise AnalysisBroken("only %d resizes of buffers with a wait list found" % n)


# ---------------------------------------------------------------------------
# R16: an iteration over an id map starts at cursor 0

def rule_r16(ctx):
    r = ctx.rule("C18.R16", "T3", "an iteration over an id map starts at the beginning: every local whose address is passed to nni_id_visit as the "
                 "cursor is set to 0 on every path before the first call (the documented protocol of nng_id_visit) -- from an "
                 "uninitialised cursor the walk starts anywhere, or past the table, and entries are not visited", floor=2)
    prog = ctx.prog
    n = 0
    for f in prog.functions:
        if f.cfg_failed or f.file.endswith("_test.c") or f.name in ("nng_id_visit", "nni_id_visit"):
            continue
        for c in f.calls("nni_id_visit"):
            a = c.node["args"]
            cur = strip_addr(f.expand(a[3])) if len(a) > 3 and a[3] is not None else None
            if cur is None or cur.get("k") != "var" or cur["n"] in [p_["n"] for p_ in f.params]:
                continue        # the caller's cursor (a parameter or a field): not this function's to initialise
            n += 1
            zero = set()
            for pos, rhs in G.var_defs(f, cur["n"]):
                if rhs is not None and const_of(rhs) == 0:
                    zero.add(pos)
            if zero and f.dominated_by((c.b, c.i), blocked=lambda b, i, e: (b, i) in zero):
                r.ob(f, "cursor %s is 0 before the walk at line %s" % (cur["n"], c.line))
            else:
                ctx.fail(r, f, "nni_id_visit with a cursor that was not set to 0", c.line,
                         "%s passes &%s to nni_id_visit (line %s) and no assignment of 0 to it dominates the call: the walk starts "
                         "at whatever the stack held, entries are skipped or none is visited" % (f.name, cur["n"], c.line))
    if n < 2:
        raise AnalysisBroken("only %d walks over id maps with a local cursor found" % n)


# ---------------------------------------------------------------------------
# R17: every wrap of a msgq cursor uses the extent of the storage; R18: the buffer is served before a blocked writer

def rule_r17(ctx):
    r = ctx.rule("C18.R17", "T9", "the ring of nni_msgq has one extent: every test that wraps a cursor (mq_get / mq_put compared for equality and "
                 "then set to 0) compares it with mq_alloc, the size of the storage, as its siblings do -- a cursor wrapped at the "
                 "capacity (two less) leaves the two sides of the ring walking different rings: slots are skipped, read twice, or "
                 "read before they were written", floor=5)
    prog = ctx.prog
    n = 0
    for f in prog.fns_in("core/msgqueue.c"):
        if f.cfg_failed:
            continue
        for b in f.blocks.values():
            if not b.term or len(b.succs) != 2:
                continue
            c = f.cond(b.id)
            if c is None or c.get("k") != "bin" or c.get("op") not in ("==", ">="):
                continue
            l, rr = c["lhs"], c["rhs"]
            if rr.get("k") == "mem" and last_field(rr) in ("nni_msgq.mq_get", "nni_msgq.mq_put"):
                l, rr = rr, l
            if l.get("k") != "mem" or last_field(l) not in ("nni_msgq.mq_get", "nni_msgq.mq_put"):
                continue
            tgt = b.succs[0]
            zeroed = tgt is not None and any(t.b == tgt and t.node["lhs"].get("k") == "mem" and last_field(t.node["lhs"]) == last_field(l) and
                                             const_of(f.expand(t.node["rhs"])) == 0 for t in f.assigns())
            if not zeroed:
                continue
            n += 1
            if rr.get("k") == "mem" and last_field(rr) == "nni_msgq.mq_alloc":
                r.ob(f, "%s wrapped at mq_alloc (line %s)" % (last_field(l), f.line_of(b.id, 0)))
            else:
                ctx.fail(r, f, "%s wrapped at %s" % (last_field(l), show(rr)), f.line_of(b.id, 0),
                         "%s wraps %s when it equals %s; every other wrap of the ring uses mq_alloc (the storage holds mq_cap + 2 "
                         "slots): the cursor returns to slot 0 early and the two sides of the queue no longer agree on where the "
                         "messages are" % (f.name, last_field(l), show(rr)))
    if n < 5:
        raise AnalysisBroken("only %d cursor wraps found in msgqueue.c" % n)


def rule_r18(ctx):
    r = ctx.rule("C18.R18", "T1", "what was queued first is read first: where nni_msgq serves a reader directly from a blocked writer (the message "
                 "of an aio taken from mq_aio_putq is given to an aio of mq_aio_getq) it has established that the buffer is "
                 "empty (mq_len == 0) -- a writer that blocked because the buffer was full holds the newest message, and serving "
                 "it first delivers it before everything that is buffered", floor=1)
    prog = ctx.prog
    n = 0
    for f in prog.fns_in("core/msgqueue.c"):
        if f.cfg_failed:
            continue
        wvars = {v for v in f.locals() if any(d is not None and any(m.get("k") == "call" and m.get("fn") == "nni_list_first" and m.get("args") and
                                                                   last_field(f.expand(m["args"][0])) == "nni_msgq.mq_aio_putq" for m in walk(d))
                                              for _, d in G.var_defs(f, v))}
        rvars = {v for v in f.locals() if any(d is not None and any(m.get("k") == "call" and m.get("fn") == "nni_list_first" and m.get("args") and
                                                                   last_field(f.expand(m["args"][0])) == "nni_msgq.mq_aio_getq" for m in walk(d))
                                              for _, d in G.var_defs(f, v))}
        if not wvars or not rvars:
            continue
        mvars = {v for v in f.locals() if any(d is not None and any(
            m.get("k") == "call" and m.get("fn") == "nni_aio_get_msg" and m.get("args") and f.expand(m["args"][0]).get("k") == "var" and
            f.expand(m["args"][0])["n"] in wvars for m in walk(d)) for _, d in G.var_defs(f, v))}
        empty = {}
        for bid, k, atom, val in G.edge_facts(f):
            if atom.get("k") == "mem" and last_field(atom) == "nni_msgq.mq_len" and not val:
                empty[bid] = k
            elif atom.get("k") == "bin" and atom.get("op") in ("==", "!=", ">") and atom["lhs"].get("k") == "mem" and \
                    last_field(atom["lhs"]) == "nni_msgq.mq_len" and const_of(atom["rhs"]) == 0:
                if (atom["op"] == "==" and val) or (atom["op"] in ("!=", ">") and not val):
                    empty[bid] = k
        for c in f.calls(("nni_aio_finish_msg", "nni_aio_set_msg")):
            a = [f.expand(x) if x is not None else None for x in c.node["args"]]
            if len(a) > 1 and a[0] is not None and a[0].get("k") == "var" and a[0]["n"] in rvars and a[1] is not None and \
                    a[1].get("k") == "var" and a[1]["n"] in mvars:
                # two locals of the same name in sibling scopes: what reaches this call must be the writer's message
                rd = G.reaching_defs(f, a[1]["n"], (c.b, c.i))
                if not rd or not all(d is not None and any(m.get("k") == "call" and m.get("fn") == "nni_aio_get_msg" for m in walk(d)) for _, d in rd):
                    continue
                if not any(m.get("k") == "idx" and (last_field(f.expand(m["b"])) or "") == "nni_msgq.mq_msgs" and "mq_get" in show(m["i"])
                           for t in f.sites() for m in walk(t.node)):
                    continue        # a function that never reads the ring has no choice to make (run_putq relies on the
                    #                 invariant that a blocked reader means an empty buffer)
                n += 1
                if empty and G.dominated(f, (c.b, c.i), empty):
                    r.ob(f, "reader served from a blocked writer (line %s) only when the buffer is empty" % c.line)
                else:
                    ctx.fail(r, f, "reader served from a blocked writer ahead of the buffer", c.line,
                             "%s gives the message of a writer waiting on mq_aio_putq to a reader (line %s) on a path that has not "
                             "established mq_len == 0: the writer's message is newer than everything in the buffer and is "
                             "delivered first" % (f.name, c.line))
    if n < 1:
        raise AnalysisBroken("no direct writer-to-reader hand-over found in msgqueue.c")


# ---------------------------------------------------------------------------
# R19: a buffer-size option discards only what no longer fits


def rule_r19(ctx):
    from .c12 import walk_global
    r = ctx.rule("C18.R19", "T1", "a buffer-size option discards only what no longer fits: an option handler that resizes a message "
                 "buffer (nni_lmq_resize) leaves the choice of what to drop to the resize, or -- where it takes messages out "
                 "itself and releases them -- does so in a loop controlled by `nni_lmq_len(q) > new capacity` (strictly): with "
                 ">= a buffer that holds exactly as many messages as the new capacity loses one that would have fit, and a "
                 "capacity of 1 discards everything", floor=8)
    prog = ctx.prog
    setget = set()
    for g in prog.globals:
        if "option" in (g.get("type") or "") or "option" in (g.get("name") or ""):
            for m in walk_global(g):
                if m.get("k") == "fnref":
                    setget.add(m["n"])
    n = 0
    for f in prog.functions:
        if f.cfg_failed or f.name not in setget or "/sp/protocol/" not in "/" + f.file:
            continue
        rs = list(f.calls("nni_lmq_resize"))
        if not rs:
            continue
        n += 1
        qs = {last_field(f.expand(c.node["args"][0])) for c in rs if c.node["args"]}
        bad = None
        for c in f.calls("nni_lmq_get"):
            q = last_field(f.expand(c.node["args"][0])) if c.node["args"] else None
            if q not in qs:
                continue
            # is what it takes released?  (put back / handed on is admission, not discarding)
            tgt = f.expand(c.node["args"][1]) if len(c.node["args"]) > 1 and c.node["args"][1] is not None else None
            v = tgt["e"]["n"] if tgt is not None and tgt.get("k") == "un" and tgt.get("op") == "&" and tgt["e"].get("k") == "var" else None
            freed = [k for k in f.calls("nni_msg_free") if v and k.node["args"] and f.expand(k.node["args"][0]).get("k") == "var" and
                     f.expand(k.node["args"][0])["n"] == v and (k.b, k.i) in f.reach((c.b, c.i + 1))]
            if not freed:
                continue
            strict = G.rel_edges(f, lambda x: x.get("k") == "call" and x.get("fn") == "nni_lmq_len" and x["args"] and
                                 last_field(f.expand(x["args"][0])) == q, lambda x: True, ">")
            weak = G.rel_edges(f, lambda x: x.get("k") == "call" and x.get("fn") == "nni_lmq_len" and x["args"] and
                               last_field(f.expand(x["args"][0])) == q, lambda x: True, ">=")
            only_strict = {b: k for b, k in strict.items() if not (b in weak and weak[b] == k and b not in strict)}
            if not strict or not G.dominated(f, (c.b, c.i), only_strict):
                bad = (c, freed[0], q)
        if bad:
            c, k, q = bad
            ctx.fail(r, f, "messages of %s discarded by the option handler beyond what the new size requires" % q, c.line,
                     "%s takes a message out of %s (line %s) and releases it (line %s) without the test nni_lmq_len(..) > new "
                     "capacity controlling that: messages that would still fit after the resize are thrown away"
                     % (f.name, q, c.line, k.line))
        else:
            r.ob(f, "resizes %s and discards nothing beyond what the resize drops" % ", ".join(sorted(x for x in qs if x)))
    if n < 6:
        raise AnalysisBroken("only %d buffer-size option handlers found in the protocols" % n)


# ---------------------------------------------------------------------------
# R20: a saved ring is walked with its own saved extent


def rule_r20(ctx):
    r = ctx.rule("C18.R20", "T9", "a saved ring is walked with its own saved extent: where a function keeps the old storage of a ring in a "
                 "local (oldq = q->msgs) while it installs a new one, the local cursor that indexes that saved array is wrapped "
                 "by comparison with the local that saved the old extent (oldalloc = q->alloc, taken before the new extent is "
                 "stored) -- compared with the new extent, a queue whose content wraps around the end of the old ring is copied "
                 "from beyond the old array, and the messages at its start are left behind", floor=1)
    r.own_opinion = True
    prog = ctx.prog
    n = 0
    for f in prog.fns_in("core/msgqueue.c", "core/lmq.c"):
        if f.cfg_failed:
            continue
        saved_arr = {}      # local -> storage field
        saved_ext = {}      # local -> extent field
        for t in f.assigns():
            l, rhs = t.node["lhs"], f.expand(t.node["rhs"])
            if l.get("k") == "var" and rhs is not None and rhs.get("k") == "mem":
                if rhs["f"] in ("mq_msgs", "lmq_msgs"):
                    saved_arr[l["n"]] = rhs["f"]
                if rhs["f"] in ("mq_alloc", "lmq_alloc"):
                    saved_ext[l["n"]] = rhs["f"]
        if not saved_arr or not saved_ext:
            continue
        # cursors that index a saved array
        cursors = set()
        for t in f.sites():
            for m in walk(f.expand(t.node)):
                if m.get("k") == "idx" and m["b"].get("k") == "var" and m["b"]["n"] in saved_arr:
                    for x in walk(m["i"]):
                        if x.get("k") == "var":
                            cursors.add(x["n"])
        for cur in sorted(cursors):
            for b in f.blocks.values():
                c = f.cond(b.id) if b.term and len(b.succs) == 2 else None
                if c is None or c.get("k") != "bin" or c["op"] not in ("==", ">=", "!=", "<"):
                    continue
                l, rr = c["lhs"], c["rhs"]
                if rr.get("k") == "var" and rr["n"] == cur:
                    l, rr = rr, l
                if not (l.get("k") == "var" and l["n"] == cur):
                    continue
                n += 1
                while rr is not None and rr.get("k") == "cast":
                    rr = rr["e"]
                if rr is not None and rr.get("k") == "var" and rr["n"] in saved_ext:
                    r.ob(f, "cursor %s of the saved ring wraps at %s" % (cur, rr["n"]))
                else:
                    ctx.fail(r, f, "saved ring walked with another extent", f.line_of(b.id, max(len(b.elems) - 1, 0)),
                             "%s wraps %s, the cursor into the saved storage, by comparison with %s instead of the extent saved "
                             "with it (%s): when the two differ the copy runs off the old array or stops short of its end"
                             % (f.name, cur, show(rr) if rr else "?", ", ".join(sorted(saved_ext))))
    if n < 1:
        raise AnalysisBroken("no walk over a saved ring found (nni_msgq_resize had one)")


def run(ctx):
    ctx.guard(rule_r1)
    ctx.guard(rule_r2)
    ctx.guard(rule_r3)
    ctx.guard(rule_r5)
    ctx.guard(rule_r7)
    ctx.guard(rule_r8)
    ctx.guard(rule_r9)
    ctx.guard(rule_r10)
    ctx.guard(rule_r11)
    ctx.guard(rule_r12)
    ctx.guard(rule_r14)
    ctx.guard(rule_r15)
    ctx.guard(rule_r16)
    ctx.guard(rule_r17)
    ctx.guard(rule_r18)
    ctx.guard(rule_r19)
    ctx.guard(rule_r20)
    from . import c08
    ctx.guard(c08.rule_r6)        # the pair sockets' receive buffer stays first-in first-out
    for rr in ctx.rules:
        if rr.id == "C08.R6":
            rr.id = "C18.R13"
