"""C14 -- pipe events ordered; dialers redial; listeners keep accepting."""
from ..core import walk, show, const_of, last_field, truth_of, apath, is_null, AnalysisBroken, same_expr
from .. import guards as G
from . import c04, c11

EXPLANATION = ("C14: pipe callbacks are invoked only from nni_pipe_run_cb, behind the monotone filter on p_last_event and under "
               "the serialising mutex; ADD_PRE, the closed test, the protocol's pipe_start and ADD_POST occur in that order in "
               "both start functions, REM_POST only in pipe_reap between the closes and nni_pipe_remove; a dialer records its "
               "pipe before anything can close it, so that nni_pipe_remove restarts the dial timer; d_connect is reached only "
               "through dialer_connect_start; every non-terminal connect failure without a waiting user restarts the timer and "
               "the timer callback reconnects; listeners keep accepting (C11.R4)."
               " Also: s_want_evs is recomputed on every registration change (R7) and the redial back-off is clamped after every growth (R8).")
EXPLANATION += " Round 3: an operation taken from another endpoint's list is not completed with a code that ends a redial loop (R9)."
EXPLANATION += " Round 5: the connect slot of a transport can be entered again -- no refusal hangs on a one-way latch (R12); a transport that creates the pipe before the connection is confirmed settles the parked connect wherever it gives that pipe up (R13)."
EXPLANATION += ' Taking the head of an array queue moves every remaining entry down by one (R14).'
EXPLANATION += ' Round 6: the cool-down timer accepts again (R6); the posix accept service loops leave a waiting accept only with the poller armed (R15); the transmit latch is released by every completion (R16 = C02.S4).'


def rule_r1(ctx):
    r = ctx.rule("C14.R1", "T10", "single notifier with monotone filter: the user's pipe callback (s_pipe_cbs[].cb_fn) is invoked "
                 "only in nni_pipe_run_cb, after the tests on p_last_event, with p_last_event = ev stored first, under the "
                 "serialising mutex", floor=5)
    prog = ctx.prog
    f = prog.need("nni_pipe_run_cb", "core/socket.c")
    inv = [s for s in f.calls() if "ind" in s.node and s.node["ind"] is not None]
    inv = [s for s in inv if f.expand(s.node["ind"]).get("k") == "var"]
    G.need_sites(inv, "indirect call of the user callback", f)
    # who else reads cb_fn?
    for g in prog.functions:
        for s in g.sites():
            if s.node.get("k") == "mem" and s.node["f"] == "cb_fn" and g.name not in ("nni_pipe_run_cb", "nni_sock_set_pipe_cb"):
                ctx.fail(r, g, "pipe callback read outside nni_pipe_run_cb", s.line, "%s reads s_pipe_cbs[].cb_fn" % g.name)
    r.ob(f, "cb_fn read only in nni_pipe_run_cb / nni_sock_set_pipe_cb")
    evp = f.params[1]["n"] if len(f.params) > 1 else "ev"

    def is_last(n):
        return n is not None and n.get("k") == "mem" and n["f"] == "p_last_event"

    def is_ev(n):
        return n is not None and n.get("k") == "var" and n["n"] == evp

    def is_enum(name):
        return lambda n: n is not None and n.get("k") == "enum" and n["n"] == name
    # p_last_event < ev, and the two halves of "never started and this is not ADD_PRE", in any spelling
    mono = G.rel_edges(f, is_last, is_ev, "<")
    first = dict(G.rel_edges(f, is_last, is_enum("NNG_PIPE_EV_NONE"), "!="))
    first.update(G.rel_edges(f, is_ev, is_enum("NNG_PIPE_EV_ADD_PRE"), "=="))
    has_first = bool(G.rel_edges(f, is_last, is_enum("NNG_PIPE_EV_NONE"), "!=")) and \
        bool(G.rel_edges(f, is_ev, is_enum("NNG_PIPE_EV_ADD_PRE"), "=="))
    store = G.stores(f, "p_last_event")
    for s in inv:
        if mono and G.dominated(f, (s.b, s.i), mono):
            r.ob(f, "callback dominated by p_last_event < ev")
        else:
            ctx.fail(r, f, "callback without monotone filter", s.line, "the pipe callback can run for an event that is not later than "
                     "the last one delivered for this pipe: events can repeat or go backwards")
        if store and not G.reaches(f, (f.entry, 0), [(s.b, s.i)], blocked=G.positions(store)):
            r.ob(f, "p_last_event = ev stored before the callback")
        else:
            ctx.fail(r, f, "event not recorded before callback", s.line, "p_last_event is not updated before the callback runs")
    for s in inv:
        if has_first and G.dominated(f, (s.b, s.i), first):
            r.ob(f, "pipes that never got ADD_PRE get no later event")
        else:
            ctx.fail(r, f, "first-event filter missing", s.line,
                     "the callback is reachable with p_last_event == NNG_PIPE_EV_NONE and ev != NNG_PIPE_EV_ADD_PRE: a pipe whose "
                     "ADD_PRE was never delivered gets later events", G.path_lines(f, (f.entry, 0), (s.b, s.i), first))
    from ..locks import lockinfo
    info = lockinfo(f)
    for s in inv:
        vis = info.visits.get((s.b, s.i), [])
        if vis and all(len(h) > 0 for h in vis):
            r.ob(f, "callback runs under the serialising mutex")
        else:
            ctx.fail(r, f, "callback outside the serialising mutex", s.line, "two events of one pipe can be delivered concurrently")


def ev_calls(f, name):
    return [s for s in f.calls("nni_pipe_run_cb") if name in show(f.expand(s.node["args"][1]))]


def rule_r2(ctx):
    r = ctx.rule("C14.R2", "T3", "event order: in dialer_start_pipe / listener_start_pipe ADD_PRE precedes the closed test, a closed "
                 "pipe never reaches pipe_start, a failed pipe_start never reaches ADD_POST, ADD_POST follows pipe_start; in "
                 "pipe_reap REM_POST follows both closes and precedes nni_pipe_remove", floor=10)
    prog = ctx.prog
    for name in ("dialer_start_pipe", "listener_start_pipe"):
        f = prog.need(name, "core/socket.c")
        pre = G.need_sites(ev_calls(f, "ADD_PRE"), "ADD_PRE", f)
        post = G.need_sites(ev_calls(f, "ADD_POST"), "ADD_POST", f)
        start = [s for s in f.calls() if "ind" in s.node and "pipe_start" in show(f.expand(s.node["ind"]))]
        G.need_sites(start, "pipe_start", f)
        closed = G.cond_edges(f, c04.is_call("nni_pipe_is_closed"), want_nonzero=True)
        failed = {}
        for s in start:
            for b, (nz, z) in f.value_edges(s).items():
                failed[b] = nz
        chk = [
            ("ADD_PRE precedes pipe_start", not G.reaches(f, (f.entry, 0), G.positions(start), blocked=G.positions(pre))),
            ("ADD_PRE precedes the closed test", bool(closed) and all(
                not G.reaches(f, (f.entry, 0), [(b, max(len(f.blocks[b].elems) - 1, 0))], blocked=G.positions(pre)) for b in closed)),
            ("a closed pipe is not started", bool(closed) and all(
                not G.reaches(f, (f.blocks[b].succs[k], 0), G.positions(start)) for b, k in closed.items() if f.blocks[b].succs[k] is not None)),
            ("pipe_start runs only after the closed test came out false", bool(closed) and all(
                G.dominated(f, (s_.b, s_.i), {b: 1 - k for b, k in closed.items()}) for s_ in start)),
            ("pipe_start precedes ADD_POST", not G.reaches(f, (f.entry, 0), G.positions(post), blocked=G.positions(start))),
            ("a failed pipe_start gets no ADD_POST", bool(failed) and all(
                not G.reaches(f, (f.blocks[b].succs[k], 0), G.positions(post)) for b, k in failed.items() if f.blocks[b].succs[k] is not None)),
            ("a failed pipe_start closes the pipe", bool(failed) and all(
                G.must_pass(f, (f.blocks[b].succs[k], 0), G.positions(f.calls("nni_pipe_close"))) is None
                for b, k in failed.items() if f.blocks[b].succs[k] is not None)),
        ]
        for what, ok in chk:
            if ok:
                r.ob(f, what)
            else:
                ctx.fail(r, f, what + " -- violated", f.line, "%s: %s does not hold" % (name, what))
    f = prog.need("pipe_reap", "core/pipe.c")
    rem = G.need_sites(ev_calls(f, "REM_POST"), "REM_POST", f)
    pclose = [s for s in f.calls() if "ind" in s.node and "pipe_close" in show(f.expand(s.node["ind"]))]
    tclose = [s for s in f.calls() if "ind" in s.node and "p_close" in show(f.expand(s.node["ind"]))]
    remove = [s for s in f.calls("nni_pipe_remove")]
    order = [("protocol pipe_close", pclose), ("transport p_close", tclose), ("REM_POST", rem), ("nni_pipe_remove", remove)]
    for (n1, a), (n2, b_) in zip(order, order[1:]):
        if a and b_ and not G.reaches(f, (f.entry, 0), G.positions(b_), blocked=G.positions(a)):
            r.ob(f, "%s precedes %s" % (n1, n2))
        else:
            ctx.fail(r, f, "%s not before %s" % (n1, n2), f.line, "pipe_reap: %s does not precede %s on every path" % (n1, n2))
    for g in prog.functions:
        if g.name != "pipe_reap" and ev_calls(g, "REM_POST"):
            ctx.fail(r, g, "REM_POST outside pipe_reap", g.line, "%s raises REM_POST" % g.name)


def rule_r4(ctx):
    r = ctx.rule("C14.R4", "T3", "one pipe per dialer and redial: dialer_start_pipe records d->d_pipe = p before any callback, close "
                 "or release of that pipe; nni_pipe_remove restarts the dial timer exactly when d->d_pipe == p; d_connect is "
                 "called only from dialer_connect_start; a failed background connect restarts the timer on every non-terminal "
                 "outcome; the timer callback reconnects", floor=8)
    prog = ctx.prog
    f = prog.need("dialer_start_pipe", "core/socket.c")
    st = G.need_sites(G.stores(f, "d_pipe", "nonnull"), "d->d_pipe = p", f)
    later = [s for s in f.calls(("nni_pipe_run_cb", "nni_pipe_close", "nni_pipe_rele"))] + \
            [s for s in f.calls() if "ind" in s.node and "pipe_start" in show(f.expand(s.node["ind"]))]
    for s in later:
        if not G.reaches(f, (f.entry, 0), [(s.b, s.i)], blocked=G.positions(st)):
            r.ob(f, "d_pipe recorded before %s (line %s)" % (s.node.get("fn") or "pipe_start", s.line))
        else:
            ctx.fail(r, f, "pipe can die before the dialer knows it", s.line,
                     "%s at line %s can run before d->d_pipe = p: if the pipe is rejected or closed there, nni_pipe_remove does "
                     "not find d->d_pipe == p and never restarts the dial timer -- the dialer stays dead"
                     % (s.node.get("fn") or "pipe_start", s.line))
    g = prog.need("nni_pipe_remove", "core/socket.c")
    mine = {}
    for b in g.blocks.values():
        c = g.cond(b.id) if b.term and len(b.succs) == 2 else None
        if c is not None and c.get("k") == "bin" and c["op"] in ("==", "!=") and "d_pipe" in show(c):
            mine[b.id] = 0 if c["op"] == "==" else 1
    tim = [s for s in g.calls(("dialer_timer_start_locked", "nni_dialer_timer_start"))]
    clr = G.stores(g, "d_pipe", "null")
    if mine and tim and clr and all(G.dominated(g, (s.b, s.i), mine) for s in tim + clr):
        r.ob(g, "timer restarted and d_pipe cleared exactly under d->d_pipe == p")
        okp = True
        for b, k in mine.items():
            tgt = g.blocks[b].succs[k]
            if tgt is None or G.must_pass(g, (tgt, 0), G.positions(tim)):
                okp = False
        if okp:
            r.ob(g, "every path with d->d_pipe == p restarts the timer")
        else:
            ctx.fail(r, g, "lost pipe without redial", g.line, "nni_pipe_remove can return for the dialer's pipe without restarting the timer")
    else:
        ctx.fail(r, g, "redial on pipe loss missing", g.line, "nni_pipe_remove no longer restarts the dial timer under d->d_pipe == p")
    # who calls d_connect
    for h in prog.functions:
        for s in h.calls():
            if "ind" in s.node and show(h.expand(s.node["ind"])).endswith("d_connect"):
                if h.name == "dialer_connect_start":
                    r.ob(h, "d_connect called from dialer_connect_start")
                else:
                    ctx.fail(r, h, "d_connect called from %s" % h.name, s.line, "a second connect path bypasses the one-pipe-per-dialer bookkeeping")
    cs = prog.callers().get("dialer_connect_start", [])
    allowed = {"nni_dialer_start_aio", "dialer_timer_cb"}
    for c, s in cs:
        if c.name in allowed:
            r.ob(c, "dialer_connect_start called from %s" % c.name)
        else:
            ctx.fail(r, c, "connect started from %s" % c.name, s.line, "dialer_connect_start has an unexpected caller")
    cb = prog.need("dialer_connect_cb", "core/dialer.c")
    TERMINAL = {"NNG_ECLOSED", "NNG_ECANCELED", "NNG_ESTOPPED"}
    tstart = G.positions(cb.calls(("nni_dialer_timer_start", "dialer_timer_start_locked")))
    # the result variable of the connect aio, and the edges on which it is known to be success or a terminal code
    rvar = None
    for s_ in cb.calls("nni_aio_result"):
        for n in cb.sites():
            if n.node.get("k") == "asg" and n.node["lhs"].get("k") == "var" and cb.expand(n.node["rhs"]) is not None and \
                    cb.expand(n.node["rhs"]).get("_id") == s_.node.get("_id"):
                rvar = n.node["lhs"]["n"]
            if n.node.get("k") == "decls":
                for d in n.node["d"]:
                    ini = cb.expand(d["init"]) if d.get("init") else None
                    if ini is not None and ini.get("_id") == s_.node.get("_id"):
                        rvar = d["n"]
    if rvar is None:
        raise AnalysisBroken("dialer_connect_cb: result of nni_aio_result is not kept in a local")
    settled = G.value_known_edges(cb, rvar, names=TERMINAL, values={0})
    nouser = G.cond_edges(cb, lambda n: n.get("k") == "var" and n["n"] == "user_aio", want_nonzero=True)
    # paths on which a user aio exists are allowed to skip the timer (the user is told instead): cut the
    # user_aio != NULL edge of the test that guards the timer start
    guard = {}
    for b, k in nouser.items():
        other = cb.blocks[b].succs[1 - k]
        if other is not None and any((other, i) in tstart for i in range(len(cb.blocks[other].elems) + 1)):
            guard[b] = k
    seen = cb.reach((cb.entry, 0), blocked=lambda b, i, e: (b, i) in tstart,
                    edge_ok=lambda b, k: (b, k) not in settled and not (b in guard and k == guard[b]))
    if not tstart:
        ctx.fail(r, cb, "no redial", cb.line, "dialer_connect_cb never restarts the dial timer")
    elif (cb.exit, 0) in seen:
        ctx.fail(r, cb, "failed background connect without redial", cb.line,
                 "a connect failure that is neither terminal (%s) nor reported to a waiting user can return without restarting "
                 "the dial timer: the dialer never tries again" % "/".join(sorted(TERMINAL)))
    else:
        r.ob(cb, "every non-terminal failure without a user restarts the timer")
    t = prog.need("dialer_timer_cb", "core/dialer.c")
    okres = G.cond_edges(t, c04.is_call("nni_aio_result"), want_nonzero=False)
    con = G.positions(t.calls("dialer_connect_start"))
    if okres and con and all(G.must_pass(t, (t.blocks[b].succs[k], 0), con) is None for b, k in okres.items() if t.blocks[b].succs[k] is not None):
        r.ob(t, "timer expiry reconnects")
    else:
        ctx.fail(r, t, "timer expiry does not reconnect", t.line, "dialer_timer_cb no longer starts a connect when the timer fired normally")


def rule_r7(ctx):
    r = ctx.rule("C14.R7", "T2", "the 'somebody listens' flag follows the registrations: every pass through the locked section of "
                 "nni_sock_set_pipe_cb stores false into s_want_evs before it stores true for a slot that holds a callback, so "
                 "removing the last callback clears it (events must not start in the middle of a pipe's life)", floor=2)
    f = ctx.prog.need("nni_sock_set_pipe_cb", "core/socket.c")
    fals = G.stores(f, "s_want_evs", value="null")
    tru = G.stores(f, "s_want_evs", value="nonnull")
    if not tru:
        raise AnalysisBroken("nni_sock_set_pipe_cb: s_want_evs is never set")
    slot = [t for t in f.assigns() if G.field_is(t.node["lhs"], "cb_fn")]
    if not slot:
        raise AnalysisBroken("nni_sock_set_pipe_cb: slot store vanished")
    okf = bool(fals) and not G.must_pass(f, (slot[0].b, slot[0].i + 1), G.positions(fals))
    if okf:
        r.ob(f, "s_want_evs reset on every registration change")
    else:
        ctx.fail(r, f, "s_want_evs never cleared", slot[0].line,
                 "after a callback slot is changed the function can return without storing false into s_want_evs: once set the "
                 "flag stays set when the last callback is removed, and a callback registered later receives ADD_POST / REM_POST "
                 "for pipes whose ADD_PRE it never saw")
    guard = G.nz_edges(f, lambda n: n.get("k") == "mem" and n["f"] == "cb_fn")
    if all(G.dominated(f, (t.b, t.i), guard) for t in tru) and guard:
        r.ob(f, "s_want_evs set only for a slot that holds a callback")
    else:
        ctx.fail(r, f, "s_want_evs set unconditionally", tru[0].line, "s_want_evs = true is not guarded by a registered callback")


def rule_r8(ctx):
    r = ctx.rule("C14.R8", "T3", "the redial back-off stays below its maximum: in dialer_timer_start_locked every growth of "
                 "d_currtime is followed, on every path to the exit, by the comparison with d_maxrtime that clamps it", floor=1)
    f = ctx.prog.need("dialer_timer_start_locked", "core/socket.c")
    grow = [t for t in f.assigns() if G.field_is(t.node["lhs"], "d_currtime") and t.node.get("op") in ("*=", "+=", "<<=")]
    grow += [t for t in f.assigns() if G.field_is(t.node["lhs"], "d_currtime") and t.node.get("op") == "=" and
             any(m.get("k") == "bin" and m["op"] in ("*", "+", "<<") and "d_currtime" in show(m) for m in walk(f.expand(t.node["rhs"])))]
    if not grow:
        raise AnalysisBroken("dialer_timer_start_locked: back-off growth not found")
    clamp = G.rel_edges(f, lambda n: G.field_is(n, "d_currtime"), lambda n: G.field_is(n, "d_maxrtime"), ">")
    tests = {(b, len(f.blocks[b].elems)) for b in clamp} | {(b, max(len(f.blocks[b].elems) - 1, 0)) for b in clamp}
    for t in grow:
        if clamp and not G.must_pass(f, (t.b, t.i + 1), tests):
            r.ob(f, "growth line %s followed by the clamp against d_maxrtime" % t.line)
        else:
            ctx.fail(r, f, "back-off grows after the clamp", t.line,
                     "d_currtime is increased at line %s and can reach the exit without being compared with d_maxrtime again: the "
                     "stored back-off exceeds NNG_OPT_RECONNMAXT" % t.line)


def rule_r9(ctx):
    r = ctx.rule("C14.R9", "T3", "dialers keep redialling after the remote end goes away: NNG_ECLOSED / NNG_ESTOPPED / NNG_ECANCELED tell a "
                 "dialer that it was closed itself and end its redial loop, so a transport endpoint completes with such a code "
                 "only operations parked on itself; an operation it takes from another endpoint's list (the connect requests of "
                 "the clients queued on an inproc listener) gets a connection error", floor=8)
    prog = ctx.prog
    TERMINAL = {"NNG_ECLOSED", "NNG_ECANCELED", "NNG_ESTOPPED"}
    FIN = {"nni_aio_finish_error": 1, "nni_aio_finish": 1, "nni_aio_finish_sync": 1}
    TAKE = ("nni_list_first", "nni_list_next", "nni_list_last")
    n = 0
    for f in prog.functions:
        if f.cfg_failed or "/transport/" not in "/" + f.file:
            continue
        params = {p_["n"] for p_ in f.params}
        # wrappers of this file that pass a parameter through as the completion code
        def code_arg(c):
            fnm = c.node.get("fn")
            if fnm in FIN:
                return 0, FIN[fnm]
            h = prog.resolve(f, fnm) if fnm else None
            if h is not None and h.file == f.file and h.static and not h.cfg_failed:
                names = [p_["n"] for p_ in h.params]
                for c2 in h.calls(tuple(FIN)):
                    a = [h.expand(x) if x is not None else None for x in c2.node["args"]]
                    if len(a) > 1 and a[0] is not None and a[0].get("k") == "var" and a[0]["n"] in names and \
                            a[1] is not None and a[1].get("k") == "var" and a[1]["n"] in names:
                        return names.index(a[0]["n"]), names.index(a[1]["n"])
            return None
        for c in f.calls():
            ca = code_arg(c)
            if ca is None or max(ca) >= len(c.node["args"]):
                continue
            aio = f.expand(c.node["args"][ca[0]])
            code = f.expand(c.node["args"][ca[1]])
            if code is None or code.get("k") != "enum" or code.get("n") not in TERMINAL:
                continue
            if aio is None or aio.get("k") != "var":
                continue
            # where does the aio come from?
            for _, d in G.reaching_defs(f, aio["n"], (c.b, c.i)):
                if d is None or d.get("k") != "call" or d.get("fn") not in TAKE or not d["args"]:
                    continue
                lst = f.expand(d["args"][0])
                root = lst
                while root is not None and root.get("k") in ("un", "mem", "cast"):
                    root = root.get("e") if root.get("k") in ("un", "cast") else root.get("b")
                if root is None or root.get("k") != "var":
                    continue
                n += 1
                # the list's owner: the function's own object (a parameter or a local initialised from one), or an element
                # taken from a list (another endpoint)
                foreign = any(x is not None and x.get("k") == "call" and x.get("fn") in TAKE for _, x in G.var_defs(f, root["n"]))
                if foreign:
                    ctx.fail(r, f, "%s completed with %s" % (show(lst), code["n"]), c.line,
                             "%s completes an operation taken from %s -- a list of another endpoint (%s comes from a list "
                             "traversal) -- with %s at line %s: the dialer that issued it takes this as its own close and never "
                             "dials again, even after a new listener binds the address"
                             % (f.name, show(lst), root["n"], code["n"], c.line))
                else:
                    r.ob(f, "%s line %s: %s is parked on the endpoint being closed itself" % (code["n"], c.line, show(lst)))
    if n < 2:
        raise AnalysisBroken("only %d terminal completions of listed operations found in the transports" % n)


def rule_r10(ctx):
    r = ctx.rule("C14.R10", "T3", "one pipe per dialer: the `started` latch that makes a second nng_dialer_start fail with NNG_ESTATE is "
                 "released only on paths that do not keep the dialer dialling -- no path contains both "
                 "nni_atomic_flag_reset(&d->d_started) and a (re)start of the connect (dialer_connect_start / "
                 "nni_dialer_timer_start); with the latch open while the redial timer runs, a second start connects as well and "
                 "the dialer owns two pipes", floor=2)
    prog = ctx.prog
    n = 0
    for f in prog.fns_in("core/dialer.c", "core/socket.c"):
        if f.cfg_failed:
            continue
        resets = [c for c in f.calls("nni_atomic_flag_reset") if c.node["args"] and (last_field(f.expand(c.node["args"][0])) or "").endswith(".d_started")]
        if not resets:
            continue
        going = [c for c in f.calls(("dialer_connect_start", "nni_dialer_timer_start", "dialer_timer_start_locked"))]
        gpos = {(c.b, c.i) for c in going}
        for c in resets:
            n += 1
            after = f.reach((c.b, c.i + 1))
            before = any((c.b, c.i) in f.reach((g.b, g.i + 1)) for g in going)
            hit = [g for g in going if (g.b, g.i) in after]
            if hit or before:
                g = hit[0] if hit else [g for g in going if (c.b, c.i) in f.reach((g.b, g.i + 1))][0]
                ctx.fail(r, f, "started latch released while %s keeps the dialer going" % g.node["fn"], c.line,
                         "%s releases d_started at line %s on a path that also calls %s (line %s): the dialer goes on dialling "
                         "in the background, and a second nng_dialer_start is accepted and dials too -- two pipes on one dialer"
                         % (f.name, c.line, g.node["fn"], g.line))
            else:
                r.ob(f, "d_started released at line %s: nothing keeps dialling on that path" % c.line)
    if n < 2:
        raise AnalysisBroken("only %d releases of the dialer's started latch found" % n)


def rule_r11(ctx):
    r = ctx.rule("C14.R11", "T3", "a new minimum reconnect time takes effect at once: a function that stores the dialer's initial redial "
                 "interval (d_inirtime, NNG_OPT_RECONNMINT) also re-seeds the current back-off interval (d_currtime) from it on "
                 "the path on which the store succeeded -- otherwise redials keep the old, longer back-off for as long as the "
                 "peer stays away, beyond the configured reconnect times", floor=1)
    prog = ctx.prog
    n = 0
    for f in prog.fns_in("core/dialer.c", "core/socket.c"):
        if f.cfg_failed or f.name.endswith(("_init", "_create", "_create_url")):
            continue
        stores = []
        for c in f.calls():
            if (c.node.get("fn") or "").startswith("nni_copyin_") and c.node["args"]:
                a = f.expand(c.node["args"][0])
                if a is not None and a.get("k") == "un" and a.get("op") == "&" and a["e"].get("k") == "mem" and a["e"].get("f") == "d_inirtime":
                    stores.append(c)
        for t in f.assigns():
            if t.node["lhs"].get("k") == "mem" and t.node["lhs"].get("f") == "d_inirtime":
                stores.append(t)
        if not stores:
            continue
        seeds = {(t.b, t.i) for t in f.assigns() if t.node["lhs"].get("k") == "mem" and t.node["lhs"].get("f") == "d_currtime" and
                 (lambda e: e is not None and e.get("k") == "mem" and e.get("f") == "d_inirtime")(f.expand(t.node["rhs"]))}
        for c in stores:
            n += 1
            ok = False
            ve = f.value_edges(c) if c.node.get("k") == "call" else None
            starts = [(f.blocks[b].succs[z], 0) for b, (nz, z) in ve.items() if f.blocks[b].succs[z] is not None] if ve else [(c.b, c.i + 1)]
            ok = bool(seeds) and all((f.exit, 0) not in f.reach(st, blocked=lambda b, i, e: (b, i) in seeds) for st in starts)
            if ok:
                r.ob(f, "d_inirtime stored at line %s: d_currtime re-seeded on the success path" % c.line)
            else:
                ctx.fail(r, f, "d_inirtime stored without re-seeding d_currtime", c.line,
                         "%s stores a new initial redial interval at line %s and can return successfully without d_currtime = "
                         "d_inirtime: a dialer that has backed off keeps drawing its delays from the old range" % (f.name, c.line))
    if n < 1:
        raise AnalysisBroken("no store of d_inirtime outside the constructors found")


# ---------------------------------------------------------------------------
# R12: the connect slot can be entered again (a dialer dials more than once)

_TERMINAL = {"NNG_ECLOSED", "NNG_ECANCELED", "NNG_ESTOPPED"}


def _bool_field_writes(prog, file):
    """{record.field: (set-true sites, cleared sites)} for the boolean fields assigned in the functions of one file"""
    out = {}
    for f in prog.fns_in(file):
        if f.cfg_failed:
            continue
        for t in f.assigns():
            l = t.node["lhs"]
            if l.get("k") != "mem" or (l.get("t") or "") not in ("bool", "_Bool"):
                continue
            v = const_of(f.expand(t.node["rhs"]))
            ent = out.setdefault(last_field(l), ([], []))
            if v is not None and v != 0:
                ent[0].append((f, t))
            else:
                ent[1].append((f, t))       # false, or a computed value: the field is not a one-way latch
    return out


def rule_r12(ctx):
    r = ctx.rule("C14.R12", "T2", "a dialer can dial again: the transport function in the d_connect slot is entered once per attempt, "
                 "so none of its refusals (an error other than the terminal NNG_ECLOSED / NNG_ECANCELED / NNG_ESTOPPED) may hang on "
                 "a boolean field that is only ever set and that the endpoint's close / stop functions do not own -- such a "
                 "latch, once set by the first attempt, fails every redial with a code the core keeps retrying on, and the "
                 "socket is never connected again", floor=4)
    prog = ctx.prog
    n = 0
    conns = prog.slot_fns("nni_sp_dialer_ops.d_connect")
    if not conns:
        raise AnalysisBroken("no function is bound to nni_sp_dialer_ops.d_connect")
    for f in conns:
        if f.cfg_failed:
            raise AnalysisBroken("%s has no CFG" % f.name)
        writes = _bool_field_writes(prog, f.file)
        # what the close / stop / fini slots of the same file set
        closers = set()
        for slot in ("nni_sp_dialer_ops.d_close", "nni_sp_dialer_ops.d_stop", "nni_sp_dialer_ops.d_fini",
                     "nni_sp_listener_ops.l_close", "nni_sp_listener_ops.l_stop"):
            for g in prog.slot_fns(slot):
                if g.file == f.file:
                    closers.add(g.name)
        grow = True
        while grow:
            grow = False
            for g in prog.fns_in(f.file):
                if g.name in closers or g.cfg_failed:
                    continue
                # static helpers called by a closer
                if g.static and any(c.node.get("fn") == g.name for h in prog.fns_in(f.file) if h.name in closers and not h.cfg_failed for c in h.calls()):
                    closers.add(g.name)
                    grow = True
        facts = G.edge_facts(f)
        for c in f.calls(("nni_aio_finish_error",)):
            a = c.node["args"]
            code = f.expand(a[1]) if len(a) > 1 else None
            if code is None or code.get("k") != "enum":
                continue        # a computed result (rv of a failed step): not a standing refusal
            if code.get("n") in _TERMINAL:
                continue
            n += 1
            bad = None
            for bid, k, atom, val in facts:
                if not val or atom.get("k") != "mem" or (atom.get("t") or "") not in ("bool", "_Bool"):
                    continue
                # the refusal hangs on the flag: it is reached only through this edge, or this edge (one arm of a
                # disjunction) leads nowhere else
                succ = f.blocks[bid].succs[k]
                if not G.dominated(f, (c.b, c.i), {bid: k}) and not (
                        succ is not None and G.must_pass(f, (succ, 0), {(c.b, c.i)}) is None):
                    continue
                fld = last_field(atom)
                sets, clears = writes.get(fld, ([], []))
                if sets and not clears and not any(g.name in closers for g, _ in sets):
                    bad = (fld, sets[0][0].name, sets[0][1].line)
                    break
            if bad:
                ctx.fail(r, f, "%s refuses for good once %s is set" % (f.name, bad[0]), c.line,
                         "%s completes the attempt with %s under %s, which %s sets (line %s) and nothing ever clears: the "
                         "first attempt arms it and every redial after a lost pipe or a failed attempt is refused; the core "
                         "treats %s as retryable and retries for ever" % (f.name, code.get("n"), bad[0], bad[1], bad[2], code.get("n")))
            else:
                r.ob(f, "refusal with %s at line %s does not hang on a one-way latch" % (code.get("n"), c.line))
        r.ob(f, "%s: connect slot examined" % f.name)
        n += 1
    if n < 4:
        raise AnalysisBroken("only %d connect-slot obligations" % n)


# ---------------------------------------------------------------------------
# R13: giving up the pipe that carries a connection attempt settles the waiting connect

def rule_r13(ctx):
    r = ctx.rule("C14.R13", "T2", "in a transport whose dialer creates its pipe before the connection is confirmed (the connect operation "
                 "stays parked on a list of the endpoint meanwhile), every function that gives a pipe up (nni_pipe_close on a pipe "
                 "of the endpoint) also looks for the parked connect and completes it in the same critical section -- itself or "
                 "through a helper -- unless it runs on the listener side only: otherwise a refused attempt leaves the dial "
                 "pending for ever (a synchronous nng_dial never returns, a background dialer never dials again)", floor=3)
    prog = ctx.prog
    n = 0
    for conn in prog.slot_fns("nni_sp_dialer_ops.d_connect"):
        if conn.cfg_failed:
            continue
        # the list the connect operation is parked on
        parks = [last_field(conn.expand(c.node["args"][0])) for c in conn.calls(("nni_list_append", "nni_aio_list_append"))
                 if c.node["args"] and len(c.node["args"]) > 1]
        parks = [x for x in parks if x]
        fns = [g for g in prog.fns_in(conn.file) if not g.cfg_failed]
        def hands_over(g, depth=0):
            """g (or a helper of the same file) gives the pipe to the waiting operation: nni_aio_set_output"""
            for c in g.calls():
                if c.node.get("fn") == "nni_aio_set_output":
                    return True
                h = prog.resolve(g, c.node["fn"]) if c.node.get("fn") else None
                if depth < 2 and h is not None and h is not g and h.file == g.file and not h.cfg_failed and hands_over(h, depth + 1):
                    return True
            return False
        early = [g for g in fns if list(g.calls(("nni_pipe_alloc_dialer",))) and not hands_over(g)]
        if not parks or not early:
            continue      # the pipe is created when the connection exists (stream transports)
        park = parks[0]

        def settles(g, depth=0):
            """g completes the first element of the park list (or calls a static helper that does)"""
            got = set()
            for c in g.calls(("nni_aio_finish_error", "nni_aio_finish")):
                a0 = g.expand(c.node["args"][0]) if c.node["args"] else None
                if a0 is not None and a0.get("k") == "var":
                    for _, rhs in G.var_defs(g, a0["n"]):
                        if rhs is not None and any(m.get("k") == "call" and m.get("fn") == "nni_list_first" and m.get("args") and
                                                   last_field(g.expand(m["args"][0])) == park for m in walk(rhs)):
                            got.add((c.b, c.i))
            if got:
                return True
            if depth < 2:
                for c in g.calls():
                    h = prog.resolve(g, c.node["fn"]) if c.node.get("fn") else None
                    if h is not None and h is not g and h.file == g.file and h.static and not h.cfg_failed and settles(h, depth + 1):
                        return True
            return False
        for g in fns:
            sites = list(g.calls(("nni_pipe_close",)))
            if not sites:
                continue
            for c in sites:
                n += 1
                # listener-only path: dominated by an edge on which the endpoint's `dialer` mark is false
                lonly = any(not val and atom.get("k") == "mem" and (last_field(atom) or "").endswith(".dialer") and
                            G.dominated(g, (c.b, c.i), {bid: k}) for bid, k, atom, val in G.edge_facts(g))
                # the pipe's own teardown of a failed creation in the function that just created it
                fresh = bool(list(g.calls(("nni_pipe_alloc_dialer", "nni_pipe_alloc_listener"))))
                if settles(g):
                    r.ob(g, "%s gives a pipe up (line %s) and settles the connect parked on %s" % (g.name, c.line, park))
                elif lonly:
                    r.ob(g, "%s line %s runs on listener endpoints only" % (g.name, c.line))
                elif fresh and any(x.node.get("fn") in ("nni_aio_finish_error",) for x in g.calls()):
                    r.ob(g, "%s line %s closes the pipe it has just created and fails the connect itself" % (g.name, c.line))
                else:
                    ctx.fail(r, g, "%s gives a pipe up without settling the parked connect" % g.name, c.line,
                             "%s calls nni_pipe_close (line %s) on a pipe that may be carrying the dialer's connection attempt and "
                             "neither it nor a helper it calls completes the operation parked on %s: the attempt is over but the "
                             "dial stays pending" % (g.name, c.line, park))
    if n < 3:
        raise AnalysisBroken("only %d pipe give-up sites in transports with early pipes" % n)


# ---------------------------------------------------------------------------
# R14: taking the head of an array queue moves every remaining entry down by one

def _idx_parts(f, n):
    """(array field, variable, constant offset) of  X->Q[v + k]"""
    if n is None or n.get("k") != "idx":
        return None
    arr = last_field(f.expand(n["b"]))
    i = f.expand(n["i"])
    while i is not None and i.get("k") == "cast":
        i = i["e"]
    if i is None or arr is None:
        return None
    if const_of(i) is not None:
        return (arr, None, const_of(i))
    if i.get("k") == "var":
        return (arr, i["n"], 0)
    if i.get("k") == "bin" and i.get("op") in ("+", "-") and i["lhs"].get("k") == "var" and const_of(i["rhs"]) is not None:
        k = const_of(i["rhs"])
        return (arr, i["lhs"]["n"], k if i["op"] == "+" else -k)
    return None


def rule_r14(ctx):
    r = ctx.rule("C14.R14", "T3", "a listener that keeps pending connections in an array hands each of them out once: the function that takes "
                 "slot 0 and decrements the count moves every remaining entry down by exactly one slot, starting with the "
                 "overwrite of slot 0 (store index = load index - 1, first store index 0) -- otherwise the entry just handed out "
                 "is handed out again and the others are lost", floor=1)
    prog = ctx.prog
    n = 0
    for f in prog.functions:
        if f.cfg_failed or f.file.endswith("_test.c") or not ("/core/" in "/" + f.file or "/sp/" in "/" + f.file or "/platform/" in "/" + f.file):
            continue
        # reads Q[0] of an array field
        heads = []
        for t in f.sites():
            for m in walk(t.node):
                if m.get("k") == "idx":
                    ip = _idx_parts(f, m)
                    if ip and ip[1] is None and ip[2] == 0 and not (t.node.get("k") == "asg" and t.node["lhs"] is m):
                        heads.append((ip[0], t))
        if not heads:
            continue
        decs = [t for t in f.sites() if t.node.get("k") == "un" and t.node.get("op") == "--" and t.node["e"].get("k") == "mem"]
        if not decs:
            continue
        for arr in sorted({a for a, _ in heads}):
            shifts = []
            for t in f.assigns():
                l, rr = _idx_parts(f, t.node["lhs"]), _idx_parts(f, f.expand(t.node["rhs"]))
                if l and rr and l[0] == arr and rr[0] == arr and l[1] is not None and l[1] == rr[1]:
                    shifts.append((t, l, rr))
            if not shifts:
                continue
            for t, l, rr in shifts:
                n += 1
                inits = [const_of(d) for _, d in G.var_defs(f, l[1]) if d is not None and const_of(d) is not None]
                first = (min(inits) + l[2]) if inits else None
                if rr[2] - l[2] != 1:
                    ctx.fail(r, f, "queue shift does not move entries down by one", t.line,
                             "%s stores %s[%s%+d] = %s[%s%+d]: entries are not moved one slot towards the head" % (f.name, arr, l[1], l[2], arr, rr[1], rr[2]))
                elif first != 0:
                    ctx.fail(r, f, "slot 0 of %s is never replaced" % arr, t.line,
                             "%s takes %s[0] and shifts with %s[%s%+d] = %s[%s%+d] starting at %s = %s: the first store goes to slot %s, "
                             "slot 0 keeps the entry that was just handed out (it is handed out again, the entry that should "
                             "have moved there is lost) and the last load reads one slot past the entries"
                             % (f.name, arr, arr, l[1], l[2], arr, rr[1], rr[2], l[1], min(inits) if inits else "?", first))
                else:
                    r.ob(f, "%s: %s[0] taken, remaining entries moved down by one starting at slot 0" % (f.name, arr))
                # the loop that shifts runs over the old count: the count is decremented after the shift, not before it
                # (with the count lowered first the last entry is never moved down: it is lost, the one before it doubled)
                for d in decs:
                    cf = last_field(d.node["e"])
                    reads_cnt = [b for b in f.blocks.values() if b.term and len(b.succs) == 2 and f.cond(b.id) is not None and
                                 any(m.get("k") == "mem" and last_field(m) == cf for m in walk(f.cond(b.id)))]
                    for b in reads_cnt:
                        # only the loop that contains this shift
                        if (t.b, t.i) not in f.reach((b.id, len(b.elems))) or (b.id, len(b.elems)) not in f.reach((t.b, t.i + 1)):
                            continue
                        n += 1
                        before = (b.id, len(b.elems)) in f.reach((d.b, d.i + 1))
                        if l[2] == 0:
                            # q[i] = q[i + 1]: the loads run one ahead, so the bound must be the new (lowered) count
                            if before:
                                r.ob(f, "%s: q[i] = q[i+1] runs over the lowered count" % f.name)
                            else:
                                ctx.fail(r, f, "shift of %s reads one entry past the count" % arr, d.line,
                                         "%s moves %s[i] = %s[i+1] up to the old count (%s is decremented afterwards, line %s): the "
                                         "last load is one slot past the entries" % (f.name, arr, arr, cf, d.line))
                            continue
                        if before:
                            ctx.fail(r, f, "count of %s lowered before the shift" % arr, d.line,
                                     "%s decrements %s (line %s) before the loop that moves the entries down and whose bound is that "
                                     "count: the last queued entry is not moved, so it is never handed out, and the entry in front "
                                     "of it is handed out twice" % (f.name, cf, d.line))
                        else:
                            r.ob(f, "%s: the count is decremented after the shift" % f.name)
    if n < 1:
        raise AnalysisBroken("no array queue with a head removal found (sfd_start_conn)")


# ---------------------------------------------------------------------------
# R15: the accept service loop of the posix listeners leaves a waiting accept only with the poller armed


def rule_r15(ctx):
    r = ctx.rule("C14.R15", "T2", "a waiting accept is not abandoned: in the service loops of the posix listeners "
                 "(while ((aio = nni_list_first(&l->acceptq)) != NULL) ...) every way out of the function from inside the loop "
                 "body either has taken that aio off the queue (it was completed) or has armed the poller (nni_posix_pfd_arm: "
                 "the registration is one-shot, so nobody calls back otherwise) -- a connection the kernel reports as aborted "
                 "must be skipped (continue), not answered by returning: the accept at the head of the queue would wait for "
                 "ever and the listener, though open, accepts nobody again", floor=2)
    prog = ctx.prog
    n = 0
    for f in prog.functions:
        if f.cfg_failed or "/platform/posix/" not in "/" + f.file or not f.file.endswith("listen.c"):
            continue
        for b in f.blocks.values():
            c = f.cond(b.id) if b.term and len(b.succs) == 2 else None
            if c is None or b.term.get("kind") not in ("WhileStmt", "ForStmt"):
                continue
            firsts = [m for m in walk(c) if m.get("k") == "call" and m.get("fn") == "nni_list_first" and m["args"] and
                      (last_field(f.expand(m["args"][0])) or "").endswith(".acceptq")]
            asg = [m for m in walk(c) if m.get("k") == "asg" and m["lhs"].get("k") == "var"]
            if not firsts or not asg or b.succs[0] is None:
                continue
            var = asg[0]["lhs"]["n"]
            n += 1
            safe = set()
            for k in f.calls(("nni_aio_list_remove", "nni_list_remove", "nni_posix_pfd_arm")):
                if k.node["fn"] == "nni_posix_pfd_arm" or any(
                        a is not None and f.expand(a).get("k") == "var" and f.expand(a)["n"] == var for a in k.node["args"]):
                    safe.add((k.b, k.i))
            seen = f.reach((b.succs[0], 0), blocked=lambda bb, i, e: (bb, i) in safe or bb == b.id)
            if (f.exit, 0) in seen:
                path = f.find_path((b.succs[0], 0), lambda bb, i: (bb, i) == (f.exit, 0), blocked=lambda bb, i, e: (bb, i) in safe or bb == b.id)
                ctx.fail(r, f, "accept left waiting without the poller armed", f.line_of(b.id, 0),
                         "%s can return from inside its service loop with the accept at the head of %s still queued and without "
                         "nni_posix_pfd_arm: nothing will call the listener back, and it never accepts again"
                         % (f.name, last_field(f.expand(firsts[0]["args"][0]))), f.path_lines(path))
            else:
                r.ob(f, "every way out of the accept loop has completed the aio or armed the poller")
    if n < 2:
        raise AnalysisBroken("only %d posix accept service loops found" % n)


# ---------------------------------------------------------------------------
# R17: a failed negotiation settles the connect (accept) that waits at the endpoint


def rule_r17(ctx):
    r = ctx.rule("C14.R17", "T2", "a failed negotiation settles the operation that waits at the endpoint: in the SP negotiation callbacks "
                 "of the stream transports (tcp, ipc, socket), once the error path has found a connect / accept parked on the "
                 "endpoint (x = ep->useraio, x != NULL) every path to the function's exit completes x -- no further condition "
                 "stands between finding it and failing it. A dial whose handshake fails otherwise never completes: the dialer's "
                 "connect callback does not run, so nothing schedules the redial, and a blocking nng_dial hangs", floor=3)
    prog = ctx.prog
    n = 0
    for name, file in (("tcptran_pipe_nego_cb", "transport/tcp/tcp.c"), ("ipc_pipe_nego_cb", "transport/ipc/ipc.c"),
                       ("sfd_tran_pipe_nego_cb", "transport/socket/sockfd.c")):
        f = prog.need(name, file)
        found = 0
        for b in f.blocks.values():
            c = f.cond(b.id) if b.term and len(b.succs) == 2 else None
            if c is None:
                continue
            asg = [m for m in walk(c) if m.get("k") == "asg" and m["lhs"].get("k") == "var" and m["rhs"].get("k") == "mem" and
                   "aio" in (m["rhs"].get("t") or "")]
            if not asg:
                continue
            v = asg[0]["lhs"]["n"]
            nz = G.nz_edges(f, lambda x, v=v: (x.get("k") == "var" and x["n"] == v) or (x.get("k") == "asg" and x["lhs"].get("k") == "var" and x["lhs"]["n"] == v))
            if b.id not in nz:
                continue
            found += 1
            n += 1
            fin = {(k.b, k.i) for k in f.calls(("nni_aio_finish_error", "nni_aio_finish", "nni_aio_finish_sync")) if k.node["args"] and
                   f.expand(k.node["args"][0]).get("k") == "var" and f.expand(k.node["args"][0])["n"] == v}
            start = (b.succs[nz[b.id]], 0)
            off = G.must_pass(f, start, fin) if fin else start
            if off is None:
                r.ob(f, "%s found waiting on the error path is failed on every path" % v)
            else:
                ctx.fail(r, f, "waiting operation found but not completed", f.line_of(b.id, max(len(b.elems) - 1, 0)),
                         "%s loads the operation parked on the endpoint into %s on its error path and, having found one, can still "
                         "reach the end of the function without completing it (a further condition guards the completion): the "
                         "connect that waits for this negotiation is never told that it failed" % (name, v))
        if not found:
            raise AnalysisBroken("%s: the error path no longer looks for the operation parked on the endpoint" % name)


def run(ctx):
    ctx.guard(rule_r1)
    ctx.guard(rule_r2)
    ctx.guard(rule_r4)
    ctx.guard(rule_r7)
    ctx.guard(rule_r8)
    ctx.guard(c11.rule_r4)
    for rr in ctx.rules:
        if rr.id == "C11.R4":
            rr.id = "C14.R6"
    ctx.guard(rule_r9)
    ctx.guard(rule_r10)
    ctx.guard(rule_r11)
    ctx.guard(rule_r12)
    ctx.guard(rule_r13)
    ctx.guard(rule_r14)
    ctx.guard(rule_r15)
    ctx.guard(rule_r17)
    from . import c02
    ctx.guard(c02.rule_s4)           # connection requests keep going out: the transmit latch is released by every completion
    for rr in ctx.rules:
        if rr.id == "C02.S4":
            rr.id = "C14.R16"
