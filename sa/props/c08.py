"""C08 -- PAIR: one peer, ordered lossless exchange, hop limit."""
from ..core import walk, show, const_of, last_field, truth_of, apath, is_null, AnalysisBroken, same_expr
from .. import guards as G
from . import c04

EXPLANATION = ("C08: a second peer is refused with NNG_EBUSY before any socket state is written; s->p is cleared only for "
               "the current peer; pair1 delivers only messages whose hop header is present, at most 0xff and within the ttl, "
               "disconnects on a malformed header, drops without disconnect beyond the ttl, and increments the hop count on "
               "send; sends never discard; the buffers are touched only through the FIFO accessors."
               " Also: only the attached peer's teardown touches the socket state (R4); wait lists are served in arrival order (R5).")
EXPLANATION += " Round 6: a pair pipe's completion callbacks act on the pairing only while their pipe is the attached peer (R8); the hop word taken from the wire stays unsigned until it is range-checked (R9 = C11.R14)."


def rule_r1(ctx):
    r = ctx.rule("C08.R1", "T1", "second peer refused: in pairN_pipe_start every store to the socket's state is dominated by the "
                 "edge s->p == NULL (the other edge returns NNG_EBUSY), under s->mtx; s->p is cleared only under s->p == p", floor=8)
    prog = ctx.prog
    for name, file, rec in (("pair0_pipe_start", "pair0/pair.c", "pair0_sock"), ("pair1_pipe_start", "pair1/pair.c", "pair1_sock")):
        f = prog.need(name, file)
        free = G.cond_edges(f, lambda n: n.get("k") == "mem" and n["f"] == "p" and n.get("rec") == rec, want_nonzero=False)
        if not free:
            ctx.fail(r, f, "no s->p test", f.line, "%s no longer tests whether a peer is attached" % name)
            continue
        # busy edge returns NNG_EBUSY
        busy_ok = False
        for b, k in free.items():
            tgt = f.blocks[b].succs[1 - k]
            seen = f.reach((tgt, 0)) if tgt is not None else set()
            for (bb, ii) in seen:
                blk = f.blocks[bb]
                if ii < len(blk.elems) and blk.elems[ii] is not None:
                    for n in walk(blk.elems[ii]):
                        if n.get("k") == "ret" and n.get("e") is not None and "NNG_EBUSY" in show(f.expand(n["e"])):
                            busy_ok = True
        if busy_ok:
            r.ob(f, "occupied edge returns NNG_EBUSY")
        else:
            ctx.fail(r, f, "occupied edge does not return NNG_EBUSY", f.line, "%s does not refuse a second peer with NNG_EBUSY" % name)
        st = [s for s in f.assigns() if s.node["lhs"].get("k") == "mem" and s.node["lhs"].get("rec") == rec]
        G.need_sites(st, "stores to the socket", f)
        for s in st:
            if G.dominated(f, (s.b, s.i), free):
                r.ob(f, "store %s line %s dominated by s->p == NULL" % (show(s.node["lhs"]), s.line))
            else:
                ctx.fail(r, f, "socket state written for a refused peer", s.line,
                         "%s is written at line %s on a path that includes the refused (NNG_EBUSY) peer: the attached peer's "
                         "state is disturbed by a connection attempt" % (show(s.node["lhs"]), s.line),
                         G.path_lines(f, (f.entry, 0), (s.b, s.i), free))
    for file, rec in (("pair0/pair.c", "pair0_sock"), ("pair1/pair.c", "pair1_sock")):
        for f in prog.fns_in("sp/protocol/" + file):
            if f.name.endswith("_sock_init"):
                continue        # initial state, before any pipe exists
            for s in f.assigns():
                lhs = s.node["lhs"]
                if lhs.get("k") == "mem" and lhs["f"] == "p" and lhs.get("rec") == rec and is_null(f.expand(s.node["rhs"])):
                    mine = {}
                    for b in f.blocks.values():
                        c = f.cond(b.id) if b.term and len(b.succs) == 2 else None
                        if c is not None and c.get("k") == "bin" and c["op"] in ("==", "!=") and \
                                any(x.get("k") == "mem" and x["f"] == "p" and x.get("rec") == rec for x in (c["lhs"], c["rhs"])):
                            mine[b.id] = 0 if c["op"] == "==" else 1
                    def guarded_in_callers(f=f):
                        cs = [(c_, cs_) for (c_, cs_) in prog.callers().get(f.name, []) if c_.file == f.file and not c_.cfg_failed]
                        if not cs:
                            return False
                        for c_, cs_ in cs:
                            gm = {}
                            for bid, k, atom, val in G.edge_facts(c_):
                                if atom.get("k") == "bin" and atom["op"] in ("==", "!=") and ((atom["op"] == "==") == val) and \
                                        any(x.get("k") == "mem" and x["f"] == "p" and x.get("rec") == rec for x in (atom["lhs"], atom["rhs"])):
                                    gm[bid] = k
                            if not gm or not G.dominated(c_, (cs_.b, cs_.i), gm):
                                return False
                        return True
                    if mine and G.dominated(f, (s.b, s.i), mine):
                        r.ob(f, "s->p cleared under s->p == p")
                    elif guarded_in_callers():
                        r.ob(f, "s->p cleared in a helper every caller of which tested s->p == p")
                    else:
                        ctx.fail(r, f, "s->p cleared for a foreign pipe", s.line, "%s clears s->p without testing s->p == p" % f.name)


def rule_r2(ctx):
    r = ctx.rule("C08.R2", "T1", "pair1 hop header: delivery is dominated by len >= 4, hdr <= 0xff and hdr <= ttl; a missing or "
                 "oversized header frees the message and closes the pipe; an over-ttl message is freed and the receive "
                 "re-armed without closing; pair1_pipe_send increments the hop word", floor=8)
    prog = ctx.prog
    f = prog.need("pair1_pipe_recv_cb", "pair1/pair.c")
    deliver = [s for s in f.calls(("nni_lmq_put", "nni_aio_finish_sync", "nni_aio_finish", "nni_aio_finish_msg"))] + \
        G.stores(f, "rd_ready", "nonnull")
    G.need_sites(deliver, "delivery sites", f)
    lenok = G.cmp_edges(f, lambda n: n.get("k") == "var" and n["n"] == "len", {"<": 1, ">=": 0})
    lenok.update(G.cmp_edges(f, c04.is_call("nni_msg_len"), {"<": 1, ">=": 0}))
    def is_hdr(n):
        return "hdr" in show(n) and "ttl" not in show(n)
    small = G.cmp_edges(f, is_hdr, {">": 1, "<=": 0}, rhs_match=lambda x: const_of(x) == 0xff)
    inttl = G.cmp_edges(f, is_hdr, {">": 1, "<=": 0}, rhs_match=lambda x: "ttl" in show(x))
    for name, cut in (("len >= 4", lenok), ("hdr <= 0xff", small), ("hdr <= ttl", inttl)):
        if not cut:
            ctx.fail(r, f, "test %s missing" % name, f.line, "pair1_pipe_recv_cb no longer tests %s" % name)
            continue
        for s in deliver:
            if G.dominated(f, (s.b, s.i), cut):
                r.ob(f, "delivery line %s dominated by %s" % (s.line, name))
            else:
                ctx.fail(r, f, "delivery without %s" % name, s.line, "a message is delivered without passing the edge %s" % name,
                         G.path_lines(f, (f.entry, 0), (s.b, s.i), cut))
    closes = G.positions(f.calls("nni_pipe_close"))
    frees = G.positions(f.calls("nni_msg_free"))
    for name, cut in (("len < 4", lenok), ("hdr > 0xff", small)):
        for b, k in cut.items():
            bad_edge = f.blocks[b].succs[1 - k]
            if bad_edge is None:
                continue
            if G.must_pass(f, (bad_edge, 0), closes) or G.must_pass(f, (bad_edge, 0), frees):
                ctx.fail(r, f, "malformed header (%s) keeps the peer" % name, f.line_of(b, 0),
                         "a message with %s does not lead to nni_msg_free and nni_pipe_close: a peer speaking garbage stays "
                         "connected" % name)
            else:
                r.ob(f, "%s: freed and disconnected" % name)
    rearm = G.positions(f.calls("nni_pipe_recv"))
    for b, k in inttl.items():
        over = f.blocks[b].succs[1 - k]
        if over is None:
            continue
        if G.reaches(f, (over, 0), closes):
            ctx.fail(r, f, "over-ttl closes the pipe", f.line_of(b, 0), "an over-ttl message leads to nni_pipe_close")
        elif G.must_pass(f, (over, 0), frees) or G.must_pass(f, (over, 0), rearm):
            ctx.fail(r, f, "over-ttl path incomplete", f.line_of(b, 0), "an over-ttl message is not freed or the receive is not re-armed")
        else:
            r.ob(f, "over-ttl: freed, receive re-armed, peer kept")
    g = prog.need("pair1_pipe_send", "pair1/pair.c")
    inc = False
    for s in g.calls("nni_msg_header_poke_u32"):
        a1 = g.expand(s.node["args"][1]) if len(s.node["args"]) > 1 else None
        if a1 is not None and a1.get("k") == "bin" and a1["op"] == "+" and "nni_msg_header_peek_u32" in show(a1) and \
                const_of(a1["rhs"]) == 1:
            inc = True
    if inc:
        r.ob(g, "hop word incremented on send")
    else:
        ctx.fail(r, g, "hop count not incremented", g.line, "pair1_pipe_send no longer stores header + 1")


def rule_r3(ctx):
    r = ctx.rule("C08.R3", "T10", "no discard on send and FIFO access: pairN_sock_send never frees the message; wmq / rmq are "
                 "accessed only through nni_lmq_*; waq / raq are appended at the tail only", floor=10)
    prog = ctx.prog
    for file, pre in (("pair0/pair.c", "pair0"), ("pair1/pair.c", "pair1")):
        snd = prog.need(pre + "_sock_send", file)
        fr = [s for s in snd.calls(("nni_msg_free", "nng_msg_free"))]
        if fr:
            ctx.fail(r, snd, "send discards", fr[0].line, "%s frees the message: a send must queue, hand off or park" % snd.name)
        else:
            r.ob(snd, "no nni_msg_free in the send path")
        for f in prog.fns_in("sp/protocol/" + file):
            for s in f.sites():
                n = s.node
                if n.get("k") == "mem" and n["f"] in ("wmq", "rmq") and n.get("rec") == pre + "_sock":
                    # must be the (address-of) argument of an nni_lmq_* call
                    ok = False
                    for c in f.calls():
                        if (c.b, c.i) == (s.b, s.i) and (c.node.get("fn") or "").startswith("nni_lmq_"):
                            ok = True
                    if ok:
                        r.ob(f, "%s via nni_lmq_* line %s" % (n["f"], s.line))
                    else:
                        ctx.fail(r, f, "%s accessed outside nni_lmq_*" % n["f"], s.line, "%s is accessed directly" % show(n))
            for s in f.calls(("nni_list_prepend", "nni_list_insert_before", "nni_list_insert_after", "nni_aio_list_prepend")):
                a0 = show(f.expand(s.node["args"][0]))
                if "waq" in a0 or "raq" in a0:
                    ctx.fail(r, f, "queue jump on %s" % a0, s.line, "a waiting sender/receiver is inserted ahead of the others")


def rule_r4(ctx):
    r = ctx.rule("C08.R4", "T1", "only the attached peer's teardown touches the pairing: in pairN_pipe_stop / pairN_pipe_close every "
                 "store to the socket record and every raise/clear of the socket's pollables is dominated by the edge s->p == p "
                 "(a peer that was refused with NNG_EBUSY is stopped too, and must leave the live pairing alone)", floor=6)
    prog = ctx.prog
    for file, rec, fns in (("pair0/pair.c", "pair0_sock", ("pair0_pipe_stop", "pair0_pipe_close")),
                           ("pair1/pair.c", "pair1_sock", ("pair1_pipe_stop", "pair1_pipe_close"))):
        for name in fns:
            f = prog.fn(name, file)
            if f is None or f.cfg_failed:
                continue
            mine = {}
            for bid, k, atom, val in G.edge_facts(f):
                if atom.get("k") == "bin" and atom["op"] in ("==", "!=") and ((atom["op"] == "==") == val) and \
                        any(x.get("k") == "mem" and x["f"] == "p" and x.get("rec") == rec for x in (atom["lhs"], atom["rhs"])):
                    mine[bid] = k
            sinks = [s for s in f.assigns() if s.node["lhs"].get("k") == "mem" and s.node["lhs"].get("rec") == rec]
            sinks += [s for s in f.calls(("nni_pollable_clear", "nni_pollable_raise"))]
            for s in sinks:
                what = show(s.node["lhs"]) if s.node.get("k") == "asg" else "%s(%s)" % (s.node["fn"], show(f.expand(s.node["args"][0])))
                if mine and G.dominated(f, (s.b, s.i), mine):
                    r.ob(f, "%s only when this pipe is the attached peer" % what)
                else:
                    ctx.fail(r, f, "socket state changed by a pipe that is not the attached peer", s.line,
                             "%s at line %s runs for any stopping pipe, including one refused with NNG_EBUSY: the live pairing "
                             "loses its pending message / readiness" % (what, s.line))


def rule_r6(ctx):
    r = ctx.rule("C08.R6", "T1", "buffer before the parked message: pair0 / pair1 keep one message parked on the pipe when the receive buffer "
                 "is full; the socket's receive function hands that parked message to the user only on the path on which "
                 "nni_lmq_get(&s->rmq) found the buffer empty (otherwise it moves it to the tail of the buffer) -- handing it out "
                 "while older messages are still buffered delivers them out of order", floor=2)
    prog = ctx.prog
    n = 0
    for name, file in (("pair0_sock_recv", "pair0/pair.c"), ("pair1_sock_recv", "pair1/pair.c")):
        f = prog.need(name, file)
        if len(f.params) < 2:
            raise AnalysisBroken("%s lost its aio parameter" % name)
        uaio = f.params[1]["n"]
        empty = {}
        for c in f.calls("nni_lmq_get"):
            if c.node["args"] and (last_field(f.expand(c.node["args"][0])) or "").endswith(".rmq"):
                for b, (nz, z) in f.value_edges(c).items():
                    empty[b] = nz
        if not empty:
            raise AnalysisBroken("%s no longer tries the receive buffer" % name)
        # hand-outs: nni_aio_set_msg(<user aio>, m) where m was taken from the pipe's receive aio
        for c in f.calls("nni_aio_set_msg"):
            a = [f.expand(x) if x is not None else None for x in c.node["args"]]
            if len(a) < 2 or a[0] is None or a[0].get("k") != "var" or a[0]["n"] != uaio or a[1] is None or a[1].get("k") != "var":
                continue
            defs = G.reaching_defs(f, a[1]["n"], (c.b, c.i))
            def takes_parked(d, depth=0):
                if d is None or d.get("k") != "call":
                    return False
                if d.get("fn") == "nni_aio_get_msg" and d["args"]:
                    return (last_field(f.expand(d["args"][0])) or "").endswith(".aio_recv")
                # a file-local helper that returns the message it took from the pipe's receive aio
                h = prog.resolve(f, d["fn"]) if d.get("fn") and depth == 0 else None
                if h is None or h.file != f.file or h.cfg_failed:
                    return False
                for t_ in h.sites():
                    if t_.node.get("k") == "ret" and t_.node.get("e") is not None:
                        v = G.resolve(h, t_.node["e"], (t_.b, t_.i))
                        if v is not None and v.get("k") == "call" and v.get("fn") == "nni_aio_get_msg" and v["args"] and \
                                (last_field(h.expand(v["args"][0])) or "").endswith(".aio_recv"):
                            return True
                return False
            parked = [d for _, d in defs if takes_parked(d)]
            if not parked:
                continue
            n += 1
            if G.dominated(f, (c.b, c.i), empty):
                r.ob(f, "parked message handed out at line %s only after the buffer was found empty" % c.line)
            else:
                ctx.fail(r, f, "parked message handed out without trying the buffer", c.line,
                         "%s gives the message parked on the pipe to the user at line %s on a path that did not see "
                         "nni_lmq_get(&s->rmq) fail: with older messages still buffered the newest one overtakes them" % (name, c.line))
    if n < 2:
        raise AnalysisBroken("only %d hand-outs of the parked message found" % n)


# ---------------------------------------------------------------------------
# R8: a pipe's completion callbacks act on the pairing only while their pipe is the attached peer


def _attached_edges(f, rec, pipe_names):
    """{block: succ} edges of f on which `s->p == <this pipe>` is established: s->p (or a local loaded from it) compared
    with one of pipe_names"""
    loaded = set()
    for t in f.sites():
        for m in walk(f.expand(t.node)):
            if m.get("k") == "asg" and m.get("op") == "=" and m["lhs"].get("k") == "var":
                r_ = m["rhs"]
                while r_ is not None and r_.get("k") == "cast":
                    r_ = r_["e"]
                if r_ is not None and r_.get("k") == "mem" and r_["f"] == "p" and r_.get("rec") == rec:
                    loaded.add(m["lhs"]["n"])

    def is_sp(x):
        while x is not None and x.get("k") == "cast":
            x = x["e"]
        if x is None:
            return False
        if x.get("k") == "asg":
            x = x["lhs"]
        return (x.get("k") == "mem" and x["f"] == "p" and x.get("rec") == rec) or (x.get("k") == "var" and x["n"] in loaded)

    def is_me(x):
        while x is not None and x.get("k") == "cast":
            x = x["e"]
        return x is not None and x.get("k") == "var" and x["n"] in pipe_names
    out = {}
    for bid, k, atom, val in G.edge_facts(f):
        if atom.get("k") == "bin" and atom["op"] in ("==", "!=") and ((atom["op"] == "==") == bool(val)) and \
                ((is_sp(atom["lhs"]) and is_me(atom["rhs"])) or (is_sp(atom["rhs"]) and is_me(atom["lhs"]))):
            out[bid] = k
    return out


def rule_r8(ctx):
    r = ctx.rule("C08.R8", "T1", "a pipe's completion callbacks act on the pairing only while their pipe is the attached peer: in the "
                 "callbacks of a pair pipe's aios every store to the socket record, every put into / get from the socket's "
                 "buffers, every raise / clear of its pollables and every hand-over to the pipe (nni_pipe_send) is made on the "
                 "edge s->p == <this pipe> -- in the callback, or in the file-local helper it passes its pipe to. The stop "
                 "slot detaches the pipe before it stops the pipe's aios, so a completion that was already dispatched runs "
                 "afterwards: it must not park a message on the dead pipe (the next receive follows s->p == NULL) or drive "
                 "the peer that has attached in the meantime", floor=8)
    prog = ctx.prog
    n = 0
    for file, rec, prec in (("pair0/pair.c", "pair0_sock", "pair0_pipe"), ("pair1/pair.c", "pair1_sock", "pair1_pipe")):
        cbs = set()
        for (g, aio_e, cb, arg, site) in prog.aio_callbacks():
            if g.file.endswith(file) and any(m.get("k") == "mem" and m.get("rec") == prec for m in walk(aio_e)):
                cbs.add(cb)
        if len(cbs) < 2:
            raise AnalysisBroken("%s: callbacks of the pipe's aios not found" % file)

        def sinks_of(f):
            out = [(t, show(t.node["lhs"])) for t in f.assigns() if t.node["lhs"].get("k") == "mem" and t.node["lhs"].get("rec") == rec]
            for c in f.calls(("nni_pollable_clear", "nni_pollable_raise", "nni_lmq_put", "nni_lmq_get", "nni_lmq_flush")):
                a0 = f.expand(c.node["args"][0]) if c.node["args"] else None
                if a0 is not None and any(m.get("k") == "mem" and m.get("rec") == rec for m in walk(a0)):
                    out.append((c, "%s(%s)" % (c.node["fn"], show(a0))))
            for c in f.calls("nni_pipe_send"):
                out.append((c, "nni_pipe_send"))
            return out
        for name in sorted(cbs):
            f = prog.need(name, file)
            me = {d["n"] for t in f.sites() if t.node.get("k") == "decls" for d in t.node["d"] if prec in (d.get("t") or "")}
            me |= {p_["n"] for p_ in f.params if prec in (p_.get("t") or "")}
            # the callback's void * argument the pipe local is initialised from (edge facts are copy-propagated)
            for t in f.sites():
                if t.node.get("k") == "decls":
                    for d in t.node["d"]:
                        if d["n"] in me and d.get("init") is not None:
                            iv = f.expand(d["init"])
                            while iv is not None and iv.get("k") == "cast":
                                iv = iv["e"]
                            if iv is not None and iv.get("k") == "var" and iv.get("vk") == "param":
                                me.add(iv["n"])
            mine = _attached_edges(f, rec, me)
            todo = list(sinks_of(f))
            # helpers of the same file that are handed the socket (or the pipe's socket)
            for c in f.calls():
                h = prog.resolve(f, c.node["fn"]) if c.node.get("fn") else None
                if h is None or h is f or h.cfg_failed or not h.file.endswith(file) or not h.static:
                    continue
                hs = sinks_of(h)
                if not hs:
                    continue
                if mine and G.dominated(f, (c.b, c.i), mine):
                    n += 1
                    r.ob(f, "%s called only while this pipe is the attached peer" % h.name)
                    continue
                # the helper decides: it must receive this pipe and test s->p against that parameter
                bound = {h.params[i]["n"] for i, a in enumerate(c.node["args"]) if a is not None and i < len(h.params) and
                         f.expand(a).get("k") == "var" and f.expand(a)["n"] in me}
                hm = _attached_edges(h, rec, bound) if bound else {}
                for t, what in hs:
                    n += 1
                    if hm and G.dominated(h, (t.b, t.i), hm):
                        r.ob(h, "%s (line %s) only when the pipe %s passes is the attached peer" % (what, t.line, f.name))
                    else:
                        ctx.fail(r, h, "pairing driven by a completion of a pipe that may be detached", t.line,
                                 "%s (line %s of %s) is reached from %s, the completion callback of a pipe's aio, without the "
                                 "test s->p == that pipe: the stop slot detaches a pipe before it stops its aios, so this runs "
                                 "for a dead pipe too -- on the peer that has attached since" % (what, t.line, h.name, f.name),
                                 file=h.file)
            for t, what in todo:
                n += 1
                if mine and G.dominated(f, (t.b, t.i), mine):
                    r.ob(f, "%s (line %s) only when this pipe is the attached peer" % (what, t.line))
                else:
                    ctx.fail(r, f, "pairing changed by a completion of a pipe that may be detached", t.line,
                             "%s at line %s of %s is not under the test s->p == this pipe: the stop slot detaches the pipe (s->p = "
                             "NULL, parked message released) before it stops the pipe's aios, so a completion dispatched earlier "
                             "runs afterwards -- a message parked then is never released, and the next receive follows the NULL "
                             "s->p" % (what, t.line, f.name))
    if n < 8:
        raise AnalysisBroken("only %d effects of the pair pipes' callbacks on the socket found" % n)


def run(ctx):
    ctx.guard(rule_r1)
    ctx.guard(rule_r2)
    ctx.guard(rule_r3)
    ctx.guard(rule_r4)
    ctx.guard(rule_r6)
    ctx.guard(rule_r8)
    from . import c11
    ctx.guard(c11.rule_r14)          # the hop word is compared as the unsigned value it is
    for rr in ctx.rules:
        if rr.id == "C11.R14":
            rr.id = "C08.R9"
    from . import c09
    ctx.guard(c09.rule_r8)
    for rr in ctx.rules:
        if rr.id == "C09.R8":
            rr.id = "C08.R5"
    from . import c18
    ctx.guard(c18.rule_r15)          # ordered exchange: a later send must not overtake a blocked one when the buffer grows
    for rr in ctx.rules:
        if rr.id == "C18.R15":
            rr.id = "C08.R7"
