"""C03 -- message ownership, memory safety, no leaks."""
from collections import defaultdict
from ..core import show, apath, last_field, walk, AnalysisBroken, is_null
from .. import msgown
from .. import guards as G
from ..aiolib import AIO_TYPES

EXPLANATION = ("C03: ownership typestate for nni_msg* over every function that touches a message (no double release, "
               "no leak on any exit, no use after hand-off, failure leaves the message on the user aio, completion "
               "callbacks dispose of the message they carry), orphan draining in fini slots, guard consistency of "
               "conditional references, sized-free agreement."
               " Also: a size passed to nni_free from a companion field is the size that was allocated (O4); protocol state that is written under the socket lock at one site is written under it everywhere (O7); every send slot takes the message off the aio before it completes the send successfully (O8).")
EXPLANATION += ' Round 6: scalar locals are assigned before use (O12); an element taken off an owning list is not dropped (O13); an aio is not completed with an error while it carries a message this function released (O1); a size is recorded only together with a new block (O4).'

SEND_SLOTS = ("nni_proto_sock_ops.sock_send", "nni_proto_ctx_ops.ctx_send", "nni_sp_pipe_ops.p_send")


def callback_cells(prog):
    """{callback fn name: {field 'rec.f': kind}} for aio fields that carry
    messages into / out of their completion callback."""
    # field -> kind from submit sites
    kind = {}
    setmsg = set()
    for f in prog.functions:
        for s in f.calls():
            n = s.node
            fnm = n.get("fn")
            if fnm in msgown.SEND_SUBMIT or fnm in msgown.RECV_SUBMIT:
                a = f.expand(n["args"][1]) if len(n["args"]) > 1 else None
                lf = last_field(a)
                if lf:
                    k = "send" if fnm in msgown.SEND_SUBMIT else "recv"
                    kind.setdefault(lf, set()).add(k)
            elif fnm == "nni_aio_set_msg" and len(n["args"]) >= 2 and not is_null(f.expand(n["args"][1])):
                lf = last_field(f.expand(n["args"][0]))
                if lf:
                    setmsg.add(lf)
            elif fnm == "nng_stream_send" and len(n["args"]) >= 2:
                lf = last_field(f.expand(n["args"][1]))
                if lf:
                    kind.setdefault(lf, set()).add("ssend")
    out = defaultdict(dict)
    for (ifn, aioexpr, cb, arg, site) in prog.aio_callbacks():
        lf = last_field(ifn.expand(aioexpr))
        if not lf or lf not in kind:
            continue
        ks = kind[lf]
        if "ssend" in ks and lf in setmsg:
            ks = ks | {"send"}
        ks = ks - {"ssend"}
        if len(ks) == 1:
            out[cb][lf] = list(ks)[0]
    return out


def rule_o1(ctx):
    prog = ctx.prog
    r = ctx.rule("C03.O1", "T5", "message ownership typestate on every path: no double release / hand-off, no leak at an "
                 "exit, no use after hand-off, no failing of the user's send aio after its message was consumed, "
                 "completion callbacks dispose of the message their aio carries", floor=150)
    send_ops = set()
    for slot in SEND_SLOTS:
        for f in prog.slot_fns(slot):
            send_ops.add(f)
    cbcells = callback_cells(prog)
    # owning cells: aio slots / message fields that some function releases
    # directly (nni_msg_free(nni_aio_get_msg(&x->F)) / nni_msg_free(x->F))
    owning = set()
    owning_uncond = set()
    teardown = set()
    for slot, ents in prog.slots().items():
        if slot.split(".")[1] in ("pipe_fini", "pipe_close", "pipe_stop", "sock_fini", "sock_close", "ctx_fini",
                                   "p_fini", "p_close", "p_stop", "d_fini", "l_fini", "d_close", "l_close", "rl_func"):
            for name, g, file in ents:
                teardown.add(name)
    # file-local helpers that a teardown function hands its object to release there on its behalf
    helpers = set()
    for f in prog.functions:
        if f.cfg_failed or not (f.name in teardown or f.name.endswith(("_fini", "_close", "_stop", "_free", "_destroy", "_reap"))):
            continue
        for c in f.calls():
            h = prog.resolve(f, c.node["fn"]) if c.node.get("fn") else None
            if h is not None and h.static and h.file == f.file and not h.cfg_failed:
                helpers.add(h.name)
    for f in prog.functions:
        if not (f.name in teardown or f.name in helpers or f.name.endswith(("_fini", "_close", "_stop", "_free", "_destroy", "_reap"))):
            continue
        for sct in f.calls(("nni_aio_get_msg", "nng_aio_get_msg")):
            lf = last_field(f.expand(sct.node["args"][0])) if sct.node["args"] else None
            if lf:
                owning.add(lf)
                # examined on every path through the teardown function?
                if not f.reaches_exit((f.entry, 0), blocked=lambda b, i, e, t=(sct.b, sct.i): (b, i) == t):
                    owning_uncond.add(lf)
        for sct in f.calls(("nni_msg_free", "nng_msg_free")):
            a = f.expand(sct.node["args"][0]) if sct.node["args"] else None
            if a is not None and a.get("k") == "mem":
                lf = last_field(a)
                if lf:
                    owning.add(lf)
                    if not f.reaches_exit((f.entry, 0), blocked=lambda b, i, e, t=(sct.b, sct.i): (b, i) == t):
                        owning_uncond.add(lf)
    fini_fns = set()
    for slot, ents in prog.slots().items():
        if slot.split(".")[1] in ("pipe_fini", "sock_fini", "ctx_fini", "p_fini", "d_fini", "l_fini", "rl_func"):
            for name, g, file in ents:
                fini_fns.add(name)

    fns = [f for f in prog.functions if not f.cfg_failed and (msgown.touches_msgs(f) or f.name in cbcells)
           and not f.file.endswith(("core/message.c", "core/aio.c", "nng_legacy.c"))]
    # helper summaries (two rounds)
    summ = {}
    for _ in range(2):
        for f in fns:
            if any(p["t"] in msgown.MSG_TYPES for p in f.params):
                try:
                    summ.update(msgown.param_summary(f, prog, summ))
                except RecursionError:
                    pass
    # Loop-bound assumptions (one named symbol each): the edge is taken at most once per path.
    broken = []
    ONCE = {
        "sub0_recv_cb": ("num_contexts", 1,
                         "sock->num_contexts is the length of sock->contexts: when it is not > 1 the loop body that "
                         "aliases dup_msg = msg runs for exactly one context"),
    }
    for f in fns:
        entry = {}
        for lf, kind in cbcells.get(f.name, {}).items():
            # the callback reaches the aio through its argument object: find the access path used
            for s in f.sites():
                n = s.node
                if n.get("k") == "mem" and last_field(n) == lf:
                    p = apath(n)
                    if p:
                        cl = msgown.MsgClient(f, prog, None, set())
                        entry[cl.cell_of_aio(n)] = (kind, show(n), lf)
                        break
        uaios = [p["n"] for p in f.params if p["t"] in AIO_TYPES]
        once = None
        if f.name in ONCE:
            txt, idx, why = ONCE[f.name]
            once = [(lambda c, t=txt: t in show(c), idx)]
            r.exception(f.name, why)
        is_fini = (f.name in fini_fns or f.name in teardown or
                   f.name.endswith(("_fini", "_free", "_destroy", "_reap", "_stop", "_close")))
        rep, sim = msgown.analyse(f, prog, summ, entry, uaios, f in send_ops, once, owning, is_fini, owning_uncond)
        if sim.truncated:
            broken.append(f.name)
            continue
        if not rep.items:
            r.ob(f, "%d path states, %s" % (sim.nstates, "callback cells: " + ",".join(k[-1] for k in entry) if entry else "no violation"))
        for kind, line, msg, construct, lines in rep.items:
            ctx.fail(r, f, "%s: %s" % (kind, construct), line, msg, lines)
    if broken:
        raise AnalysisBroken("ownership simulation truncated in %s" % ", ".join(broken))
    r.notes.append("helper summaries: %s" % ", ".join("%s#%d=%s" % (k[0], k[1], v) for k, v in sorted(summ.items())))


ALLOCS = ("nni_alloc", "nni_zalloc")


def _base(n):
    """object an lvalue lives in: x->f / x.f -> x ; x -> x"""
    while n is not None and n.get("k") in ("mem", "idx") or (n is not None and n.get("k") == "un" and n.get("op") in ("&", "*")):
        n = n["b"] if n.get("k") in ("mem", "idx") else n["e"]
    return n


def rule_o4(ctx):
    from ..core import same_expr, const_of
    from .c01 import reaching_defs
    r = ctx.rule("C03.O4", "T11", "sized free agreement: wherever nni_free(p, x->F) takes the size from a companion field of the "
                 "object that owns (or is) the block, that field is written -- in every function that allocates such a block "
                 "-- with the very size expression given to the allocator", floor=22)
    prog = ctx.prog
    pairs = {}   # companion 'rec.size' -> {'buf': 'rec.buf' or None (whole object), sites}
    for f in prog.functions:
        for s in f.calls("nni_free"):
            a = [f.expand(x) for x in s.node["args"]]
            sz = a[1]
            if sz.get("k") != "mem":
                continue
            comp = last_field(sz)
            own = a[0]
            if own.get("k") == "var" and same_expr(_base(sz), own):
                pairs.setdefault(comp, {"buf": None, "sites": []})["sites"].append((f, s))
            elif own.get("k") == "mem" and same_expr(_base(sz["b"]) if False else sz["b"], own["b"]):
                pairs.setdefault(comp, {"buf": last_field(own), "sites": []})["sites"].append((f, s))
    if len(pairs) < 10:
        raise AnalysisBroken("only %d sized-free companion fields found" % len(pairs))
    # all stores per field
    stores = defaultdict(list)
    for f in prog.functions:
        if f.cfg_failed:
            continue
        for s in f.assigns():
            lf = last_field(s.node["lhs"]) if s.node["lhs"].get("k") == "mem" else None
            if lf:
                stores[lf].append((f, s))

    def alloc_size(f, e, pos, depth=0):
        """size expression if e is (a local holding) the result of nni_alloc/nni_zalloc"""
        e = f.expand(e)
        while e is not None and e.get("k") == "asg":
            e = f.expand(e["rhs"])
        if e is not None and e.get("k") == "call" and e.get("fn") in ALLOCS:
            return f.expand(e["args"][0])
        if e is not None and e.get("k") == "var" and depth < 2:
            rd = reaching_defs(f, e["n"], pos)
            szs = [alloc_size(f, x, p, depth + 1) for p, x in rd]
            szs = [x for x in szs if x is not None]
            if szs and len(szs) == len(rd):
                return szs[0]
        return None
    for comp, info in sorted(pairs.items()):
        f0, s0 = info["sites"][0]
        writers = [(f, s) for f, s in stores.get(comp, []) if not (const_of(f.expand(s.node["rhs"])) == 0)]
        if not writers:
            ctx.fail(r, f0, "size field %s is never written" % comp, s0.line,
                     "nni_free(%s, %s): no function ever stores a size into %s, so every such block is freed with size 0 -- a "
                     "sized free_fn supplied through nng_init_params is told the wrong size"
                     % (show(f0.expand(s0.node["args"][0])), show(f0.expand(s0.node["args"][1])), comp))
            continue
        if info["buf"] is None:
            # whole object: the function that allocates it records the allocation size
            rec = comp.split(".")[0]
            okc = 0
            for f, s in writers:
                obj = _base(s.node["lhs"])
                if obj is None or obj.get("k") != "var":
                    continue
                rd = reaching_defs(f, obj["n"], (s.b, s.i))
                szs = [alloc_size(f, x, p) for p, x in rd]
                if not szs or any(x is None for x in szs):
                    continue
                rhs = f.expand(s.node["rhs"])
                if all(same_expr(rhs, x) for x in szs):
                    okc += 1
                    r.ob(f, "%s = allocation size of the object" % comp)
                else:
                    ctx.fail(r, f, "%s records a different size than was allocated" % comp, s.line,
                             "allocated %s, recorded %s" % (show(szs[0]), show(rhs)))
            if not okc:
                ctx.fail(r, f0, "size field %s not set where the object is allocated" % comp, s0.line,
                         "no allocation site of %s stores the allocation size into %s" % (rec, comp))
            continue
        # buffer + companion: every function that stores a fresh allocation into buf also stores that size into comp
        for f, s in stores.get(info["buf"], []):
            sz = alloc_size(f, s.node["rhs"], (s.b, s.i))
            if sz is None:
                continue
            mates = [t for g, t in stores.get(comp, []) if g is f and same_expr(_base(t.node["lhs"]), _base(s.node["lhs"]))]
            if not mates:
                ctx.fail(r, f, "%s allocated without recording %s" % (info["buf"], comp), s.line,
                         "%s receives a fresh block of %s bytes but %s is not updated in %s" % (info["buf"], show(sz), comp, f.name))
            elif any(same_expr(f.expand(t.node["rhs"]), sz) for t in mates):
                r.ob(f, "%s = size of the block stored in %s" % (comp, info["buf"]))
            else:
                ctx.fail(r, f, "%s records a different size than was allocated for %s" % (comp, info["buf"]), s.line,
                         "allocated %s, recorded %s" % (show(sz), ", ".join(show(f.expand(t.node["rhs"])) for t in mates)))
        # ... and the size is recorded only where a block was stored: a size written on a path that kept the old block
        # describes storage that was never allocated with it
        for f, t in writers:
            allocs = set()
            for g, s in stores.get(info["buf"], []):
                if g is f and alloc_size(f, s.node["rhs"], (s.b, s.i)) is not None and same_expr(_base(t.node["lhs"]), _base(s.node["lhs"])):
                    allocs.add((s.b, s.i))
                    rv_ = f.expand(s.node["rhs"])
                    if rv_ is not None and rv_.get("k") == "var":      # allocated into a local first: the allocation call counts
                        for pos_, d_ in reaching_defs(f, rv_["n"], (s.b, s.i)):
                            if pos_ is not None:
                                allocs.add(tuple(pos_))
            # only where the function replaces a block it may already hold (it releases the old one with this very size)
            replaces = any(g is f and same_expr(_base(t.node["lhs"]), _base(f.expand(c.node["args"][1]))) for g, c in info["sites"])
            if not allocs or not replaces:
                continue
            if f.dominated_by((t.b, t.i), blocked=lambda b, i, e: (b, i) in allocs):
                r.ob(f, "%s written (line %s) only after a fresh block was stored in %s" % (comp, t.line, info["buf"]))
            else:
                ctx.fail(r, f, "%s changed without a new block in %s" % (comp, info["buf"]), t.line,
                         "%s stores %s into %s at line %s on a path that has not stored a fresh allocation into %s: the block "
                         "kept from before was allocated with another size, and nni_free(%s, %s) is later told the wrong one"
                         % (f.name, show(f.expand(t.node["rhs"])), comp, t.line, info["buf"], info["buf"], comp))
        r.ob(None, "%s: %d frees use it, %d writers" % (comp, len(info["sites"]), len(writers)))



QUEUE_MUT = ("nni_lmq_put", "nni_lmq_get", "nni_lmq_flush", "nni_lmq_resize", "nni_list_append", "nni_list_prepend",
             "nni_list_remove", "nni_list_insert_before", "nni_list_insert_after", "nni_aio_list_append", "nni_id_set", "nni_id_remove")


def rule_o7(ctx):
    """lock discipline of protocol state (deviant-site rule): a field of a protocol's sock/pipe/ctx record that is written
    under a mutex at one site is written under a mutex at every site outside init/fini"""
    from ..locks import lockinfo
    r = ctx.rule("C03.O7", "T9", "lock discipline of protocol state: a field of a protocol sock / pipe / ctx record that some site "
                 "writes with a mutex held is written with a mutex held at every site (outside the init/fini slots, and "
                 "counting the lock the callers of a lock-free helper hold): a store moved past the unlock publishes the "
                 "object before it is complete", floor=100)
    prog = ctx.prog
    initfini = set()
    for slot in ("nni_proto_pipe_ops.pipe_init", "nni_proto_pipe_ops.pipe_fini", "nni_proto_sock_ops.sock_init",
                 "nni_proto_sock_ops.sock_fini", "nni_proto_ctx_ops.ctx_init", "nni_proto_ctx_ops.ctx_fini"):
        for f in prog.slot_fns(slot):
            initfini.add(f.name)
    callers = prog.callers()
    infos = {}

    def info_of(f):
        if f not in infos:
            infos[f] = lockinfo(f)
        return infos[f]

    def held_at(f, pos, depth=0):
        """True if a mutex is held at pos on every path, taking the callers of a lock-free helper into account"""
        held = info_of(f).visits.get(pos, [])
        if held and all(len(h) > 0 for h in held):
            return True
        if depth >= 2 or info_of(f).acquires:
            return False
        cs = [(c, cs_) for (c, cs_) in callers.get(f.name, []) if c.file == f.file and not c.cfg_failed]
        return bool(cs) and all(held_at(c, (cs_.b, cs_.i), depth + 1) for c, cs_ in cs)
    W = defaultdict(list)
    for f in prog.functions:
        if "/sp/protocol/" not in f.file or f.cfg_failed:
            continue
        for s in f.sites():
            n = s.node
            tgt = None
            if n.get("k") == "asg" and n["lhs"].get("k") == "mem":
                tgt = n["lhs"]
            elif n.get("k") == "un" and n.get("op") in ("++", "--") and n["e"].get("k") == "mem":
                tgt = n["e"]
            if tgt is None and n.get("k") == "call" and n.get("fn") in QUEUE_MUT and n["args"]:
                # a queue / list embedded in the record, changed through its API
                a0 = f.expand(n["args"][0])
                if a0 is not None and a0.get("k") == "un" and a0.get("op") == "&" and a0["e"].get("k") == "mem":
                    tgt = a0["e"]
            if tgt is None:
                continue
            lf = last_field(tgt)
            if lf:
                W[lf].append((f, s))
    for lf, ws in sorted(W.items()):
        flags = [(f, s, held_at(f, (s.b, s.i))) for f, s in ws if f.name not in initfini]
        if not any(h for _, _, h in flags):
            continue
        for f, s, h in flags:
            if h:
                r.ob(f, "%s written under a mutex (line %s)" % (lf, s.line))
            else:
                ctx.fail(r, f, "%s written without the lock" % lf, s.line,
                         "%s is written at line %s with no mutex held, while %d other site(s) write it under the socket lock: "
                         "another thread can observe the object between the unlock and this store"
                         % (lf, s.line, sum(1 for _, _, x in flags if x)))



def rule_o8(ctx):
    from ..core import const_of
    r = ctx.rule("C03.O8", "T9", "sibling agreement of the send slots: a function stored in sock_send / ctx_send that completes the "
                 "user's aio successfully has taken the message off it first (nni_aio_set_msg(aio, NULL)): the socket owns the "
                 "message from then on, and a pointer left on the aio dangles", floor=10)
    prog = ctx.prog
    fns = []
    for slot in SEND_SLOTS[:2]:
        for f in prog.slot_fns(slot):
            if f not in fns and "/protocol/" in f.file and not f.cfg_failed and len(f.params) > 1:
                fns.append(f)
    for f in fns:
        aio = f.params[1]["n"]
        succ = [s for s in f.calls(("nni_aio_finish", "nni_aio_finish_sync")) if len(s.node["args"]) > 1 and
                const_of(f.expand(s.node["args"][1])) == 0 and show(f.expand(s.node["args"][0])) == aio]
        clears = {(s.b, s.i) for s in f.calls("nni_aio_set_msg") if show(f.expand(s.node["args"][0])) == aio and
                  is_null(f.expand(s.node["args"][1]))}
        for s in succ:
            if f.dominated_by((s.b, s.i), blocked=lambda b, i, e: (b, i) in clears):
                r.ob(f, "successful completion line %s after nni_aio_set_msg(%s, NULL)" % (s.line, aio))
            else:
                ctx.fail(r, f, "successful send leaves the message on the aio", s.line,
                         "%s completes %s with success at line %s without nni_aio_set_msg(%s, NULL): its siblings all clear "
                         "it; nng_aio_get_msg() after the completion returns a message the socket already owns (and may have "
                         "freed)" % (f.name, aio, s.line, aio))


def rule_o9(ctx):
    """registry / membership-flag coherence"""
    from ..core import const_of
    r = ctx.rule("C03.O9", "T3", "a registry that forgets an object clears the object's membership mark: where a function stores an "
                 "object into a global table and sets a boolean field of it (registered), every function that empties a slot of "
                 "that table clears the field of the object it drops -- otherwise the object is never registered again, and what "
                 "it allocates after the next nng_init is not released by nng_fini", floor=1)
    prog = ctx.prog
    pairs = {}       # global table name -> 'rec.flag'
    for f in prog.functions:
        if f.cfg_failed:
            continue
        flags = {}
        for t in f.assigns():
            l = t.node["lhs"]
            if l.get("k") == "mem" and (l.get("t") or "") in ("bool", "_Bool") and const_of(f.expand(t.node["rhs"])) not in (None, 0):
                b = f.expand(l["b"]) if l.get("b") is not None else None
                if b is not None and b.get("k") == "var":
                    flags[b["n"]] = last_field(l)
        for t in f.assigns():
            l = t.node["lhs"]
            e = f.expand(t.node["rhs"])
            if l.get("k") == "idx" and l.get("b") is not None and l["b"].get("k") == "var" and l["b"].get("vk") in ("global", "slocal") \
                    and e is not None and e.get("k") == "var" and e["n"] in flags:
                pairs[l["b"]["n"]] = flags[e["n"]]
    if not pairs:
        raise AnalysisBroken("no registry with a membership flag found (the static id-map registry vanished)")
    for f in prog.functions:
        if f.cfg_failed:
            continue
        for t in f.assigns():
            l = t.node["lhs"]
            if l.get("k") == "idx" and l.get("b") is not None and l["b"].get("k") == "var" and l["b"]["n"] in pairs and is_null(f.expand(t.node["rhs"])):
                flag = pairs[l["b"]["n"]]
                clears = [(x.b, x.i) for x in f.assigns() if x.node["lhs"].get("k") == "mem" and last_field(x.node["lhs"]) == flag and
                          const_of(f.expand(x.node["rhs"])) == 0]
                # the flag is cleared on the way to the slot store (same iteration: the store is not reachable from the
                # loop head without passing a clear)
                ok = bool(clears) and any((t.b, t.i) in f.reach((c[0], c[1] + 1), blocked=lambda b, i, e: False) for c in clears) and \
                    f.dominated_by((t.b, t.i), blocked=lambda b, i, e: (b, i) in clears)
                if ok:
                    r.ob(f, "%s line %s: %s cleared first" % (show(l), t.line, flag))
                else:
                    ctx.fail(r, f, "%s emptied without clearing %s" % (l["b"]["n"], flag.split(".")[1]), t.line,
                             "%s drops an object from %s at line %s but leaves its %s set: after the next nng_init the object "
                             "believes it is still registered, is never put back, and the storage it allocates is not released "
                             "by nng_fini" % (f.name, l["b"]["n"], t.line, flag))


def rule_o3(ctx):
    """who frees a cell does not depend on an option that can change in between"""
    r = ctx.rule("C03.O3", "T3", "ownership is decided once: a release (nni_msg_free) of a message held in a field of a protocol record "
                 "is not made conditional on another field of that record that an option setter can change -- the value read "
                 "when the reference was (or was not) taken and the value read at the release may differ, and the message is "
                 "then freed twice or never", floor=3)
    prog = ctx.prog
    # fields written by functions stored in option tables
    settable = set()
    for slot in ("nni_option.o_set", "nni_option_s.o_set"):
        for f in prog.slot_fns(slot):
            if f.cfg_failed:
                continue
            for t in f.assigns():
                if t.node["lhs"].get("k") == "mem":
                    settable.add(last_field(t.node["lhs"]))
            for c in f.calls():
                # nni_copyin_ms(&ctx->retry, ...) style: the option value is stored through a pointer argument
                if (c.node.get("fn") or "").startswith("nni_copyin_"):
                    a = f.expand(c.node["args"][0]) if c.node["args"] else None
                    if a is not None and a.get("k") == "un" and a.get("op") == "&" and a["e"].get("k") == "mem":
                        settable.add(last_field(a["e"]))
    if len(settable) < 10:
        raise AnalysisBroken("only %d option-settable fields found" % len(settable))
    n = 0
    for f in prog.functions:
        if f.cfg_failed or "/sp/protocol/" not in "/" + f.file:
            continue
        frees = [c for c in f.calls(("nni_msg_free",)) if c.node["args"] and (lambda a: a is not None and a.get("k") == "mem")(f.expand(c.node["args"][0]))]
        if not frees:
            continue
        facts = G.edge_facts(f)
        for c in frees:
            cell = f.expand(c.node["args"][0])
            rec = (last_field(cell) or ".").split(".")[0]
            n += 1
            bad = None
            for bid, k, atom, val in facts:
                for m in walk(atom):
                    lf = last_field(m) if m.get("k") == "mem" else None
                    if lf and lf != last_field(cell) and lf.split(".")[0] == rec and lf in settable and G.dominated(f, (c.b, c.i), {bid: k}):
                        bad = (lf, atom)
            if bad:
                ctx.fail(r, f, "release of %s depends on option field %s" % (show(cell), bad[0].split(".")[1]), c.line,
                         "nni_msg_free(%s) at line %s is made only when %s; %s is written by an option setter and can change "
                         "between the moment the reference was taken (or not) and this release: the message is freed twice "
                         "or leaked" % (show(cell), c.line, show(bad[1]), bad[0]))
            else:
                r.ob(f, "release of %s line %s does not depend on a settable option" % (show(cell), c.line))
    if n < 3:
        raise AnalysisBroken("only %d releases of message cells found in the protocols" % n)


# ---------------------------------------------------------------------------
# O11: a message moved from one aio to another leaves the first


def rule_o11(ctx):
    r = ctx.rule("C03.O11", "T2", "a message moved from one aio to another leaves the first: after nni_aio_set_msg(A, nni_aio_get_msg(B)) every "
                 "path to the function's exit passes nni_aio_set_msg(B, NULL) -- with the message left on both, a failed or "
                 "cancelled transfer is released by the completion path of A and again by the owner of B (double free), or B's "
                 "owner reads a message the transport has already let go", floor=4)
    prog = ctx.prog
    n = 0
    for f in prog.functions:
        if f.cfg_failed or f.file.endswith("_test.c"):
            continue
        for c in f.calls("nni_aio_set_msg"):
            a = c.node["args"]
            if len(a) < 2 or a[1] is None:
                continue
            src = f.expand(a[1])
            while src is not None and src.get("k") == "cast":
                src = src["e"]
            if src is None or src.get("k") != "call" or src.get("fn") != "nni_aio_get_msg" or not src.get("args"):
                continue
            A, B = show(f.expand(a[0])), show(f.expand(src["args"][0]))
            if A == B:
                continue
            n += 1
            clears = {(x.b, x.i) for x in f.calls("nni_aio_set_msg") if len(x.node["args"]) > 1 and
                      show(f.expand(x.node["args"][0])) == B and is_null(f.expand(x.node["args"][1]))}
            off = G.must_pass(f, (c.b, c.i + 1), clears)
            if off is None:
                r.ob(f, "message moved from %s to %s (line %s); %s cleared on every way out" % (B, A, c.line, B))
            else:
                ctx.fail(r, f, "message left on both aios", c.line,
                         "%s hands the message of %s to %s (line %s) and can return without nni_aio_set_msg(%s, NULL): both aios "
                         "carry the same message, and when the transfer fails or is cancelled it is released twice"
                         % (f.name, B, A, c.line, B))
    if n < 4:
        raise AnalysisBroken("only %d message moves between aios found" % n)


# ---------------------------------------------------------------------------
# O12: definite assignment of scalar locals


def rule_o12(ctx):
    r = ctx.rule("C03.O12", "T12", "a local is given a value before it is used: for every pointer / arithmetic local declared without an "
                 "initialiser, no read of it is reachable from its declaration along a path that passes neither an assignment to it "
                 "nor a call that is handed its address (paths contradicting a constant-only flag set earlier are not followed) -- "
                 "an indeterminate pointer that reaches a release, a store into an object or the caller is memory corruption "
                 "waiting for the input that takes that path (a size of zero, an empty body)", floor=150)
    r.follows_values = True
    prog = ctx.prog
    n = 0
    for f in prog.functions:
        if f.cfg_failed or f.file.endswith("_test.c"):
            continue
        un = {}
        for s in f.sites():
            if s.node.get("k") == "decls":
                for d in s.node["d"]:
                    if d.get("init") is None and not d.get("static") and d.get("sc"):
                        un[d["n"]] = (s.b, s.i)
        for v, decl in sorted(un.items()):
            def is_def(b, i, e, v=v):
                if e is None:
                    return False
                for m in walk(f.expand(e)):
                    if m.get("k") == "asg" and m.get("op") == "=" and m["lhs"].get("k") == "var" and m["lhs"]["n"] == v:
                        return True
                    if m.get("k") == "un" and m.get("op") == "&" and m["e"].get("k") == "var" and m["e"]["n"] == v:
                        return True
                return False
            seen = G.reach_flags(f, (decl[0], decl[1] + 1), blocked=is_def)
            bad = None
            for s in f.sites():
                if (s.b, s.i) not in seen or f.blocks[s.b].elems[s.i] is not s.node:
                    continue
                e = f.expand(s.node)
                if e.get("k") == "decls":
                    continue
                for m in walk(e):
                    if m.get("k") == "var" and m["n"] == v and m.get("vk") == "local":
                        bad = s
                        break
                if bad:
                    break
            n += 1
            if bad is None:
                r.ob(f, "%s (declared line %s) is assigned on every path to each of its uses" % (v, f.line_of(*decl)))
            else:
                path = f.find_path((decl[0], decl[1] + 1), lambda b, i, t=bad: (b, i) == (t.b, t.i), blocked=is_def)
                ctx.fail(r, f, "%s read without a value" % v, bad.line,
                         "%s reads the local %s (declared without an initialiser at line %s) at line %s on a path that has not "
                         "assigned it: %s" % (f.name, v, f.line_of(*decl), bad.line, show(f.expand(bad.node))[:120]),
                         path=f.path_lines(path))
    if n < 150:
        raise AnalysisBroken("only %d uninitialised scalar locals found in the build" % n)


# ---------------------------------------------------------------------------
# O13: an element taken off an owning list is not dropped


def rule_o13(ctx):
    import re
    r = ctx.rule("C03.O13", "T4", "an element taken off an owning list is not dropped: a list is owning when some function releases what it "
                 "removes from it (the removed element reaches a *_fini / *_free / *_destroy function or nni_free); wherever an "
                 "element is removed from such a list with nni_list_remove, every path to the function's exit -- or to the next "
                 "assignment of the variable that names it -- hands it on (argument of a call, stored into an object, returned, "
                 "linked again): reading a field of it and walking on loses the only reference, and the teardown that drains "
                 "the list can no longer find it", floor=12)
    r.follows_values = True
    prog = ctx.prog
    READERS = ("nni_list_first", "nni_list_next", "nni_list_last", "nni_list_active", "nni_list_node_active", "nni_list_empty",
               "nni_list_remove", "nni_list_node_remove")
    fns = [f for f in prog.functions if not f.cfg_failed and not f.file.endswith("_test.c")]

    def removals(f):
        for c in f.calls("nni_list_remove"):
            a = [f.expand(x) if x is not None else None for x in c.node["args"]]
            if len(a) < 2 or a[0] is None or a[1] is None or a[1].get("k") != "var" or a[1].get("vk") != "local":
                continue
            if "aio" in ((f.locals().get(a[1]["n"]) or {}).get("t") or ""):
                continue        # parked operations: C02.A5 / A7
            lf = last_field(a[0])
            if lf:
                yield c, a[1]["n"], lf
    own = set()
    for f in fns:
        for c, v, lf in removals(f):
            after = f.reach((c.b, c.i + 1))
            for k in f.calls():
                fn_ = k.node.get("fn") or ""
                if (k.b, k.i) in after and (re.search(r"(_fini|_free|_destroy)$", fn_) or fn_ == "nni_free") and any(
                        x is not None and f.expand(x).get("k") == "var" and f.expand(x)["n"] == v for x in k.node["args"]):
                    own.add(lf)
    n = 0
    for f in fns:
        for c, v, lf in removals(f):
            if lf not in own:
                continue
            n += 1
            # other locals that are given the element's value (a temporary) name it too
            names = {v}
            for t in f.sites():
                for m in walk(f.expand(t.node)):
                    src = None
                    if m.get("k") == "asg" and m["lhs"].get("k") == "var" and m.get("op") == "=":
                        src, dst = m["rhs"], m["lhs"]["n"]
                    elif m.get("k") == "decls":
                        for d in m["d"]:
                            if d.get("init") is not None:
                                iv = f.expand(d["init"])
                                while iv is not None and iv.get("k") == "cast":
                                    iv = iv["e"]
                                if iv is not None and iv.get("k") == "var" and iv["n"] == v:
                                    names.add(d["n"])
                    if src is not None:
                        while src is not None and src.get("k") == "cast":
                            src = src["e"]
                        src = f.expand(src) if src is not None else None
                        if src is not None and src.get("k") == "var" and src["n"] == v and dst != v:
                            names.add(dst)

            def handoff(b, i, e, v=v, names=names):
                if e is None:
                    return False
                for m in walk(f.expand(e)):
                    if m.get("k") == "call" and m.get("fn") not in READERS:
                        for x in m["args"]:
                            x = f.expand(x) if x is not None else None
                            if x is not None and x.get("k") == "var" and x["n"] in names:
                                return True
                    if m.get("k") == "asg" and m["lhs"].get("k") != "var":
                        rr = m["rhs"]
                        while rr is not None and rr.get("k") == "cast":
                            rr = rr["e"]
                        rr = f.expand(rr) if rr is not None else None
                        if rr is not None and rr.get("k") == "var" and rr["n"] == v:
                            return True
                    if m.get("k") == "ret" and m.get("e") is not None and any(
                            y.get("k") == "var" and y["n"] == v for y in walk(f.expand(m["e"]))):
                        return True
                return False

            def redefined(e, v=v):
                return e is not None and any(m.get("k") == "asg" and m["lhs"].get("k") == "var" and m["lhs"]["n"] == v
                                             for m in walk(f.expand(e)))
            seen = f.reach((c.b, c.i + 1), blocked=handoff)
            lost = None
            if (f.exit, 0) in seen:
                lost = "the function's exit"
            else:
                for (b, i) in sorted(seen):
                    if i < len(f.blocks[b].elems) and redefined(f.blocks[b].elems[i]):
                        lost = "line %s, where %s is assigned again" % (f.line_of(b, i), v)
                        break
            if lost:
                ctx.fail(r, f, "%s dropped after removal from %s" % (v, lf), c.line,
                         "%s takes %s off %s (line %s) and reaches %s on a path that has not handed it to anybody: elements of "
                         "this list are released by whoever removes them, so this one is leaked" % (f.name, v, lf, c.line, lost))
            else:
                r.ob(f, "%s removed from %s at line %s is handed on along every path" % (v, lf, c.line))
    if n < 12 or len(own) < 6:
        raise AnalysisBroken("only %d removals from %d owning lists found" % (n, len(own)))
    r.notes.append("owning lists: " + ", ".join(sorted(own)))


# ---------------------------------------------------------------------------
# O14: a block is returned through the releaser that matches its allocator


def rule_o14(ctx):
    r = ctx.rule("C03.O14", "T11", "a block goes back the way it came: nni_strfree(p) returns strlen(p) + 1 bytes, which is the allocation "
                 "size only of a string made by nni_strdup / nni_asprintf and left alone -- a field released with nni_strfree "
                 "receives, everywhere in the library, only such strings (or NULL / another field of that kind); a field that is "
                 "also filled from nni_alloc / nni_zalloc (a sized block, e.g. the clone of a parsed URL whose buffer has NUL "
                 "bytes between its components) is released with nni_free and its recorded size", floor=15)
    prog = ctx.prog
    STR = ("nni_strdup", "nni_asprintf", "nni_strnlen", "nni_strcasestr")
    fns = [f for f in prog.functions if not f.cfg_failed and not f.file.endswith("_test.c")]
    freed = {}
    for f in fns:
        for c in f.calls("nni_strfree"):
            a0 = f.expand(c.node["args"][0]) if c.node["args"] else None
            if a0 is not None and a0.get("k") == "mem":
                freed.setdefault(last_field(a0), (f, c))
    if len(freed) < 15:
        raise AnalysisBroken("only %d fields released with nni_strfree found" % len(freed))
    stores = defaultdict(list)
    for f in fns:
        for t in f.assigns():
            if t.node["lhs"].get("k") == "mem" and last_field(t.node["lhs"]) in freed:
                stores[last_field(t.node["lhs"])].append((f, t))
        for c in f.calls("nni_asprintf"):
            pass
    for fld, (f0, c0) in sorted(freed.items()):
        bad = None
        for f, t in stores.get(fld, []):
            rhs = f.expand(t.node["rhs"])
            while rhs is not None and rhs.get("k") in ("cast", "asg"):
                rhs = f.expand(rhs["e"] if rhs.get("k") == "cast" else rhs["rhs"])
            if rhs is None or is_null(rhs):
                continue
            if rhs.get("k") == "var":
                from .c01 import reaching_defs
                ds = [x for _, x in reaching_defs(f, rhs["n"], (t.b, t.i))]
                if ds and any(x is not None and any(m.get("k") == "call" and m.get("fn") in ALLOCS for m in walk(x)) for x in ds):
                    bad = (f, t, "a block from nni_alloc / nni_zalloc")
                continue
            if rhs.get("k") == "call" and rhs.get("fn") in ALLOCS:
                bad = (f, t, "a block from %s" % rhs["fn"])
        if bad:
            f, t, what = bad
            ctx.fail(r, f0, "%s released with nni_strfree but filled from a sized allocation" % fld, c0.line,
                     "%s releases %s with nni_strfree (line %s), i.e. with the size strlen + 1, but %s stores %s there (line %s): "
                     "the block's size is not the length of the text in it, so the allocator is told the wrong size"
                     % (f0.name, fld, c0.line, f.name, what, t.line), file=f0.file)
        else:
            r.ob(f0, "%s: released with nni_strfree, filled only with duplicated strings" % fld)


def run(ctx):
    ctx.guard(rule_o1)
    ctx.guard(rule_o4)
    ctx.guard(rule_o7)
    ctx.guard(rule_o8)
    ctx.guard(rule_o9)
    ctx.guard(rule_o3)
    ctx.guard(rule_o11)
    ctx.guard(rule_o12)
    ctx.guard(rule_o13)
    ctx.guard(rule_o14)
    from . import c18
    ctx.guard(c18.rule_r11)      # sized free of the msgq ring: the recorded extent belongs to the storage
    for rr in ctx.rules:
        if rr.id == "C18.R11":
            rr.id = "C03.O10"
