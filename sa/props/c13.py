"""C13 -- devices route replies back; hop limits kill loops."""
from ..core import walk, show, const_of, last_field, truth_of, apath, is_null, AnalysisBroken, same_expr
from .. import guards as G
from ..hops import check_hop_loop, HOP_FUNCS
from . import c04

EXPLANATION = ("C13: the device forwards messages untouched (no message mutator in device.c, forward from the source "
               "socket's receive to the destination socket's send, free only on the failure branches); the four backtrace "
               "loops agree on the hop-loop facts and the raw reply path (xreq/xsurveyor) moves words only under the length "
               "guard with a checked append; every NNG_OPT_MAXTTL setter accepts exactly 1..NNI_MAX_MAX_TTL and the header "
               "buffer holds NNI_MAX_MAX_TTL+1 words; header writes are dominated by the capacity test; raw senders pop one "
               "routing word after the length test."
               " Also: device_cb frees the path message only under its state test; a reflector device runs one forwarder (R6); the hop limit is the socket's current value.")
EXPLANATION += " Round 3: the raw sockets' pumps a device forwards through survive a dropped message (R7 = C11.R9); the hop loop's panicking append on wire data is reported."
EXPLANATION += ' Round 6: the hop limit is applied to requests, never to replies on their way back (R8).'


def on_cycle(fn, pos):
    return pos in fn.reach((pos[0], pos[1] + 1))


def rule_r1(ctx):
    r = ctx.rule("C13.R1", "T10", "device.c does not alter messages: it calls no message mutator, forwards the aio's message "
                 "from nni_sock_recv(src) to nni_sock_send(dst), and frees it only on failure branches", floor=5)
    prog = ctx.prog
    fns = prog.fns_in("core/device.c")
    if len(fns) < 5:
        raise AnalysisBroken("core/device.c not in the build")
    ALLOWED = {"nni_msg_free", "nni_aio_get_msg", "nni_aio_set_msg"}
    n = 0
    for f in fns:
        for s in f.calls():
            nm = s.node.get("fn") or ""
            if nm.startswith(("nni_msg_", "nng_msg_")) and nm not in ALLOWED:
                ctx.fail(r, f, "message mutator %s in device" % nm, s.line, "the device calls %s on a forwarded message" % nm)
            n += 1
    r.ob(None, "%d calls in device.c inspected, no message mutator" % n)
    cb = prog.need("device_cb", "core/device.c")
    recvs = G.need_sites([s for s in cb.calls("nni_sock_recv")], "nni_sock_recv", cb)
    sends = G.need_sites([s for s in cb.calls("nni_sock_send")], "nni_sock_send", cb)
    for s, fld_ in ((recvs[0], "src"), (sends[0], "dst")):
        a0 = cb.expand(s.node["args"][0])
        if G.field_is(a0, fld_):
            r.ob(cb, "%s uses p->%s" % (s.node["fn"], fld_))
        else:
            ctx.fail(r, cb, "%s on wrong socket" % s.node["fn"], s.line, "%s is called on %s, expected the path's %s socket"
                     % (s.node["fn"], show(a0), fld_))
    # same aio carries the message from recv to send
    if same_expr(cb.expand(recvs[0].node["args"][1]), cb.expand(sends[0].node["args"][1])):
        r.ob(cb, "the same aio carries the message from receive to send")
    else:
        ctx.fail(r, cb, "message not forwarded", sends[0].line, "nni_sock_send uses a different aio than nni_sock_recv")
    # frees only under a failure test
    fail_edges = G.cond_edges(cb, lambda n_: n_.get("k") == "var" and n_["n"] == "rv", want_nonzero=True)
    for s in cb.calls("nni_msg_free"):
        if fail_edges and G.dominated(cb, (s.b, s.i), fail_edges):
            r.ob(cb, "free line %s only on rv != 0" % s.line)
        else:
            ctx.fail(r, cb, "message freed on the forwarding path", s.line, "device_cb frees a message on a path where rv == 0")
    # ... and only when the path's state says the message on the aio is still the device's: after a successful send the
    # aio may still point at a message the destination protocol now owns (pub0 does not clear it)
    states = {}
    for bid, k, atom, val in G.edge_facts(cb):
        if atom.get("k") == "bin" and atom["op"] in ("==", "!=") and G.field_is(atom["lhs"], "state") and \
                const_of(atom["rhs"]) is not None and ((atom["op"] == "==") == val):
            states[bid] = k
    for s in cb.calls("nni_msg_free"):
        if states and G.dominated(cb, (s.b, s.i), states):
            r.ob(cb, "free line %s under a test of the path state" % s.line)
        else:
            ctx.fail(r, cb, "message freed regardless of the path state", s.line,
                     "device_cb frees the message on the path aio without testing whether the path is receiving or sending: "
                     "after a successful send the pointer left on the aio belongs to the destination socket (use after free / "
                     "double free when the device is stopped while idle)")


def rule_r2(ctx):
    r = ctx.rule("C13.R2", "T9", "hop loops: rep0, xrep0, respondent0, xrespondent0 receive callbacks satisfy the shared "
                 "hop-loop facts; on receive paths the panicking nni_msg_header_append_u32 is never used inside a loop; the "
                 "raw reply paths (xreq0_recv_cb, xsurv0_recv_cb) move backtrace words only under len >= 4 with a checked append",
                 floor=40)
    prog = ctx.prog
    for name, file, raw in HOP_FUNCS:
        check_hop_loop(ctx, r, prog.need(name, file), raw)
    # receive callbacks: append_u32 not on a cycle
    cbs = set()
    for (ifn, aioexpr, cb, arg, site) in prog.aio_callbacks():
        lf = last_field(ifn.expand(aioexpr)) or ""
        if lf.endswith(".aio_recv"):
            cbs.add(cb)
    for name in sorted(cbs):
        f = prog.fn(name)
        if f is None or "/sp/protocol/" not in "/" + f.file:
            continue
        for s in f.calls("nni_msg_header_append_u32"):
            if on_cycle(f, (s.b, s.i)):
                ctx.fail(r, f, "nni_msg_header_append_u32 in a loop", s.line,
                         "a receive callback extends the header in a loop with nni_msg_header_append_u32, which aborts the "
                         "process when the header is full; a peer controls how many words arrive")
            else:
                r.ob(f, "append_u32 line %s not in a loop" % s.line)
    for name, file in (("xreq0_recv_cb", "reqrep0/xreq.c"), ("xsurv0_recv_cb", "survey0/xsurvey.c")):
        f = prog.need(name, file)
        apps = [s for s in f.calls(("nni_msg_header_append", "nng_msg_header_append"))]
        trims = [s for s in f.calls(("nni_msg_trim", "nni_msg_trim_u32"))]
        if not apps and not trims:
            raise AnalysisBroken("%s no longer moves header words" % name)
        lenok = G.cmp_edges(f, c04.is_call("nni_msg_len"), {"<": 1, ">=": 0})
        for s in apps + trims:
            if lenok and G.dominated(f, (s.b, s.i), lenok):
                r.ob(f, "%s line %s dominated by len >= 4" % (s.node["fn"], s.line))
            else:
                ctx.fail(r, f, "%s without length test" % s.node["fn"], s.line, "a word is moved from a body shorter than 4 bytes")
        for s in apps:
            if f.value_edges(s):
                r.ob(f, "append result tested")
            else:
                ctx.fail(r, f, "append result unchecked", s.line, "the result of the header append is ignored")


def rule_r3(ctx):
    r = ctx.rule("C13.R3", "T9", "ttl range: every NNG_OPT_MAXTTL setter uses nni_copyin_int(.., 1, NNI_MAX_MAX_TTL, ..) and the "
                 "message header buffer holds NNI_MAX_MAX_TTL + 1 words", floor=10)
    prog = ctx.prog
    hdr = None
    for fldd in prog.records.get("nng_msg", {}).get("fields", []):
        if fldd["n"] == "m_header_buf":
            hdr = fldd
    if hdr is None or not hdr.get("arr"):
        raise AnalysisBroken("nng_msg.m_header_buf not found")
    words = hdr["arr"]
    n = 0
    for f in prog.functions:
        if "/sp/protocol/" not in "/" + f.file:
            continue
        for s in f.calls("nni_copyin_int"):
            a = [f.expand(x) for x in s.node["args"]]
            if len(a) < 6 or "ttl" not in show(a[0]).lower():
                continue
            lo, hi = const_of(a[3]), const_of(a[4])
            n += 1
            if lo == 1 and hi == words - 1:
                r.ob(f, "ttl in [1, %d]" % hi)
            else:
                ctx.fail(r, f, "ttl range [%s, %s]" % (lo, hi), s.line,
                         "%s accepts ttl in [%s, %s]; the header holds %d words, so the range must be [1, %d]"
                         % (f.name, lo, hi, words, words - 1))
    if n < 10:
        raise AnalysisBroken("only %d MAXTTL setters found" % n)
    for rec, fname in (("rep0_ctx", "btrace"), ("resp0_ctx", "btrace")):
        for fldd in prog.records.get(rec, {}).get("fields", []):
            if fldd["n"] == fname:
                if fldd.get("arr") == words:
                    r.ob(None, "%s.%s holds %d words" % (rec, fname, words))
                else:
                    ctx.fail(r, None, "%s.%s extent" % (rec, fname), 0, "%s.%s holds %s words, the header %d"
                             % (rec, fname, fldd.get("arr"), words), file="(records)")


def rule_r4(ctx):
    r = ctx.rule("C13.R4", "T1", "header capacity: in nni_msg_header_append/insert every write to m_header_buf / m_header_len "
                 "is dominated by the edge len <= sizeof(m_header_buf) - m_header_len (or the equivalent sum form); trim/chop by len <= m_header_len", floor=8)
    prog = ctx.prog
    for name, kind in (("nni_msg_header_append", "grow"), ("nni_msg_header_insert", "grow"),
                       ("nni_msg_header_trim", "shrink"), ("nni_msg_header_chop", "shrink")):
        f = prog.need(name, "core/message.c")
        # edges on which the capacity relation is established, in any spelling (negated, operands swapped, inside a
        # boolean helper that was inlined, sum held in a temporary)
        ok_edges = {}
        for bid, k, atom, val in G.edge_facts(f):
            if atom.get("k") != "bin" or atom["op"] not in (">", "<=", "<", ">="):
                continue
            l, rr, op = atom["lhs"], atom["rhs"], atom["op"]
            if kind == "grow":
                if "sizeof" in show(l) and "m_header_len" in show(rr):
                    l, rr, op = rr, l, {">": "<", "<": ">", ">=": "<=", "<=": ">="}[op]
                # the room-left form: len <= sizeof(buf) - m_header_len (either operand order)
                def room(x):
                    return x.get("k") == "bin" and x.get("op") == "-" and "sizeof" in show(x["lhs"]) and "m_header_len" in show(x["rhs"])
                if room(l) and not room(rr):
                    l, rr, op = rr, l, {">": "<", "<": ">", ">=": "<=", "<=": ">="}[op]
                if room(rr) and "m_header_len" not in show(l):
                    if (op == "<=" and val) or (op == ">" and not val):
                        ok_edges[bid] = k
                    continue
                if not ("m_header_len" in show(l) and "sizeof" in show(rr)):
                    continue
            else:
                if G.field_is(l, "m_header_len") and not G.field_is(rr, "m_header_len"):
                    l, rr, op = rr, l, {">": "<", "<": ">", ">=": "<=", "<=": ">="}[op]
                if not G.field_is(rr, "m_header_len") or G.field_is(l, "m_header_len"):
                    continue
            # established "l <= rr": atom `l <= rr` true, or atom `l > rr` false
            if (op == "<=" and val) or (op == ">" and not val):
                ok_edges[bid] = k
        writes = [s for s in f.calls(("memcpy", "memmove"))] + G.stores(f, "m_header_len")
        if not ok_edges:
            ctx.fail(r, f, "capacity test missing", f.line, "%s has no capacity test of the expected form" % name)
            continue
        for s in writes:
            if G.dominated(f, (s.b, s.i), ok_edges):
                r.ob(f, "write line %s dominated by the capacity test" % s.line)
            else:
                ctx.fail(r, f, "header write without capacity test", s.line, "%s writes the header without passing its capacity test" % name)


def rule_r6(ctx):
    r = ctx.rule("C13.R6", "T2", "a reflector device (both ends the same socket) runs a single forwarder: in device_init the edge "
                 "s1 == s2 leads to num_paths = 1 before the paths are set up (two forwarders on one socket race and reorder one "
                 "peer's messages)", floor=1)
    f = ctx.prog.need("device_init", "core/device.c")
    prm = [p_["n"] for p_ in f.params if "nni_sock" in p_.get("t", "")]
    if len(prm) < 2:
        raise AnalysisBroken("device_init: socket parameters not found")
    same = G.rel_edges(f, lambda n: n.get("k") == "var" and n["n"] == prm[0], lambda n: n.get("k") == "var" and n["n"] == prm[1], "==")
    same.update(G.rel_edges(f, lambda n: n.get("k") == "var" and n["n"] == prm[1], lambda n: n.get("k") == "var" and n["n"] == prm[0], "=="))
    ones = [t for t in f.assigns() if t.node["lhs"].get("k") == "var" and "path" in t.node["lhs"]["n"] and const_of(f.expand(t.node["rhs"])) == 1]
    uses = [s for s in f.assigns() if G.field_is(s.node["lhs"], "num_paths") and const_of(f.expand(s.node["rhs"])) is None]
    if not same or not ones or not uses:
        ctx.fail(r, f, "reflector not reduced to one forwarder", f.line,
                 "device_init no longer sets the number of paths to 1 when both sockets are the same one")
        return
    ok = True
    for b, k in same.items():
        tgt = f.blocks[b].succs[k]
        if tgt is not None and G.must_pass(f, (tgt, 0), G.positions(ones), stop=G.positions(uses)):
            ok = False
    if ok:
        r.ob(f, "s1 == s2 always reaches num_paths = 1")
    else:
        ctx.fail(r, f, "reflector not reduced to one forwarder", f.line, "the s1 == s2 edge can reach the path set-up with two paths")


# ---------------------------------------------------------------------------
# R8: the hop limit is applied to requests, never to replies on their way back


def rule_r8(ctx):
    from .c12 import walk_global
    r = ctx.rule("C13.R8", "T10", "the hop limit is applied where a request (or survey) arrives, never to a reply on its way back: the "
                 "ttl field of the raw requester-side sockets (xreq0_sock, xsurv0_sock), which exists for the option's sake, is "
                 "accessed only by the option functions and the socket initialiser -- a reply at device j carries one "
                 "backtrace entry more than the request that device admitted, so a return path that counts hops against the "
                 "same limit throws away the replies to exactly those requests that were admitted at the limit", floor=4)
    prog = ctx.prog
    setget = set()
    for g in prog.globals:
        if "option" in (g.get("type") or "") or "option" in (g.get("name") or ""):
            for m in walk_global(g):
                if m.get("k") == "fnref":
                    setget.add(m["n"])
    n = 0
    for f in prog.functions:
        if f.cfg_failed:
            continue
        seen = set()
        for s_ in f.sites():
            for m in walk(s_.node):
                if m.get("k") == "mem" and m.get("rec") in ("xreq0_sock", "xsurv0_sock") and m["f"] == "ttl" and s_.line not in seen:
                    seen.add(s_.line)
                    n += 1
                    if f.name in setget or f.name.endswith(("_sock_init", "_sock_fini")):
                        r.ob(f, "%s.ttl touched by an option function / the initialiser" % m.get("rec"))
                    else:
                        ctx.fail(r, f, "%s.ttl used outside the option functions" % m.get("rec"), s_.line,
                                 "%s reads the hop limit of a requester-side raw socket at line %s: replies (responses) travelling "
                                 "back along their backtrace are not subject to the hop limit -- counting them drops the answers "
                                 "to requests that were admitted at the limit" % (f.name, s_.line))
    if n < 4:
        raise AnalysisBroken("only %d accesses to the requester-side ttl fields found" % n)


def run(ctx):
    ctx.guard(rule_r1)
    ctx.guard(rule_r2)
    ctx.guard(rule_r3)
    ctx.guard(rule_r4)
    ctx.guard(rule_r6)
    ctx.guard(rule_r8)
    ctx.guard(c04.rule_r6)
    for rr in ctx.rules:
        if rr.id.startswith("C04."):
            rr.id = "C13.R5"
    # a device forwards through the raw sockets' message pumps: one dropped message must not stop them
    from . import c11
    ctx.guard(c11.rule_r9)
    for rr in ctx.rules:
        if rr.id == "C11.R9":
            rr.id = "C13.R7"
    from . import c17
    ctx.guard(c17.rule_r10)          # popping the pipe id off a raw backtrace keeps the rest of the backtrace intact
    for rr in ctx.rules:
        if rr.id == "C17.R10":
            rr.id = "C13.R9"
