"""C06 -- PUSH/PULL: each message to at most one puller, none lost while connected."""
from ..core import walk, show, const_of, last_field, truth_of, apath, is_null, AnalysisBroken, same_expr
from .. import guards as G
from .. import msgown
from . import c04

EXPLANATION = ("C06: every message in push.c is on every path in exactly one place (pipe, buffer, or still with the parked / "
               "failed caller) -- the ownership typestate of C03 restricted to pipeline0; push.c frees messages only where a "
               "transport send failed or the peer sent garbage; a ready pipe is fed from the buffer first and from a blocked "
               "sender only when the buffer is empty (order), and a blocked sender's message refills the buffer; a sender is "
               "parked only after the ready list was empty and the buffer refused the message; a pull pipe has one "
               "outstanding receive, re-armed only when its held message was handed up, and fini frees a held message."
               " Also: protocol state is written under the socket lock at every site (C03.O7 run here as R5) and a resized lmq wraps its cursors with the new mask (C18.R8 as R6).")
EXPLANATION += ' Round 3: once the failure branch of a pipe callback has closed the pipe nothing more is done with it (R7); the lock discipline also covers queue and list mutators.'


def rule_r1(ctx):
    r = ctx.rule("C06.R1", "T5", "exactly-one hand-off: ownership typestate over every function of pipeline0/push.c and pull.c "
                 "(no leak, no double hand-off, failure leaves the message with the caller)", floor=6)
    prog = ctx.prog
    from . import c03
    send_ops = set()
    for slot in c03.SEND_SLOTS:
        for f in prog.slot_fns(slot):
            send_ops.add(f)
    cb = c03.callback_cells(prog)
    n = 0
    for f in prog.fns_in("pipeline0/push.c", "pipeline0/pull.c"):
        if f.cfg_failed or not (msgown.touches_msgs(f) or f.name in cb):
            continue
        entry = {}
        for lf, kind in cb.get(f.name, {}).items():
            for s in f.sites():
                if s.node.get("k") == "mem" and last_field(s.node) == lf:
                    cl = msgown.MsgClient(f, prog, None, set())
                    entry[cl.cell_of_aio(s.node)] = (kind, show(s.node), lf)
                    break
        uaios = [p["n"] for p in f.params if p["t"] in ("nni_aio *", "nng_aio *")]
        rep, sim = msgown.analyse(f, prog, {}, entry, uaios, f in send_ops, None,
                                  {"pull0_pipe.m", "pull0_pipe.aio"}, f.name.endswith(("_fini", "_close", "_stop")),
                                  {"pull0_pipe.m"})
        n += 1
        if not rep.items:
            r.ob(f, "%d path states" % sim.nstates)
        for kind, line, msg, construct, lines in rep.items:
            ctx.fail(r, f, "%s: %s" % (kind, construct), line, msg, lines)
    if n < 6:
        raise AnalysisBroken("pipeline0 functions not found")


def rule_r2(ctx):
    r = ctx.rule("C06.R2", "T10", "no silent discard: nni_msg_free occurs in push.c only on the failed-send branch of push0_send_cb "
                 "and in push0_recv_cb (data from a puller)", floor=2)
    prog = ctx.prog
    ALLOWED = {"push0_send_cb", "push0_recv_cb"}
    for f in prog.fns_in("pipeline0/push.c"):
        for s in f.calls(("nni_msg_free", "nng_msg_free")):
            if f.name in ALLOWED:
                if f.name == "push0_send_cb":
                    fail = G.cond_edges(f, c04.is_call("nni_aio_result"), want_nonzero=True)
                    if fail and G.dominated(f, (s.b, s.i), fail):
                        r.ob(f, "free only after a failed transport send")
                    else:
                        ctx.fail(r, f, "free on the success path", s.line, "push0_send_cb frees a message although the send succeeded")
                else:
                    r.ob(f, "garbage from the peer discarded")
            else:
                ctx.fail(r, f, "message freed in %s" % f.name, s.line,
                         "%s frees a message: a PUSH socket must hand every accepted message to a pipe, keep it buffered or "
                         "leave it with the blocked caller" % f.name)


def rule_r3(ctx):
    r = ctx.rule("C06.R3", "T1", "order and back-pressure: push0_pipe_ready feeds the pipe from the buffer first and takes a blocked "
                 "sender's message directly only when nni_lmq_get(&s->wq) failed; push0_sock_send parks only after the ready "
                 "list was empty and nni_lmq_put refused", floor=4)
    prog = ctx.prog
    f = prog.need("push0_pipe_ready", "pipeline0/push.c")
    gets = G.need_sites([s for s in f.calls("nni_lmq_get") if "wq" in show(f.expand(s.node["args"][0]))], "nni_lmq_get(&s->wq)", f)
    got, empty = {}, {}
    for s in gets:
        for b, (nz, z) in f.value_edges(s).items():
            got[b] = z
            empty[b] = nz
    sends = G.need_sites([s for s in f.calls("nni_pipe_send")], "nni_pipe_send", f)
    takes = [t for t in f.assigns() if "aq" in show(f.expand(t.node["rhs"])) and "nni_list_first" in show(f.expand(t.node["rhs"]))]
    for s in sends:
        a = G.dominated(f, (s.b, s.i), got)
        b_ = G.dominated(f, (s.b, s.i), empty)
        if a or b_:
            r.ob(f, "pipe fed line %s after %s" % (s.line, "a successful buffer get" if a else "the buffer was found empty"))
        else:
            ctx.fail(r, f, "pipe fed without consulting the buffer", s.line,
                     "nni_pipe_send at line %s is reached without first trying nni_lmq_get(&s->wq): a blocked sender's message "
                     "overtakes messages that were accepted into the buffer earlier" % s.line,
                     G.path_lines(f, (f.entry, 0), (s.b, s.i), got))
    # a blocked sender taken while the buffer had data refills the buffer
    for t in takes:
        if G.dominated(f, (t.b, t.i), got):
            puts = G.positions([s for s in f.calls("nni_lmq_put") if "wq" in show(f.expand(s.node["args"][0]))])
            ve = f.value_edges(t)
            ok = bool(puts)
            for b, (nz, z) in ve.items():
                tgt = f.blocks[b].succs[nz]
                if tgt is not None and G.must_pass(f, (tgt, 0), puts, stop=[(f.exit, 0)] + [(u.b, u.i) for u in f.calls("nni_mtx_unlock")]):
                    ok = False
            if ok:
                r.ob(f, "blocked sender's message refills the buffer")
            else:
                ctx.fail(r, f, "blocked sender not moved into the buffer", t.line,
                         "after draining one buffered message a waiting sender's message is not queued behind the others")
    g = prog.need("push0_sock_send", "pipeline0/push.c")
    parks = G.need_sites([s for s in g.calls("nni_aio_list_append")], "park", g)
    nopipe = {}
    for t in g.assigns():
        if "nni_list_first" in show(g.expand(t.node["rhs"])) and "pl" in show(g.expand(t.node["rhs"])):
            for b, (nz, z) in g.value_edges(t).items():
                nopipe[b] = z
    refused = {}
    for s in g.calls("nni_lmq_put"):
        for b, (nz, z) in g.value_edges(s).items():
            refused[b] = nz
    for s in parks:
        if nopipe and refused and G.dominated(g, (s.b, s.i), nopipe) and G.dominated(g, (s.b, s.i), refused):
            r.ob(g, "park only after no ready pipe and a full buffer")
        else:
            ctx.fail(r, g, "sender parked too early", s.line, "a sender is parked although a pipe was ready or the buffer had room")


def rule_r4(ctx):
    r = ctx.rule("C06.R4", "T3", "one outstanding receive per pull pipe: nni_pipe_recv on the pipe's aio is issued in pipe_start, or "
                 "on a path that hands the held message up; it is never issued after the message was stored in p->m; "
                 "pull0_pipe_fini frees a held message", floor=4)
    prog = ctx.prog
    for f in prog.fns_in("pipeline0/pull.c"):
        rec = [s for s in f.calls("nni_pipe_recv")]
        if not rec:
            continue
        if f.name == "pull0_pipe_start":
            r.ob(f, "initial receive")
            continue
        holds = G.positions(G.stores(f, "m", "nonnull"))
        ups = G.positions([s for s in f.calls(("nni_aio_finish_msg", "nni_aio_finish_sync", "nni_aio_finish"))])
        for s in rec:
            after_hold = any((s.b, s.i) in f.reach((h[0], h[1] + 1)) for h in holds)
            if after_hold:
                ctx.fail(r, f, "re-arm while a message is held", s.line,
                         "the pipe's receive is re-armed on a path that stored the message in p->m: a second message would "
                         "overwrite (lose) the held one")
                continue
            # a hand-up (finish of a user aio with the message) lies on every path through the re-arm
            before = not G.reaches(f, (f.entry, 0), [(s.b, s.i)], blocked=ups)
            after = not G.must_pass(f, (s.b, s.i + 1), ups) is not None if False else (G.must_pass(f, (s.b, s.i + 1), ups) is None)
            if before or after:
                r.ob(f, "re-arm line %s paired with a hand-up" % s.line)
            else:
                ctx.fail(r, f, "re-arm without hand-up", s.line, "nni_pipe_recv is issued on a path that neither holds nor hands up the message")
    fini = prog.need("pull0_pipe_fini", "pipeline0/pull.c")
    if any("->m" in show(fini.expand(s.node["args"][0])) for s in fini.calls("nni_msg_free")):
        r.ob(fini, "held message freed in fini")
    else:
        ctx.fail(r, fini, "held message not freed", fini.line, "pull0_pipe_fini no longer frees p->m")


def rule_r7(ctx):
    r = ctx.rule("C06.R7", "T2", "a failed transfer ends the pipe's service: in a protocol's pipe aio callback, once the failure branch "
                 "(nni_aio_result != 0) has closed the pipe, nothing more is done with that pipe -- it is not offered for the next "
                 "send, scheduled or read from; falling through into the success path hands queued messages to a dead pipe "
                 "(they are freed while their senders were told they succeeded)", floor=25)
    prog = ctx.prog
    HARMLESS = ("nni_mtx_unlock", "nni_mtx_lock", "nni_msg_free", "nni_aio_set_msg", "nni_aio_get_msg", "nni_pipe_close", "nni_stat_inc",
                "nni_pipe_bump_error", "nni_aio_result", "nni_pipe_id", "nng_log_debug", "nng_log_warn")
    n = 0
    for (ifn, aioexpr, cb, arg, site) in prog.aio_callbacks():
        lf = last_field(ifn.expand(aioexpr)) or ""
        if "/protocol/" not in "/" + ifn.file or "_pipe." not in lf:
            continue
        g = prog.fn(cb, ifn.file)
        if g is None or g.cfg_failed or not g.params:
            continue
        # the pipe object: the callback's argument or the single local initialised from it
        pv = {g.params[0]["n"]}
        for t in g.sites():
            if t.node.get("k") == "decls":
                for d in t.node["d"]:
                    e = g.expand(d["init"]) if d.get("init") is not None else None
                    while e is not None and e.get("k") == "cast":
                        e = e["e"]
                    if e is not None and e.get("k") == "var" and e["n"] in pv:
                        pv.add(d["n"])
        fail_edges = {}
        for bid, k, atom, val in G.edge_facts(g):
            if atom.get("k") == "call" and atom.get("fn") == "nni_aio_result" and atom["args"] and last_field(g.expand(atom["args"][0])) == lf:
                if val:
                    fail_edges[bid] = k
        for b, k in G.nz_edges(g, lambda m: m.get("k") == "call" and m.get("fn") == "nni_aio_result").items():
            fail_edges.setdefault(b, k)
        for c in g.calls("nni_pipe_close"):
            if not fail_edges or not G.dominated(g, (c.b, c.i), fail_edges):
                continue
            n += 1
            after = g.reach((c.b, c.i + 1))
            bad = None
            for c2 in g.calls():
                if (c2.b, c2.i) not in after or c2.node.get("fn") in HARMLESS:
                    continue
                if any(a is not None and any(x.get("k") == "var" and x["n"] in pv for x in walk(g.expand(a))) for a in c2.node["args"]):
                    bad = c2
                    break
            if bad is not None:
                ctx.fail(r, g, "%s after the failed pipe was closed" % (bad.node.get("fn") or "call"), bad.line,
                         "%s closes the pipe at line %s because its %s failed and then still reaches %s (line %s) with that pipe: "
                         "the dead pipe is treated as ready and is given messages that can never be transmitted"
                         % (g.name, c.line, lf.split(".")[1], show(bad.node)[:60], bad.line), g.path_lines(
                             g.find_path((c.b, c.i + 1), lambda b_, i_: (b_, i_) == (bad.b, bad.i))))
            else:
                r.ob(g, "failure branch of %s: pipe closed and left alone" % lf)
    if n < 25:
        raise AnalysisBroken("only %d failure branches that close the pipe found" % n)


def run(ctx):
    ctx.guard(rule_r1)
    ctx.guard(rule_r2)
    ctx.guard(rule_r3)
    ctx.guard(rule_r4)
    ctx.guard(rule_r7)
    from . import c03, c18
    ctx.guard(c03.rule_o7)
    ctx.guard(c18.rule_r8)
    for rr in ctx.rules:
        if rr.id == "C03.O7":
            rr.id = "C06.R5"
        if rr.id == "C18.R8":
            rr.id = "C06.R6"
    from . import c11
    ctx.guard(c11.rule_r11)       # a refused peer is not handed a queued message
    for rr in ctx.rules:
        if rr.id == "C11.R11":
            rr.id = "C06.R8"
    from . import c01
    ctx.guard(c01.rule_r13)          # an empty message is a message: its (absent) body is not read from the stream
    for rr in ctx.rules:
        if rr.id == "C01.R13":
            rr.id = "C06.R9"
