"""C15 -- non-blocking calls never block; poll descriptors mirror readiness."""
from collections import defaultdict

from .. import guards as G
from ..core import (walk, apath, show, const_of, is_null, last_field, strip_addr, truth_of, AnalysisBroken, same_expr)
from ..aiolib import *
from ..locks import lockinfo, LOCK, UNLOCK
from ..pathsim import Sim, Client

EXPLANATION = ("C15: NNG_FLAG_NONBLOCK is plumbed to a zero timeout and mapped back to NNG_EAGAIN; no operation function "
               "calls nni_aio_start on a path on which it then completes the same aio successfully (a zero-timeout caller "
               "would be refused although the operation could complete); every critical section that mutates a field a "
               "pollable's readiness is computed from re-evaluates that pollable after the last such mutation; pollable "
               "raise/clear only write the notification pipe on a state change."
               " Also: a pollable is cleared only under a test of what it stands for (R5) and every locked change of a msgq re-evaluates its descriptors (R6).")
EXPLANATION += " Round 3: a descriptor is lowered only with every conjunct of its not-ready predicate established, and only for the socket's own context (R7); a zero timeout is never replaced (R8)."
EXPLANATION += ' Round 6: a descriptor is raised on evidence that is still true -- nothing consumes from its support fields between the evidence and the raise (R11).'

OP_SLOTS = ("nni_proto_sock_ops.sock_send", "nni_proto_sock_ops.sock_recv", "nni_proto_ctx_ops.ctx_send",
            "nni_proto_ctx_ops.ctx_recv")
TAKE = ("nni_list_first", "nni_list_last", "nni_list_next")


def ok_finish(fn, n, var=None):
    """call node n completes an aio successfully; returns the aio expr."""
    f = n.get("fn")
    if f == "nni_aio_finish_msg" and n["args"]:
        return fn.expand(n["args"][0])
    if f in ("nni_aio_finish", "nni_aio_finish_sync") and len(n["args"]) >= 2:
        rv = fn.expand(n["args"][1])
        if const_of(rv) == 0 and rv.get("k") in ("int", "enum"):
            return fn.expand(n["args"][0])
    if f == "nni_aio_completions_add" and len(n["args"]) >= 3:
        rv = fn.expand(n["args"][2])
        if const_of(rv) == 0 and rv.get("k") in ("int", "enum"):
            return fn.expand(n["args"][1])
    return None


def serves_list(prog, g, depth=0, seen=None):
    """Park-list fields ('rec.field') from which function g may take an aio
    and complete it successfully (directly or through callees)."""
    seen = seen or set()
    if g in seen or depth > 3 or g is None or g.cfg_failed:
        return set()
    seen.add(g)
    out = set()
    taken = {}   # var -> list field
    for t in g.assigns():
        rhs = g.expand(t.node["rhs"])
        if rhs is not None and rhs.get("k") == "call" and rhs.get("fn") in TAKE and t.node["lhs"].get("k") == "var" \
                and is_aio_ptr(t.node["lhs"]) and rhs["args"]:
            lf = last_field(g.expand(rhs["args"][0]))
            if lf:
                taken.setdefault(t.node["lhs"]["n"], set()).add(lf)
    for s in g.calls():
        a = ok_finish(g, s.node)
        if a is not None and a.get("k") == "var" and a["n"] in taken:
            out |= taken[a["n"]]
        elif s.node.get("fn") and s.node["fn"] not in FINISH:
            h = prog.resolve(g, s.node["fn"])
            if h is not None and h is not g and h.file == g.file:
                out |= serves_list(prog, h, depth + 1, seen)
    return out


def rule_a6(ctx):
    r = ctx.rule("C15.R3", "T6", "fast path before start: in every function stored in a sock_send/sock_recv/ctx_send/ctx_recv "
                 "slot and in nni_msgq_aio_put/get, no path on which nni_aio_start(aio) succeeded completes that same aio "
                 "successfully before the function returns (directly or through a queue-serving helper)", floor=25)
    prog = ctx.prog
    fns = []
    for slot in OP_SLOTS:
        for f in prog.slot_fns(slot):
            if f not in fns:
                fns.append(f)
    for name in ("nni_msgq_aio_put", "nni_msgq_aio_get"):
        f = prog.fn(name)
        if f is None:
            raise AnalysisBroken("anchor %s missing" % name)
        fns.append(f)
    # helpers that receive the user aio from an op function
    extra = []
    for f in fns:
        for s in f.calls():
            if not s.node.get("fn") or s.node["fn"].startswith(("nni_aio_", "nni_list_", "nni_msg")):
                continue
            g = prog.resolve(f, s.node["fn"])
            if g is None or g.file != f.file or g in fns or g in extra:
                continue
            if any(a is not None and is_aio_ptr(f.expand(a)) and f.expand(a).get("vk") == "param" for a in s.node["args"]):
                if any(True for _ in g.calls(START)):
                    extra.append(g)
    # Accepted: single symbols with the invariant relied on.
    EXC = {
        "req0_ctx_send": "nni_aio_start is only called when ready_pipes is empty (short-circuit condition): the serve "
                         "helper req0_run_send_queue cannot complete the context just queued on that path",
    }
    for f in fns + extra:
        starts = [s for s in f.calls(START)]
        if not starts:
            r.ob(f, "no nni_aio_start: completes synchronously on every path")
            continue
        for s in starts:
            aio = arg(f, s.node, 0)
            if aio is None or aio.get("k") != "var":
                continue
            ve = f.value_edges(s)
            if not ve:
                continue
            ok_edge = lambda b, k, ve=ve: not (b in ve and k == ve[b][1])   # follow success edges only
            seen = f.reach((s.b, s.i + 1), edge_ok=ok_edge)
            # park places the aio is put into after the start
            parked = set()
            bad = None
            for (b, i) in sorted(seen):
                blk = f.blocks[b]
                if i >= len(blk.elems) or blk.elems[i] is None:
                    continue
                for n in walk(blk.elems[i]):
                    if n.get("k") != "call":
                        continue
                    if n.get("fn") in LIST_PARK and len(n["args"]) >= 2:
                        a1 = f.expand(n["args"][1])
                        if a1 is not None and same_expr(a1, aio):
                            lf = last_field(f.expand(n["args"][0]))
                            if lf:
                                parked.add(lf)
                    a = ok_finish(f, n)
                    if a is not None and same_expr(a, aio):
                        bad = (b, i, "%s(%s, success)" % (n["fn"], show(aio)))
            if bad is None and parked:
                for (b, i) in sorted(seen):
                    blk = f.blocks[b]
                    if i >= len(blk.elems) or blk.elems[i] is None:
                        continue
                    for n in walk(blk.elems[i]):
                        if n.get("k") == "call" and n.get("fn") and n["fn"] not in LIST_PARK:
                            g = prog.resolve(f, n["fn"])
                            if g is not None and g.file == f.file:
                                sv = serves_list(prog, g) & parked
                                if sv:
                                    bad = (b, i, "%s serves %s" % (g.name, ",".join(sorted(sv))))
            if bad and f.name in EXC:
                # the exception holds only while the start is guarded by the emptiness test
                guarded = False
                for gs in f.calls("nni_list_empty"):
                    if "ready_pipes" in show(f.expand(gs.node["args"][0])):
                        ge = f.value_edges(gs)
                        if ge and f.dominated_by((s.b, s.i), edge_ok=lambda b, k, ge=ge: not (b in ge and k == ge[b][0])):
                            guarded = True
                if guarded:
                    r.exception(f.name, EXC[f.name])
                    bad = None
            if bad:
                b, i, what = bad
                path = f.find_path((s.b, s.i + 1), lambda bb, ii: (bb, ii) == (b, i), edge_ok=ok_edge)
                ctx.fail(r, f, "start then %s" % what.split("(")[0].split(" ")[0], f.line_of(s.b, s.i, s.node),
                         "nni_aio_start(%s) is called on a path that then completes the same aio successfully (%s at line %s): "
                         "a non-blocking (zero timeout) caller is refused with NNG_EAGAIN although the operation could complete"
                         % (show(aio), what, f.line_of(b, i)), f.path_lines(path))
            else:
                r.ob(f, "nni_aio_start(%s) line %s: only parks afterwards" % (show(aio), s.line))


# ---------------------------------------------------------------------------
# R4 readiness co-update

POLL_UPD = ("nni_pollable_raise", "nni_pollable_clear")
LIST_MUT = ("nni_list_append", "nni_list_prepend", "nni_list_remove", "nni_list_insert_before", "nni_list_insert_after",
            "nni_aio_list_append")
LMQ_MUT = ("nni_lmq_put", "nni_lmq_get", "nni_lmq_flush", "nni_lmq_resize")

# Frozen from reading (DESIGN.md Appendix A.1): pollable field -> support fields.  The derived sets (fields read in
# the conditions that guard a raise/clear) are cross-checked against this table on every run.
SUPPORT = {
    "req0_sock.writable": {"req0_sock.ready_pipes"},
    "req0_sock.readable": {"req0_ctx.rep_msg"},
    "rep0_sock.readable": {"rep0_sock.recvpipes"},
    "resp0_sock.readable": {"resp0_sock.recvpipes"},
    "push0_sock.writable": {"push0_sock.wq", "push0_sock.pl"},
    "pull0_sock.readable": {"pull0_sock.pl"},
    "pair0_sock.writable": {"pair0_sock.wr_ready", "pair0_sock.wmq"},
    "pair0_sock.readable": {"pair0_sock.rd_ready", "pair0_sock.rmq"},
    "pair1_sock.writable": {"pair1_sock.wr_ready", "pair1_sock.wmq"},
    "pair1_sock.readable": {"pair1_sock.rd_ready", "pair1_sock.rmq"},
    "sub0_sock.readable": {"sub0_ctx.lmq"},
    "bus0_sock.can_recv": {"bus0_sock.recv_msgs"},
    "surv0_sock.readable": {"surv0_ctx.recv_lmq"},
}


def node_lists(prog):
    """(element record, node field) -> set of list fields ('rec.field') the node can be on."""
    out = defaultdict(set)
    for f in prog.functions:
        for s in f.calls("nni_list_init_offset"):
            if len(s.node["args"]) < 2:
                continue
            lst = last_field(f.expand(s.node["args"][0]))
            off = f.expand(s.node["args"][1])
            if not lst or off is None or off.get("k") != "offsetof":
                continue
            rec = off.get("ty", "").replace("struct ", "")
            ro = prog.records.get(rec) or prog.records.get(rec + "_s")
            if not ro:
                # typedef name -> record
                for rn, rv in prog.records.items():
                    if rn == rec:
                        ro = rv
            if not ro:
                continue
            for fld in ro["fields"]:
                if fld.get("off") == off.get("cv") and fld.get("rec") == "nni_list_node":
                    out[(rec, fld["n"])].add(lst)
    return out


def mutations(fn, prog, nodes, support):
    """[(pos, field)] sites in fn that mutate a support field."""
    out = []
    for s in fn.sites():
        n = s.node
        k = n.get("k")
        if k == "call":
            f = n.get("fn")
            if f in LIST_MUT + LMQ_MUT and n["args"]:
                lf = last_field(fn.expand(n["args"][0]))
                if lf in support:
                    out.append(((s.b, s.i), lf, show(n)[:60]))
            elif f == "nni_list_node_remove" and n["args"]:
                a = fn.expand(n["args"][0])
                lf = last_field(a)
                if lf:
                    rec, fld = lf.split(".", 1)
                    for lst in nodes.get((rec, fld), ()):
                        if lst in support:
                            out.append(((s.b, s.i), lst, show(n)[:60]))
        elif k == "asg":
            lf = last_field(n["lhs"])
            if lf in support and n["lhs"].get("k") == "mem":
                out.append(((s.b, s.i), lf, show(n)[:60]))
    return out


def evaluations(fn, poll, support):
    """positions that (re-)evaluate pollable `poll`: a raise/clear call on it,
    or a branch block whose condition reads a support field and one of whose
    edges leads straight to such a call."""
    upd = set()
    for s in fn.calls(POLL_UPD):
        if s.node["args"] and last_field(fn.expand(s.node["args"][0])) == poll:
            upd.add((s.b, s.i))
    ev = set(upd)
    for b in fn.blocks.values():
        if not b.term or len(b.succs) != 2:
            continue
        c = fn.cond(b.id)
        if c is None:
            continue
        reads = False
        for n in walk(c):
            if n.get("k") in ("mem",) and last_field(n) in support:
                reads = True
            if n.get("k") == "call" and n["args"] and last_field(fn.expand(n["args"][0])) in support:
                reads = True
        if not reads:
            continue
        # does one edge reach an update call before leaving the straight-line region?
        for k, sb in enumerate(b.succs):
            if sb is None:
                continue
            cur = sb
            hops = 0
            while cur is not None and hops < 4:
                blk = fn.blocks[cur]
                if any((cur, i) in upd for i in range(len(blk.elems))):
                    ev.add((b.id, max(len(b.elems) - 1, 0)))
                    break
                nxt = [x for x in blk.succs if x is not None]
                # follow nested conditions that still read support fields (a && b chains)
                if len(nxt) == 2 and blk.term:
                    c2 = fn.cond(cur)
                    if c2 is not None and any(n.get("k") == "mem" and last_field(n) in support for n in walk(c2)) or \
                            (c2 is not None and any(n.get("k") == "call" and n["args"] and
                                                    last_field(fn.expand(n["args"][0])) in support for n in walk(c2))):
                        # either edge may lead to the update
                        found = False
                        for y in nxt:
                            bl2 = fn.blocks[y]
                            if any((y, i) in upd for i in range(len(bl2.elems))):
                                found = True
                        if found:
                            ev.add((b.id, max(len(b.elems) - 1, 0)))
                        break
                if len(nxt) != 1:
                    break
                cur = nxt[0]
                hops += 1
    return ev, upd


def relevance_cut(fn):
    """Edges on which a context is known NOT to be the socket's master context
    (`ctx == &sock->master` false side): the socket pollable is not affected there."""
    cut = {}
    for b in fn.blocks.values():
        if not b.term or len(b.succs) != 2:
            continue
        c = fn.cond(b.id)
        if c is None or c.get("k") != "bin" or c.get("op") not in ("==", "!="):
            continue
        for x, y in ((c["lhs"], c["rhs"]), (c["rhs"], c["lhs"])):
            if x.get("k") == "var" and y.get("k") == "un" and y.get("op") == "&" and y["e"].get("k") == "mem":
                cut[b.id] = 1 if c["op"] == "==" else 0
    return cut


def cond_reads(fn, c, support):
    out = set()
    for n in walk(c) if c else ():
        if n.get("k") == "mem" and last_field(n) in support:
            out.add(last_field(n))
        if n.get("k") == "call" and n["args"]:
            lf = last_field(fn.expand(n["args"][0]))
            if lf in support:
                out.add(lf)
    return out


def eval_sites(fn, poll, support, muts):
    """{position: fields read} for evaluations of `poll`: each raise/clear call
    on it, with the support fields read by its *innermost* guarding condition
    (the a && b chain that directly controls the call), and those guarding
    branch blocks themselves."""
    upd = [(s.b, s.i) for s in fn.calls(POLL_UPD)
           if s.node["args"] and last_field(fn.expand(s.node["args"][0])) == poll]
    ev = {u: set() for u in upd}
    for u in upd:
        # climb through the branch blocks that directly control the call: the blocks of one
        # if-condition (its && / || pieces end in the block whose terminator is the if itself)
        seen = set()
        work = [(u[0], 0)]
        while work:
            cur, depth = work.pop()
            if cur in seen or depth > 6:
                continue
            seen.add(cur)
            for pid in fn.blocks[cur].preds:
                pb = fn.blocks[pid]
                if not pb.term or len(pb.succs) != 2:
                    continue
                kind = pb.term.get("kind")
                c = fn.cond(pid)
                rd = cond_reads(fn, c, support)
                ev[u] |= rd
                # the guarding condition is where the readiness is (re)computed
                ev.setdefault((pid, max(len(pb.elems) - 1, 0)), set()).update(rd)
                # pieces of a short-circuit chain have exactly one element (their operand)
                if kind in ("&&", "||") or (kind == "IfStmt" and cur != u[0] and False):
                    work.append((pid, depth + 1))
                elif kind == "IfStmt" and len([e for e in pb.elems if e is not None and e.get("k") != "ref"]) <= 1 and any(
                        fn.blocks[q].term and fn.blocks[q].term.get("kind") in ("&&", "||") for q in pb.preds):
                    work.append((pid, depth + 1))
    return ev


def rule_r4(ctx):
    r = ctx.rule("C15.R4", "T2", "readiness co-update: (a) every critical section that mutates a field the readiness of a "
                 "pollable is computed from contains an evaluation of that pollable (raise/clear, possibly guarded by a "
                 "condition over the support fields); (b) no support field that an evaluation's condition has read is "
                 "mutated afterwards in the same critical section without a new evaluation", floor=40)
    prog = ctx.prog
    nodes = node_lists(prog)
    for poll in SUPPORT:
        if not any(True for f in prog.functions for s in f.calls(POLL_UPD)
                   if s.node["args"] and last_field(f.expand(s.node["args"][0])) == poll):
            raise AnalysisBroken("pollable %s has no raise/clear site any more" % poll)
    # Mutations that cannot change what a poller may observe: one named site each.
    EXC = {
        ("push0_pipe_ready", "push0_sock.wq"): "monotone: taking a message out of wq / adding a ready pipe can only make the socket "
                                               "more writable; the function re-evaluates when it found the socket blocked (local flag)",
        ("push0_pipe_ready", "push0_sock.pl"): "same as above",
        ("pair0_pipe_start", "pair0_sock.rd_ready"): "re-initialisation: pair0_pipe_stop already cleared rd_ready and re-evaluated readable "
                                                     "when the previous peer went away",
        ("pair1_pipe_start", "pair1_sock.rd_ready"): "re-initialisation: pair1_pipe_stop already cleared rd_ready and re-evaluated readable",
        ("req0_pipe_stop", "req0_sock.ready_pipes"): "req0_pipe_close always runs before pipe_stop, removed the pipe from its list there and "
                                                     "re-evaluated writable; this removal finds the node inactive",
        ("bus0_sock_set_recv_buf_len", "bus0_sock.recv_msgs"): "the new capacity is at least 1 (nni_copyin_int lower bound), and nni_lmq_resize keeps "
                                                               "min(len, cap) messages: emptiness is preserved",
        ("sub0_ctx_set_recv_buf_len", "sub0_ctx.lmq"): "same: capacity >= 1 keeps a non-empty queue non-empty",

    }
    callers = prog.callers()

    def check_fn(f, poll, sup, muts, depth, via):
        ev = eval_sites(f, poll, sup, muts)
        # 'this is not the socket's own context' excuses a missing evaluation only for a descriptor that mirrors the
        # state of the socket's own context; one computed from state all contexts share (rep / respondent recvpipes)
        # changes whichever context took from it
        cut = relevance_cut(f) if (NOT_READY.get(poll) or (None, None))[1] else {}
        edge_ok = lambda b, k: not (b in cut and k == cut[b])
        locks = [(s.b, s.i) for s in f.calls(LOCK)]
        starts = [(p[0], p[1] + 1) for p in locks] or [(f.entry, 0)]

        def is_unlock(e):
            return any(n.get("k") == "call" and n.get("fn") == UNLOCK for n in walk(e))
        for pos, fld, txt in muts:
            # a tested nni_lmq_put/get mutates only when it returned 0: continue from that edge
            after_starts = [(pos[0], pos[1] + 1)]
            for cs in f.calls(("nni_lmq_put", "nni_lmq_get")):
                if (cs.b, cs.i) == pos:
                    ve = f.value_edges(cs)
                    if ve:
                        after_starts = [(f.blocks[b].succs[z], 0) for b, (nz, z) in ve.items()
                                        if f.blocks[b].succs[z] is not None]
            # (b) stale read: an evaluation that read fld precedes this mutation with no evaluation after it
            stale = None
            for epos, rd in ev.items():
                if fld not in rd:
                    continue
                seen = f.reach((epos[0], epos[1] + 1), edge_ok=edge_ok,
                               blocked=lambda b, i, e, pos=pos: (b, i) == pos or is_unlock(e))
                if pos in f.reach((epos[0], epos[1] + 1), edge_ok=edge_ok,
                                  blocked=lambda b, i, e: is_unlock(e)) or False:
                    # is there a later evaluation between the mutation and the unlock on every path?
                    after = set()
                    for st0 in after_starts:
                        after |= f.reach(st0, edge_ok=edge_ok, blocked=lambda b, i, e: (b, i) in ev)
                    leak = [(b, i) for (b, i) in after
                            if (i < len(f.blocks[b].elems) and f.blocks[b].elems[i] is not None and is_unlock(f.blocks[b].elems[i]))
                            or (b, i) == (f.exit, 0)]
                    # exclude the case where the evaluation is only *before* the mutation in program order
                    # because of a loop back edge: require epos to dominate-reach pos without unlock (done above)
                    if leak:
                        stale = (epos, leak[0])
                        break
            if stale:
                epos, lk = stale
                ctx.fail(r, f, "%s mutated after %s was evaluated" % (fld, poll.split(".")[1]), f.line_of(*pos),
                         "%s changes %s after the readiness of %s was computed from it (line %s) and the lock is released "
                         "(line %s) without re-evaluating: the poll descriptor can disagree with what a non-blocking call "
                         "would do%s" % (txt, fld, poll, f.line_of(*epos), f.line_of(*lk), via))
                continue
            # (a) coverage: an evaluation before (since the lock) or after (until the unlock) the mutation
            before_free = any(pos in f.reach(st, edge_ok=edge_ok, blocked=lambda b, i, e: (b, i) in ev or is_unlock(e))
                              for st in starts)
            after = set()
            for st0 in after_starts:
                after |= f.reach(st0, edge_ok=edge_ok, blocked=lambda b, i, e: (b, i) in ev)
            after_unlock = [(b, i) for (b, i) in after
                            if i < len(f.blocks[b].elems) and f.blocks[b].elems[i] is not None and is_unlock(f.blocks[b].elems[i])]
            after_exit = (f.exit, 0) in after
            if not before_free or not (after_unlock or after_exit):
                r.ob(f, "%s (%s) line %s: %s evaluated in the same critical section" % (fld, txt, f.line_of(*pos), poll))
                continue
            if (f.name, fld) in EXC:
                okx = True
                if f.name.endswith("_set_recv_buf_len"):
                    okx = False
                    for cs in f.calls("nni_copyin_int"):
                        lo = const_of(f.expand(cs.node["args"][3])) if len(cs.node["args"]) > 3 else None
                        if lo is not None and lo >= 1:
                            okx = True
                if okx:
                    r.exception("%s %s" % (f.name, fld), EXC[(f.name, fld)])
                    r.ob(f, "excepted: %s" % fld)
                    continue
            if after_exit and not after_unlock and not locks and depth < 2:
                # helper running under the caller's lock: the callers must evaluate
                cs = [(c, s) for (c, s) in callers.get(f.name, []) if prog.resolve(c, f.name) is f]
                if cs:
                    for c, s in cs:
                        check_fn(c, poll, sup, [((s.b, s.i), fld, "%s > %s" % (f.name, txt))], depth + 1,
                                 " (mutation inside %s)" % f.name)
                    continue
            lk = (after_unlock or [(f.exit, 0)])[0]
            ctx.fail(r, f, "%s mutated without evaluating %s" % (fld, poll.split(".")[1]), f.line_of(*pos),
                     "%s changes %s, from which the readiness of %s is computed, and the critical section ends (line %s) "
                     "without raising/clearing that pollable: the poll descriptor can disagree with what a non-blocking "
                     "call would do%s" % (txt, fld, poll, f.line_of(*lk), via))

    for poll, sup in sorted(SUPPORT.items()):
        for f in prog.functions:
            if f.cfg_failed:
                continue
            if f.name.endswith(("_init", "_fini", "_sock_close")):
                continue    # before publication / during teardown no poller can observe the socket
            muts = mutations(f, prog, nodes, sup)
            if muts:
                check_fn(f, poll, sup, muts, 0, "")



def rule_r5(ctx):
    r = ctx.rule("C15.R5", "T1", "a poll descriptor is lowered only on evidence: every nni_pollable_clear of a protocol pollable is "
                 "dominated by a test of (or a flush of) one of the fields its readiness is defined over -- removing one element "
                 "from a collection is not evidence that the collection is empty", floor=30)
    prog = ctx.prog
    for f in prog.functions:
        if f.cfg_failed:
            continue
        clears = [s for s in f.calls("nni_pollable_clear") if s.node["args"] and last_field(f.expand(s.node["args"][0])) in SUPPORT]
        if not clears:
            continue
        facts = G.edge_facts(f)
        for s in clears:
            poll = last_field(f.expand(s.node["args"][0]))
            sup = SUPPORT[poll]
            ok = False
            for bid, k, atom, val in facts:
                if any(m.get("k") == "mem" and last_field(m) in sup for m in walk(atom)) and G.dominated(f, (s.b, s.i), {bid: k}):
                    ok = True
                    break
            if not ok:
                for c in f.calls(("nni_lmq_flush",)):
                    if c.node["args"] and last_field(f.expand(c.node["args"][0])) in sup and \
                            f.dominated_by((s.b, s.i), blocked=lambda b, i, e, c=c: (b, i) == (c.b, c.i)):
                        ok = True
            if ok:
                r.ob(f, "clear of %s line %s under a test of its support" % (poll, s.line))
            else:
                ctx.fail(r, f, "%s cleared without testing what it stands for" % poll, s.line,
                         "nni_pollable_clear(%s) at line %s is not dominated by any test of %s: with another element still "
                         "present the descriptor stops polling readable/writable although the operation would succeed"
                         % (poll, s.line, ", ".join(sorted(sup))))




# ---------------------------------------------------------------------------
# R7: a descriptor is lowered only when its whole readiness predicate is false

# Frozen from reading (DESIGN.md Appendix A.1): the conjunction under which a pollable is *not* ready -- the negation of the
# "raised iff" disjunction.  kind: full/empty (queue or list), false (boolean flag), null (pointer field).
# master: the embedded context of the socket whose state the socket-level descriptor mirrors.
NOT_READY = {
    "req0_sock.writable": ([("empty", "req0_sock.ready_pipes")], None),
    "req0_sock.readable": ([("null", "req0_ctx.rep_msg")], "req0_sock.master"),
    "rep0_sock.readable": ([("empty", "rep0_sock.recvpipes")], None),
    "resp0_sock.readable": ([("empty", "resp0_sock.recvpipes")], None),
    "push0_sock.writable": ([("full", "push0_sock.wq"), ("empty", "push0_sock.pl")], None),
    "pull0_sock.readable": ([("empty", "pull0_sock.pl")], None),
    "pair0_sock.writable": ([("false", "pair0_sock.wr_ready"), ("full", "pair0_sock.wmq")], None),
    "pair0_sock.readable": ([("false", "pair0_sock.rd_ready"), ("empty", "pair0_sock.rmq")], None),
    "pair1_sock.writable": ([("false", "pair1_sock.wr_ready"), ("full", "pair1_sock.wmq")], None),
    "pair1_sock.readable": ([("false", "pair1_sock.rd_ready"), ("empty", "pair1_sock.rmq")], None),
    "sub0_sock.readable": ([("empty", "sub0_ctx.lmq")], "sub0_sock.master"),
    "bus0_sock.can_recv": ([("empty", "bus0_sock.recv_msgs")], None),
    "surv0_sock.readable": ([("empty", "surv0_ctx.recv_lmq")], "surv0_sock.ctx"),
}


class _EvidenceClient(Client):
    """State: (frozenset of (field, holds?) facts, frozenset of pending (clear position, field)).
    `holds` True means the conjunct of the not-ready predicate over that field is established."""

    def __init__(self, fn, prog, conj, poll, helpers):
        self.fn = fn
        self.prog = prog
        self.kinds = {f: k for k, f in conj}
        self.poll = poll
        self.helpers = helpers
        self.viol = {}       # (clear pos, field) -> end position
        self.clears = set()

    def init(self, sim):
        return (frozenset(), frozenset())

    def _set(self, st, fld, val):
        facts, pend = st
        facts = frozenset((f, v) for f, v in facts if f != fld)
        if val is not None:
            facts = facts | {(fld, val)}
        return (facts, pend)

    def _arg_field(self, n, i=0):
        if len(n.get("args") or ()) <= i or n["args"][i] is None:
            return None
        return last_field(self.fn.expand(n["args"][i]))

    def branch(self, st, subj, val, sim):
        nz = val[0] in ("NZ", "NE") if val[0] != "NE" else None
        if val[0] == "NZ":
            nz = True
        elif val[0] == "Z" or (val[0] == "EQ" and val[1] == 0):
            nz = False
        elif val[0] == "EQ":
            nz = True
        elif val[0] == "NE" and val[1] == 0:
            nz = True
        else:
            nz = None
        k = subj.get("k")
        if k == "call":
            f = subj.get("fn")
            fld = self._arg_field(subj)
            if fld not in self.kinds or nz is None:
                return st
            kind = self.kinds[fld]
            if f == "nni_lmq_full" and kind == "full":
                return self._set(st, fld, nz)
            if f in ("nni_lmq_empty", "nni_list_empty") and kind == "empty":
                return self._set(st, fld, nz)
            if f in ("nni_list_first", "nni_list_last") and kind == "empty":
                return self._set(st, fld, not nz)
            if f == "nni_lmq_get" and kind == "empty":
                # a refused get is evidence of emptiness; a successful one leaves the question open
                return self._set(st, fld, True if nz else None)
            if f == "nni_lmq_put" and kind == "full":
                return self._set(st, fld, True if nz else None)
            if f == "nni_lmq_len" and kind == "empty":
                return self._set(st, fld, not nz)
            return st
        if k == "mem":
            fld = last_field(subj)
            if fld in self.kinds and nz is not None and self.kinds[fld] in ("false", "null"):
                return self._set(st, fld, not nz)
        return st

    def node(self, st, n, sim):
        k = n.get("k")
        fn = self.fn
        if k == "asg" and n["lhs"].get("k") == "mem":
            fld = last_field(n["lhs"])
            if fld in self.kinds:
                rhs = fn.expand(n["rhs"])
                cv = const_of(rhs)
                if n.get("op") == "=" and self.kinds[fld] in ("false", "null") and (cv is not None or is_null(rhs)):
                    return self._set(st, fld, (cv == 0) if cv is not None else True)
                return self._set(st, fld, None)
            return st
        if k != "call":
            return st
        f = n.get("fn")
        if f == "nni_pollable_clear" and self._arg_field(n) == self.poll:
            facts, pend = st
            have = dict(facts)
            self.clears.add(sim.cur)
            missing = [fld for fld in self.kinds if have.get(fld) is not True]
            return (facts, pend | {(sim.cur, fld) for fld in missing})
        if f == "nni_pollable_raise" and self._arg_field(n) == self.poll:
            # a later raise supersedes the clear
            return (st[0], frozenset())
        if f in (LOCK, UNLOCK):
            return self._settle(st, sim.cur) if f == UNLOCK else st
        fld = self._arg_field(n)
        if fld in self.kinds:
            if f == "nni_lmq_flush" and self.kinds[fld] == "empty":
                return self._set(st, fld, True)
            if f in LIST_MUT + LMQ_MUT + ("nni_list_remove", "nni_list_node_remove"):
                # tested put/get are refined on the branch; here the content changed
                return self._set(st, fld, None)
        h = self.helpers.get(f)
        if h:
            for fld2, v in h.items():
                if fld2 in self.kinds:
                    st = self._set(st, fld2, v)
        return st

    def _settle(self, st, pos):
        facts, pend = st
        have = dict(facts)
        for (cpos, fld) in pend:
            if have.get(fld) is not True:
                self.viol.setdefault((cpos, fld), pos)
        return (facts, frozenset())

    def at_exit(self, st, sim, via):
        self._settle(st, (self.fn.exit, 0))


def helper_effects(prog, f, fields):
    """{field: True/None}: what a file-local helper does to the tracked fields: True when it establishes the not-ready
    conjunct on every path (flag stored false / pointer stored NULL, dominating its exit), None when it may change it."""
    out = {}
    for t in f.assigns():
        if t.node["lhs"].get("k") != "mem":
            continue
        fld = last_field(t.node["lhs"])
        if fld not in fields:
            continue
        rhs = f.expand(t.node["rhs"])
        cv = const_of(rhs)
        est = t.node.get("op") == "=" and fields[fld] in ("false", "null") and ((cv is not None and cv == 0) or is_null(rhs))
        if est and f.dominated_by((f.exit, 0), blocked=lambda b, i, e, t=t: (b, i) == (t.b, t.i)) and fld not in out:
            out[fld] = True
        else:
            out[fld] = None
    for c in f.calls():
        if c.node.get("fn") in LIST_MUT + LMQ_MUT + ("nni_list_remove", "nni_list_node_remove") and c.node["args"]:
            fld = last_field(f.expand(c.node["args"][0]))
            if fld in fields:
                out[fld] = None
    return out


def rule_r7(ctx):
    r = ctx.rule("C15.R7", "T1", "a poll descriptor is lowered only when its whole readiness predicate is false: every "
                 "nni_pollable_clear is reached, on every path, with each conjunct of the not-ready condition established "
                 "(by a test, a refused put/get, a flush or a store) by the end of its critical section, and -- for a "
                 "descriptor that mirrors the socket's own context -- only for that context", floor=30)
    prog = ctx.prog
    for poll, (conj, master) in NOT_READY.items():
        if {f for _, f in conj} != SUPPORT.get(poll):
            raise AnalysisBroken("not-ready predicate of %s does not cover its support set" % poll)
    for poll, (conj, master) in sorted(NOT_READY.items()):
        fields = {f: k for k, f in conj}
        for f in prog.functions:
            if f.cfg_failed:
                continue
            clears = [s for s in f.calls("nni_pollable_clear") if s.node["args"] and last_field(f.expand(s.node["args"][0])) == poll]
            if not clears:
                continue
            if f.name.endswith(("_init", "_fini")):
                continue
            helpers = {}
            for c in f.calls():
                h = prog.resolve(f, c.node["fn"]) if c.node.get("fn") else None
                if h is not None and h.file == f.file and h is not f and not h.cfg_failed and h.static:
                    eff = helper_effects(prog, h, fields)
                    if eff:
                        helpers[h.name] = eff
            cl = _EvidenceClient(f, prog, conj, poll, helpers)
            sim = Sim(f, cl, max_states=20000)
            sim.run()
            if sim.truncated:
                raise AnalysisBroken("evidence simulation truncated in %s" % f.name)
            ef = G.edge_facts(f) if master else None
            for s in clears:
                pos = (s.b, s.i)
                bad = sorted(fld for (cpos, fld) in cl.viol if cpos == pos)
                if master and not bad:
                    # the test must be about the socket's own context
                    mfld = master.split(".", 1)[1]
                    ok = False
                    for bid, k, atom, val in ef:
                        if val and atom.get("k") == "bin" and atom.get("op") == "==" and G.dominated(f, pos, {bid: k}) and any(
                                m.get("k") == "mem" and last_field(m) == master for m in walk(atom)):
                            ok = True
                    # or the state is reached through the embedded context itself (sock->master.lmq)
                    for m in walk(f.blocks[s.b].elems[s.i]) if not ok else ():
                        pass
                    if not ok:
                        through = [x for x in f.sites() if x.node.get("k") == "mem" and last_field(x.node) in fields and any(
                            y.get("k") == "mem" and last_field(y) == master for y in walk(x.node))]
                        ok = bool(through) and not [x for x in f.sites() if x.node.get("k") == "mem" and last_field(x.node) in fields
                                                    and not any(y.get("k") == "mem" and last_field(y) == master for y in walk(x.node))]
                    if not ok:
                        ctx.fail(r, f, "%s cleared for any context" % poll, s.line,
                                 "nni_pollable_clear(%s) at line %s is not confined to the socket's own context (%s): the state of "
                                 "another context lowers the socket's descriptor while a socket-level receive would succeed"
                                 % (poll, s.line, mfld))
                        continue
                if bad:
                    end = cl.viol[(pos, bad[0])]
                    ctx.fail(r, f, "%s cleared without %s" % (poll, ",".join("%s(%s)" % (fields[b_], b_.split(".")[1]) for b_ in bad)), s.line,
                             "nni_pollable_clear(%s) at line %s is reached on a path where %s is not established by the end of the "
                             "critical section (line %s): the descriptor stops polling ready although the operation would succeed"
                             % (poll, s.line, " and ".join("%s %s" % (b_.split(".")[1], fields[b_]) for b_ in bad), f.line_of(*end)))
                else:
                    r.ob(f, "clear of %s line %s: %s established" % (poll, s.line, ", ".join("%s %s" % (x.split(".")[1], fields[x]) for x in fields)))


def rule_r6(ctx):
    r = ctx.rule("C15.R6", "T2", "the raw sockets' queue re-evaluates its two poll descriptors whenever it changes: every function of "
                 "msgqueue.c that takes mq_lock and changes the queue's length, capacity or waiter lists calls "
                 "nni_msgq_run_notify before it unlocks", floor=8)
    prog = ctx.prog
    EXC = {"nni_msgq_close": "the queue is closing: every waiter is failed with NNG_ECLOSED and no operation can succeed any more; "
                             "the descriptors are torn down with the socket"}
    n = 0
    for f in prog.fns_in("core/msgqueue.c"):
        if f.cfg_failed or not list(f.calls("nni_mtx_lock")):
            continue
        muts = []
        for s in f.sites():
            nd = s.node
            if nd.get("k") == "call" and nd.get("fn") in ("nni_aio_list_remove", "nni_aio_list_append", "nni_list_append", "nni_list_remove"):
                muts.append((s, nd["fn"]))
            if nd.get("k") == "asg" and nd["lhs"].get("k") == "mem" and nd["lhs"]["f"] in ("mq_len", "mq_cap"):
                muts.append((s, "store to " + nd["lhs"]["f"]))
            if nd.get("k") == "un" and nd.get("op") in ("++", "--") and nd["e"].get("k") == "mem" and nd["e"]["f"] == "mq_len":
                muts.append((s, "mq_len" + nd["op"]))
        if not muts:
            continue
        notif = G.positions(f.calls("nni_msgq_run_notify"))
        unl = G.positions(f.calls("nni_mtx_unlock"))
        for s, what in muts:
            n += 1
            if f.name in EXC:
                r.exception(f.name, EXC[f.name])
                r.ob(f, "excepted")
                continue
            if G.must_pass(f, (s.b, s.i + 1), notif, stop=unl | {(f.exit, 0)}):
                ctx.fail(r, f, "queue changed without nni_msgq_run_notify", s.line,
                         "%s at line %s changes what mq_sendable / mq_recvable stand for, and the lock is released without "
                         "nni_msgq_run_notify: the descriptors keep their old state (a poller is not woken although the "
                         "operation would succeed, or spins although it would not)" % (what, s.line))
            else:
                r.ob(f, "%s line %s followed by nni_msgq_run_notify" % (what, s.line))
    if n < 8:
        raise AnalysisBroken("only %d queue mutations under mq_lock found" % n)



# ---------------------------------------------------------------------------
# R8: nobody replaces a zero timeout

_CMP = {"<": lambda a, b: a < b, "<=": lambda a, b: a <= b, ">": lambda a, b: a > b, ">=": lambda a, b: a >= b,
        "==": lambda a, b: a == b, "!=": lambda a, b: a != b}


def rule_r8(ctx):
    r = ctx.rule("C15.R8", "T1", "a zero timeout stays zero: a function that is handed the caller's aio changes its timeout or expiry "
                 "(nni_aio_set_expire / nni_aio_set_timeout, or a store to a_timeout) only on paths whose conditions exclude a "
                 "timeout of 0 -- NNG_FLAG_NONBLOCK is a zero timeout, and an operation whose timeout was replaced waits instead "
                 "of answering NNG_EAGAIN", floor=2)
    prog = ctx.prog
    n = 0
    st = prog.need("nni_aio_start", "core/aio.c")
    # nni_aio_start tests a_use_expire before it looks at the timeout at all
    use_expire_wins = any(atom.get("k") == "mem" and atom.get("f") == "a_use_expire" for _, _, atom, _ in G.edge_facts(st))
    for f in prog.functions:
        if f.cfg_failed or f.file.endswith("_test.c") or "testing/" in f.file or f.file.endswith("src/nng.c") or f.name in (
                "nni_aio_set_timeout", "nni_aio_set_expire", "nng_aio_set_timeout", "nng_aio_set_expire", "nni_aio_init"):
            continue
        params = {p_["n"] for p_ in f.params if "aio" in (p_.get("t") or "")}
        if not params:
            continue
        sites = []
        for c in f.calls(("nni_aio_set_expire", "nni_aio_set_timeout")):
            a = f.expand(c.node["args"][0]) if c.node["args"] else None
            if a is not None and a.get("k") == "var" and a["n"] in params:
                sites.append((c, a["n"], show(c.node)[:50]))
        for t in f.assigns():
            l = t.node["lhs"]
            if l.get("k") == "mem" and l.get("f") == "a_timeout" and l.get("b") is not None:
                b = f.expand(l["b"])
                if b is not None and b.get("k") == "var" and b["n"] in params:
                    sites.append((t, b["n"], show(t.node)[:50]))
        if not sites:
            continue
        facts = G.edge_facts(f)

        def is_timeout(e, aio):
            e = G.resolve(f, e, (f.entry, 0)) if e is not None and e.get("k") == "var" else e
            if e is None:
                return False
            if e.get("k") == "call" and e.get("fn") in ("nni_aio_get_timeout", "nng_aio_get_timeout"):
                return True
            return e.get("k") == "mem" and e.get("f") == "a_timeout"
        for site, aio, txt in sites:
            n += 1
            excl = {}
            for bid, k, atom, val in facts:
                # an aio in absolute-expiry mode is not a non-blocking call, whatever its (unused) timeout says:
                # nni_aio_start looks at the timeout only when a_use_expire is clear
                if val and atom.get("k") == "mem" and atom.get("f") == "a_use_expire" and use_expire_wins:
                    excl[bid] = k
                    continue
                if atom.get("k") != "bin" or atom.get("op") not in _CMP:
                    continue
                for lhs, rhs, op in ((atom["lhs"], atom["rhs"], atom["op"]),
                                     (atom["rhs"], atom["lhs"], {"<": ">", ">": "<", "<=": ">=", ">=": "<="}.get(atom["op"], atom["op"]))):
                    cv = const_of(rhs)
                    tl = lhs
                    if tl.get("k") == "var":
                        ds = [d for _, d in G.var_defs(f, tl["n"])]
                        tl = ds[0] if len(ds) == 1 and ds[0] is not None else tl
                    if cv is not None and is_timeout(tl, aio):
                        if _CMP[op](0, cv) != bool(val):
                            excl[bid] = k       # this edge cannot be taken with a timeout of 0
            if excl and G.dominated(f, (site.b, site.i), excl):
                r.ob(f, "%s line %s: only on paths that exclude a zero timeout" % (txt, site.line))
            else:
                ctx.fail(r, f, "%s reachable with a zero timeout" % txt.split("(")[0], site.line,
                         "%s replaces the caller's timeout at line %s (%s) on a path that a timeout of 0 can take: a non-blocking "
                         "call then waits for the new deadline instead of failing at once with NNG_EAGAIN" % (f.name, site.line, txt))
    if n < 2:
        raise AnalysisBroken("only %d places change the timeout of a caller's aio" % n)


def rule_r9(ctx):
    r = ctx.rule("C15.R9", "T1", "publish, then look: nni_pollable_raise writes the notification pipe only once the descriptors are "
                 "published, so nni_pollable_getfd samples the level (p_raised) and primes the new pipe only after its "
                 "compare-and-swap has published them -- a level sampled earlier can be stale, and a raise that lands in "
                 "between is lost: the descriptor stays unreadable with a message waiting", floor=2)
    f = ctx.prog.need("nni_pollable_getfd", "core/pollable.c")
    cas = [c for c in f.calls("nni_atomic_cas64")]
    G.need_sites(cas, "nni_atomic_cas64 publishing the descriptors", f)
    ok_edges = {}
    for c in cas:
        for b, (nz, z) in f.value_edges(c).items():
            ok_edges[b] = nz
    if not ok_edges:
        raise AnalysisBroken("the result of the publishing compare-and-swap is not tested")
    looks = [c for c in f.calls("nni_atomic_get_bool") if c.node["args"] and (last_field(f.expand(c.node["args"][0])) or "").endswith(".p_raised")]
    primes = [c for c in f.calls("nni_plat_pipe_raise")]
    G.need_sites(looks + primes, "level sample / priming write", f)
    for c in looks + primes:
        if G.dominated(f, (c.b, c.i), ok_edges):
            r.ob(f, "%s line %s: after the descriptors were published" % (c.node["fn"], c.line))
        else:
            ctx.fail(r, f, "%s before the descriptors are published" % c.node["fn"], c.line,
                     "nni_pollable_getfd calls %s at line %s on a path that has not yet published p_fds: a concurrent "
                     "nni_pollable_raise sees no descriptors and writes nothing, the sampled level is already stale, and the new "
                     "descriptor never becomes readable" % (c.node["fn"], c.line))


def rule_r10(ctx):
    r = ctx.rule("C15.R10", "T2", "room is handed to those who wait for it: a function of the message queue that changes its capacity "
                 "(mq_cap) serves the blocked writers (nni_msgq_run_putq) before it releases the lock -- the fast path of "
                 "nni_msgq_aio_put only admits a writer when nobody is ahead of it, so with writers left waiting beside free room "
                 "the descriptor polls ready while every non-blocking send answers NNG_EAGAIN", floor=1)
    prog = ctx.prog
    n = 0
    for f in prog.fns_in("core/msgqueue.c"):
        if f.cfg_failed or f.name.endswith(("_init", "_fini")):
            continue
        caps = [t for t in f.assigns() if t.node["lhs"].get("k") == "mem" and last_field(t.node["lhs"]) == "nni_msgq.mq_cap"]
        if not caps:
            continue
        serve = {(c.b, c.i) for c in f.calls("nni_msgq_run_putq")}

        def is_unlock(e):
            return e is not None and any(m.get("k") == "call" and m.get("fn") == UNLOCK for m in walk(e))
        for t in caps:
            n += 1
            after = f.reach((t.b, t.i + 1), blocked=lambda b, i, e: (b, i) in serve)
            leak = [(b, i) for (b, i) in after if (i < len(f.blocks[b].elems) and is_unlock(f.blocks[b].elems[i])) or (b, i) == (f.exit, 0)]
            if leak:
                ctx.fail(r, f, "mq_cap changed without serving the blocked writers", t.line,
                         "%s stores a new capacity at line %s and releases the queue (line %s) without nni_msgq_run_putq: writers "
                         "parked while the queue was full stay parked although there is room now, and because they are ahead of "
                         "everybody a non-blocking send is refused while the send descriptor polls ready"
                         % (f.name, t.line, f.line_of(*leak[0])))
            else:
                r.ob(f, "mq_cap line %s: blocked writers served before the lock is released" % t.line)
    if n < 1:
        raise AnalysisBroken("no store to mq_cap outside init found")


# ---------------------------------------------------------------------------
# R11: a descriptor is raised on evidence that is still true


def rule_r11(ctx):
    r = ctx.rule("C15.R11", "T3", "a poll descriptor is raised on evidence that is still true: between the raise of a protocol pollable "
                 "and the last thing that spoke for it in the same function -- a producing change of one of the fields its "
                 "readiness is computed from (an append to the ready list, a put into the buffer, a non-null store) or a test "
                 "of such a field -- nothing consumes from those fields: no removal / get / flush / resize of them and no call "
                 "of a helper of the same file that does one. Raised after the helper that hands the freed pipe to a waiting "
                 "context, the send descriptor announces a pipe that is busy again: it polls ready while a non-blocking send "
                 "answers NNG_EAGAIN", floor=12)
    prog = ctx.prog
    nodes = node_lists(prog)
    CONS = ("nni_list_remove", "nni_lmq_get", "nni_lmq_flush", "nni_list_node_remove", "nni_lmq_resize")
    PROD = ("nni_list_append", "nni_list_prepend", "nni_lmq_put", "nni_list_insert_before", "nni_list_insert_after")

    def direct(f, sup):
        cons, prod = set(), set()
        for pos, lf, txt in mutations(f, prog, nodes, sup):
            e = f.expand(f.blocks[pos[0]].elems[pos[1]])
            fn_ = e.get("fn") if e.get("k") == "call" else None
            if fn_ in CONS:
                cons.add(pos)
            elif fn_ in PROD:
                prod.add(pos)
            elif e.get("k") == "asg":
                rhs = f.expand(e["rhs"])
                (cons if (is_null(rhs) or const_of(rhs) == 0) else prod).add(pos)
        return cons, prod
    n = 0
    for poll, sup in sorted(SUPPORT.items()):
        for f in prog.functions:
            if f.cfg_failed or f.name.endswith(("_init", "_fini")):
                continue
            raises = [s_ for s_ in f.calls("nni_pollable_raise") if s_.node["args"] and last_field(f.expand(s_.node["args"][0])) == poll]
            if not raises:
                continue
            cons, prod = direct(f, sup)
            who = {}
            for c in f.calls():
                h = prog.resolve(f, c.node["fn"]) if c.node.get("fn") else None
                if h is not None and h is not f and h.file == f.file and h.static and not h.cfg_failed:
                    hc, hp = direct(h, sup)
                    if hc:
                        cons.add((c.b, c.i))
                        who[(c.b, c.i)] = h.name
                    elif hp:
                        prod.add((c.b, c.i))
            tests = set()
            for b in f.blocks.values():
                c = f.cond(b.id) if b.term and len(b.succs) == 2 else None
                if c is not None and b.elems and any(m.get("k") == "mem" and last_field(m) in sup for m in walk(c)):
                    tests.add((b.id, len(b.elems) - 1))
            ev = prod | tests
            for s_ in raises:
                n += 1
                bad = None
                for cp in sorted(cons):
                    if (s_.b, s_.i) in f.reach((cp[0], cp[1] + 1), blocked=lambda b, i, e: (b, i) in ev):
                        bad = cp
                        break
                if bad is not None:
                    ctx.fail(r, f, "%s raised after its evidence was consumed" % poll, s_.line,
                             "%s raises %s at line %s after %s (line %s) has taken from %s, with nothing in between that speaks "
                             "for readiness again: the descriptor polls ready while the operation would block"
                             % (f.name, poll, s_.line, who.get(bad, "a removal"), f.line_of(*bad), " / ".join(sorted(sup))))
                else:
                    r.ob(f, "raise of %s at line %s: no consumer between the evidence and the raise" % (poll, s_.line))
    if n < 12:
        raise AnalysisBroken("only %d raises of protocol pollables found" % n)


def run(ctx):
    ctx.guard(rule_a6)
    ctx.guard(rule_r4)
    ctx.guard(rule_r5)
    ctx.guard(rule_r6)
    ctx.guard(rule_r7)
    ctx.guard(rule_r8)
    ctx.guard(rule_r9)
    ctx.guard(rule_r10)
    ctx.guard(rule_r11)
